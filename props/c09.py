"""C09 - observe registration is counted, reversible, failure-atomic and weak.

(a) Count algebra, solver-decided for UNBOUNDED counts: TraitEventNotifier.add_to / remove_from / equals run natively on a
    stub observable whose notifier list has n <= 3 entries; the entry equal to the notifier (at a symbolic position, or
    absent) carries _ref_count = c, an unbounded z3 Int >= 1 (representation invariant: at most one equal entry, counts >= 1).
    One-step obligations: add: S(c) -> S(c+1), absent -> appended with count 1; remove: S(c+1) -> S(c), S(1) -> absent,
    absent -> NotifierNotFound and nothing changed; other entries and order untouched.  By induction on n this gives
    'n adds then n removes restore the state and the (n+1)-th remove raises' for every n.
(b) Bounded histories on real object graphs: interleavings of observe / remove for 2 handlers x 5 expressions x graph
    mutations; balanced histories restore every notifier population; failing registrations (unknown trait, non-container)
    leave no notifier anywhere; handlers' owners and observed objects are not kept alive.
"""
import gc
import weakref

import z3

from vt import symx
from vt.symx import SymInt
from vt.oblig import Obligation

from traits.api import HasTraits, Int, Str, List, Dict, Instance, Any, push_exception_handler, pop_exception_handler
from traits.observation._trait_event_notifier import TraitEventNotifier
from traits.observation._observer_change_notifier import ObserverChangeNotifier
from traits.observation.exceptions import NotifierNotFound
from traits.observation import exception_handling as _eh

LEVEL = "model_checking"
ENCODED = [("traits/observation/_trait_event_notifier.py", ["TraitEventNotifier.add_to", "TraitEventNotifier.remove_from",
                                                            "TraitEventNotifier.equals", "TraitEventNotifier.__call__"]),
           ("traits/observation/_observer_change_notifier.py", ["ObserverChangeNotifier.add_to", "ObserverChangeNotifier.remove_from",
                                                                "ObserverChangeNotifier.equals"]),
           ("traits/observation/_observe.py", ["add_or_remove_notifiers", "_AddOrRemoveNotifier.__call__"]),
           ("traits/has_traits.py", ["HasTraits.observe"])]
EXPLANATION = ("(a) symbolic execution of the notifier count algebra with an unbounded symbolic reference count (inductive step of "
               "'n registrations, n removals'); (b) bounded histories over real object graphs with population, failure-atomicity and "
               "weak-reference oracles (choice feasibility only).")
STUBS = []
ASSUMPTIONS = ["(a): representation invariant - at most one equal entry per list, all counts >= 1 (established by (b) on reachable states)"]


class Observable:
    def __init__(self, lst):
        self.lst = lst

    def _notifiers(self, force_create):
        return self.lst


def _dispatch(handler, event):
    handler(event)


class Target:
    """distinct targets that compare equal by value: notifier identity must be by object identity of the target"""

    def __eq__(self, other):
        return isinstance(other, Target)

    def __hash__(self):
        return 1


def mk_notifier(handler, target):
    return TraitEventNotifier(handler=handler, target=target, event_factory=lambda *a: a, prevent_event=lambda e: False,
                              dispatcher=_dispatch)


def mk_maintainer(handler, target):
    return ObserverChangeNotifier(observer_handler=_oh, event_factory=lambda *a: a, prevent_event=lambda e: False, graph=_GRAPH,
                                  handler=handler, target=target, dispatcher=_dispatch)


def _oh(**kw):
    pass


_GRAPH = object()


def maintainer_algebra_harness(op, n):
    """maintainers (ObserverChangeNotifier) are kept as a multiset: add_to appends; remove_from takes out the FIRST entry that
    is the same registration - same handler, graph, dispatcher and the very same target OBJECT (owners that merely compare
    equal are different owners) - and raises NotifierNotFound if there is none, changing nothing"""
    def harness(ex):
        target, twin_target = Target(), Target()          # equal by value, distinct objects
        h = lambda e: None
        h2 = lambda e: None
        kinds = [ex.choice("entry%d" % i, 3) for i in range(n)]      # 0: the same registration, 1: value-equal target, 2: other handler
        entries = [mk_maintainer(h, target) if k_ == 0 else mk_maintainer(h, twin_target) if k_ == 1 else mk_maintainer(h2, target)
                   for k_ in kinds]
        before = list(entries)
        obs = Observable(entries)
        me = mk_maintainer(h, target)
        exc = None
        try:
            (me.add_to if op == "add" else me.remove_from)(obs)
        except NotifierNotFound:
            exc = "NotifierNotFound"
        after = obs.lst
        if op == "add":
            ex.check(exc is None and len(after) == n + 1 and after[-1] is me and all(a is b for a, b in zip(after, before)),
                     "add_to appends the maintainer and touches nothing else")
        else:
            firsts = [i for i, k_ in enumerate(kinds) if k_ == 0]
            if not firsts:
                ex.check(exc == "NotifierNotFound" and len(after) == n and all(a is b for a, b in zip(after, before)),
                         "removing a maintainer that is not registered raises NotifierNotFound and changes nothing "
                         "(a registration of an owner that merely compares equal is somebody else's)")
            else:
                want = before[:firsts[0]] + before[firsts[0] + 1:]
                ex.check(exc is None and len(after) == n - 1 and all(a is b for a, b in zip(after, want)),
                         "remove_from takes out exactly the first entry of the same registration")
        return {"exc": exc, "len": len(after)}
    return harness


def algebra_harness(op, n, kind="event"):
    mk_notifier_ = mk_notifier

    def harness(ex):
        mk_notifier = mk_notifier_
        target, other_target = Target(), Target()
        h = lambda e: None
        h2 = lambda e: None
        entries = []
        pos = ex.choice("equal_entry_position", n + 1)       # n == absent
        c = ex.int("count")
        ex.assume(c >= 1)
        for i in range(n):
            if i == pos:
                e = mk_notifier(h, target)
                e._ref_count = c
            else:
                e = mk_notifier(h2 if i % 2 else h, other_target if i % 2 == 0 else target)
                e._ref_count = 1 + i
            entries.append(e)
        before = list(entries)
        counts_before = [e._ref_count for e in entries]
        obs = Observable(entries)
        me = mk_notifier(h, target)
        exc = None
        try:
            (me.add_to if op == "add" else me.remove_from)(obs)
        except NotifierNotFound:
            exc = "NotifierNotFound"
        after = obs.lst
        Z = symx._z
        if op == "add":
            ex.check(exc is None, "add_to never fails")
            if pos < n:
                ex.check(after == before, "adding an equal notifier does not change the list")
                ex.check(Z(after[pos]._ref_count) == Z(c) + 1 if ex.sym else after[pos]._ref_count == c + 1,
                         "adding an equal notifier increments its count: S(c) -> S(c+1)")
                ex.check(me._ref_count == 0, "the duplicate itself stays unregistered")
            else:
                ex.check(after[:-1] == before and after[-1] is me and me._ref_count == 1, "a new notifier is appended with count 1")
        else:
            if pos == n:
                ex.check(exc == "NotifierNotFound" and after == before, "removing an absent notifier raises NotifierNotFound and changes nothing")
            else:
                ex.check(exc is None, "removing a registered notifier succeeds")
                gone = before[pos] not in after
                one = ex.decide(Z(c) == 1) if ex.sym else c == 1
                ex.check(gone == bool(one), "the entry leaves the list exactly when its count was 1: S(1) -> absent")
                if not one:
                    ex.check(Z(before[pos]._ref_count) == Z(c) - 1 if ex.sym else before[pos]._ref_count == c - 1,
                             "S(c+1) -> S(c)")
                ex.check([e for e in after if e is not before[pos]] == [e for e in before if e is not before[pos]],
                         "other entries and their order are untouched")
        for i, e in enumerate(before):
            if i != pos:
                ex.check(e._ref_count == counts_before[i], "counts of other entries are untouched")
        return {"exc": exc, "len": len(after)}
    return harness


# ---- (b) histories --------------------------------------------------------------------------------------------------
class Leaf(HasTraits):
    b = Int(0)
    c = Int(0)


class Alien(HasTraits):
    """has none of the observed traits: hooking it up fails"""


class VLeaf(Leaf):
    """a value object: every VLeaf equals every other one (observers are a matter of identity, not of equality)"""

    def __eq__(self, other):
        return isinstance(other, VLeaf)

    def __ne__(self, other):
        return not isinstance(other, VLeaf)

    def __hash__(self):
        return 7


class Root(HasTraits):
    v = Int(0)
    a = Instance(HasTraits, tracked=True)
    lst = List(Instance(Leaf))
    s = Str("x")
    d = Dict(Str, Instance(Leaf))


EXPRS = ["v", "a.b", "a:b", "lst.items.b", "a.[b,c]", "d.items.b", "+tracked:b"]
from traits.observation.api import trait as _t
# registrations that cannot be satisfied: unknown traits at different walk positions, a non-container where list items
# are required (the text form "items" is optional by design, so the expression API is used for that one)
BAD_EXPRS = ["missing", "a.missing", "a:[b,zz]", "lst.items.zz", "[v,a.b,a.zz]"]
# several expressions in one call, the last one failing, with duplicated patterns among the completed ones
BAD_OBJS = {"list:v,a.b,v,missing": ["v", "a.b", "v", "missing"],
            "list:a.[b,c],a.[c,b],a.zz": ["a.[b,c]", "a.[c,b]", "a.zz"]}
BAD_ALL = BAD_EXPRS + list(BAD_OBJS)


def population(root):
    """sizes of every notifier list reachable in the graph"""
    out = {}
    objs = [("root", root)]
    if root.a is not None:
        objs.append(("a", root.a))
    for i, x in enumerate(root.lst):
        objs.append(("lst%d" % i, x))
    for k_, x in root.d.items():
        objs.append(("d[%s]" % k_, x))
    kinds = (TraitEventNotifier, ObserverChangeNotifier)

    def count(lst):
        return sum(1 for x in (lst or []) if isinstance(x, kinds))
    for tag, o in objs:
        out[tag + ":obj"] = count(o._notifiers(False))
        for name, ct in o._instance_traits().items():
            out["%s:%s" % (tag, name)] = count(ct._notifiers(False))
    out["root.lst:list"] = count(root.lst.notifiers)
    out["root.d:dict"] = count(root.d.notifiers)
    return {k_: v for k_, v in out.items() if v}


class Owner:
    def __init__(self):
        self.calls = 0

    def method(self, event):
        self.calls += 1


def history_harness(k):
    def harness(ex):
        errors = []
        _eh.push_exception_handler(handler=lambda e: errors.append(e), reraise_exceptions=False)
        try:
            return body(ex, errors)
        finally:
            _eh.pop_exception_handler()

    def body(ex, errors):
        root = Root(a=VLeaf(), lst=[Leaf(), Leaf()], d={"k": VLeaf()})
        calls = {0: 0, 1: 0}
        hs = [lambda e: calls.__setitem__(0, calls[0] + 1), lambda e: calls.__setitem__(1, calls[1] + 1)]
        # touch everything once so that lazily created instance traits / lists do not count as population changes
        base_pop = None
        reg = {}
        trace = []
        for step in range(k):
            op = ex.choice("op%d" % step, 11)
            hi = ex.choice("h%d" % step, 2) if op in (0, 1) else 0
            ei = ex.choice("e%d" % step, len(EXPRS)) if op in (0, 1) else 0
            key = (hi, ei)
            if op == 0:
                root.observe(hs[hi], EXPRS[ei])
                reg[key] = reg.get(key, 0) + 1
                trace.append("+%d:%s" % key)
            elif op == 1:
                exc = None
                pop0 = population(root)
                try:
                    root.observe(hs[hi], EXPRS[ei], remove=True)
                except NotifierNotFound:
                    exc = "NotifierNotFound"
                if reg.get(key, 0) == 0:
                    ex.check(exc == "NotifierNotFound", "one removal too many raises NotifierNotFound")
                    ex.check(population(root) == pop0, "... and changes nothing")
                else:
                    ex.check(exc is None, "removing a registered handler succeeds")
                    reg[key] -= 1
                trace.append("-%d:%s:%s" % (hi, ei, exc))
            elif op == 2:
                root.a = VLeaf()              # equal to the object it replaces, and distinct
                trace.append("swap_a")
            elif op == 9:
                root.d["k2"] = root.d["k"]    # the same object under a second key
                trace.append("second_key")
            elif op == 10:
                root.d.pop("k2", None)        # one of its keys goes: the object is still in the dict
                trace.append("drop_second_key")
            elif op == 3:
                root.lst.append(Leaf())
                trace.append("append")
            elif op in (5, 6):
                raised = None
                try:
                    if op == 5 and root.lst:
                        root.lst[:] = [root.lst[0], root.lst[0]]      # multiplicities change: 1 -> 2, the others 1 -> 0
                    elif op == 6 and len(root.lst) > 1:
                        root.lst.pop()
                except Exception as e:
                    raised = type(e).__name__
                trace.append("dup" if op == 5 else "pop")
                if not ex.check(raised is None, "mutating an observed list of healthy items does not raise"):
                    return {"trace": trace}
            elif op == 8:
                # a dict value replaced, under its key, by an EQUAL but distinct object: the observers move all the same
                old = root.d["k"]
                root.d["k"] = VLeaf()
                trace.append("twin")
                if any(v_ is old for v_ in root.d.values()):
                    continue              # still in the dict under its other key: not detached
                calls[0] = calls[1] = 0
                old.b += 1
                ok = ex.check(calls[0] == 0 and calls[1] == 0, "a dict value replaced by an equal object is detached")
                ok = ex.check(not any(isinstance(x, (TraitEventNotifier, ObserverChangeNotifier))
                                      for ct in old._instance_traits().values() for x in (ct._notifiers(False) or [])),
                              "a dict value replaced by an equal object keeps no notifier") and ok
                if not ok:
                    return {"trace": trace}
            elif op == 7:
                # a graph mutation whose hook-up fails: the replaced object is detached all the same
                old = root.a
                failed = None
                try:
                    root.a = Alien()
                except Exception as e:
                    failed = type(e).__name__
                trace.append("alien:%s" % failed)
                active = any(cnt > 0 and ee in (1, 2, 4, 6) for (hh, ee), cnt in reg.items())
                ex.check((failed is not None) == active, "hooking up an object that lacks the observed trait raises (iff something observes it)")
                calls[0] = calls[1] = 0
                old.b += 1
                old.c += 1
                ok = ex.check(calls[0] == 0 and calls[1] == 0, "the replaced object is detached although hooking up its successor failed")
                ok = ex.check(not any(isinstance(x, (TraitEventNotifier, ObserverChangeNotifier))
                                      for ct in old._instance_traits().values() for x in (ct._notifiers(False) or [])),
                              "the replaced object keeps no notifier although hooking up its successor failed") and ok
                try:
                    root.a = VLeaf()      # heal, so that the history can go on
                except Exception as e:
                    ok = ex.check(False, "replacing the object whose hook-up failed works") and ok
                if not ok:
                    return {"trace": trace}       # the residue would only repeat itself in every later observation
                del errors[:]
            else:
                bad = BAD_ALL[ex.choice("bad%d" % step, len(BAD_ALL))]
                pop0 = population(root)
                exc = None
                try:
                    root.observe(hs[hi], BAD_OBJS.get(bad, bad))
                except ValueError:
                    exc = "ValueError"
                ex.check(exc == "ValueError", "registering an expression that cannot be satisfied raises ValueError")
                trace.append("bad:" + bad)
                if not ex.check(population(root) == pop0, "a failing registration leaves no notifier anywhere in the graph"):
                    return {"trace": trace}       # the residue would only repeat itself in every later observation
            # probe: change every observed leaf once; each registered (handler, expression) with count >= 1 is called once per change
            for probe in ("v", "a.b", "lst.b", "d.b"):
                calls[0] = calls[1] = 0
                if probe == "v":
                    root.v += 1
                    names = {0}
                elif probe == "d.b":
                    root.d["k"].b += 1
                    names = {5}
                elif probe == "a.b":
                    root.a.b += 1
                    names = {1, 2, 4, 6}
                else:
                    root.lst[-1].b += 1
                    names = {3}
                for h in (0, 1):
                    # equal leaf notifiers (same handler, target, dispatcher) are shared and counted, so several
                    # registrations of one handler that cover the same leaf yield one call
                    want = min(1, sum(1 for (hh, ee), cnt in reg.items() if hh == h and cnt > 0 and ee in names))
                    ex.check(calls[h] == want, "the handler is called once per change for each active registration, however often it was registered")
            ex.check(errors == [], "no handler or maintainer raised")
        # unregister everything that is still registered: populations return to the initial sizes
        for (hi, ei), cnt in list(reg.items()):
            for _ in range(cnt):
                try:
                    root.observe(hs[hi], EXPRS[ei], remove=True)
                except NotifierNotFound:
                    ex.check(False, "removing a registered handler succeeds")
                    return {"trace": trace}
        ex.check(population(root) == {}, "after n registrations and n removals every notifier population is back at its initial size")
        calls[0] = calls[1] = 0
        root.v += 1
        root.a.b += 1
        root.lst[0].b += 1
        root.d["k"].b += 1
        ex.check(calls[0] == 0 and calls[1] == 0, "no handler call after everything was unregistered")
        return {"trace": trace}
    return harness


def weak_harness(ex):
    errors = []
    _eh.push_exception_handler(handler=lambda e: errors.append(e), reraise_exceptions=False)
    try:
        root = Root(a=Leaf(), lst=[Leaf()])
        owner = Owner()
        expr = EXPRS[ex.choice("expr", len(EXPRS))]
        root.observe(owner.method, expr)
        wr_owner, wr_leaf, wr_root = weakref.ref(owner), weakref.ref(root.a), None
        which = ex.choice("collect", 5)
        if which == 4:
            # a plain-function handler that refers back to the observed object (a reference cycle through the notifier lists):
            # the cycle is garbage like any other
            def make():
                r2 = Root(a=Leaf(), lst=[Leaf()])
                seen = []
                r2.observe(lambda e: seen.append(r2), expr)       # the closure cell keeps r2: a genuine cycle
                r2.v += 1
                return weakref.ref(r2)
            wr2 = make()
            gc.collect()
            ex.check(wr2() is None, "a handler that refers to the observed object does not make it immortal (the cycle is collected)")
            return {"which": which}
        if which == 3:
            # a change whose notification RAISES (hooking up the successor fails) must not pin the objects either
            leaf = root.a
            try:
                root.a = Alien()
            except Exception:
                pass
            leaf.b += 1
            wr_root = weakref.ref(root)
            del root, leaf
            gc.collect()
            ex.check(wr_root() is None and wr_leaf() is None, "objects that saw a failing change notification are not kept alive")
            return {"which": which}
        if which == 0:
            del owner
            gc.collect()
            ex.check(wr_owner() is None, "a registration does not keep a bound-method handler's owner alive")
            root.v += 1
            root.a.b += 1
            root.lst[0].b += 1
            root.a = Leaf()
            root.lst.append(Leaf())
        elif which == 1:
            old = root.a
            root.a = Leaf()
            del old
            gc.collect()
            ex.check(wr_leaf() is None, "a detached observed object is not kept alive by the registration")
            root.a.b += 1
        else:
            leaf = root.a
            wr_root = weakref.ref(root)
            del root
            gc.collect()
            ex.check(wr_root() is None, "the observed root is not kept alive by the registration")
            leaf.b += 1
        ex.check(errors == [], "after collection no change raises")
        return {"which": which}
    finally:
        _eh.pop_exception_handler()


def wildcard_harness(ex):
    """a handler registered (n times) for a name that a wildcard trait will govern, before the attribute exists: the first
    assignment is a change like any other (one call), and n removals detach it everywhere - also from traits that came into
    existence while the handler was registered (a name resolved through the wildcard, a container trait added with add_trait)"""
    from traits.observation.api import trait as trait_
    errors = []
    _eh.push_exception_handler(handler=lambda e: errors.append(e), reraise_exceptions=False)
    try:
        class W(HasTraits):
            temp_ = Int()
            other = Int()

        first = W()              # another instance has used the class before (or not)
        if ex.flag("name_used_before_on_another_instance"):
            first.temp_x = 1
        w = W()
        calls = []
        h = lambda e: calls.append((e.name, e.new))
        expr = [trait_("temp_x", optional=True), "*", trait_("temp_x", optional=True) | trait_("other")][ex.choice("expr", 3)]
        n = 1 + ex.choice("n", 2)
        for _ in range(n):
            w.observe(h, expr)
        added = ex.flag("container_trait_added_meanwhile")
        if added:
            w.add_trait("lst", List(Int))
            w.lst = [1]
        del calls[:]
        w.temp_x = 5
        ex.check([c for c in calls if c[0] == "temp_x"] == [("temp_x", 5)], "the first assignment to a wildcard-governed name registered beforehand calls the handler once")
        del calls[:]
        w.temp_x = 6
        ex.check([c for c in calls if c[0] == "temp_x"] == [("temp_x", 6)], "the handler is called once per change, however often it was registered")
        for _ in range(n):
            exc = None
            try:
                w.observe(h, expr, remove=True)
            except NotifierNotFound:
                exc = "NotifierNotFound"
            if not ex.check(exc is None, "removing a registered handler succeeds"):
                break
        del calls[:]
        w.temp_x = 7
        w.other = 3
        ex.check(calls == [], "no handler call after everything was unregistered")
        if added:
            del calls[:]
            w.lst.append(2)
            w.lst = [4]
            ex.check(calls == [], "no handler call for a trait added meanwhile after everything was unregistered")
        if exc is None:
            try:
                w.observe(h, expr, remove=True)
            except NotifierNotFound:
                exc = "NotifierNotFound"
            ex.check(exc == "NotifierNotFound", "one removal too many raises NotifierNotFound")
        ex.check(errors == [], "no handler or maintainer raised")
        return {"n": n}
    finally:
        _eh.pop_exception_handler()


def decorated_harness(ex):
    """registrations made by the @observe decorator are counted like any other: a decorated method reached through several base
    classes (diamond) is registered ONCE per instance; one removal detaches it, the next raises NotifierNotFound; subclasses
    overriding the method replace the registration"""
    from traits.api import observe
    errors = []
    _eh.push_exception_handler(handler=lambda e: errors.append(e), reraise_exceptions=False)
    try:
        calls = []
        shape = ex.choice("hierarchy", 4)

        class Base(HasTraits):
            v = Int(0)
            w = Int(0)

            @observe("v")
            def watch(self, event):
                calls.append(("Base", event.new))

        class L(Base):
            pass

        class R(Base):
            pass

        if shape == 0:
            cls = Base
        elif shape == 1:
            cls = L
        elif shape == 2:
            cls = type("D", (L, R), {})                       # diamond: watch reached through both L and R
        else:
            class R2(Base):
                @observe("w")
                def watch(self, event):                       # overrides: observes w instead
                    calls.append(("R2", event.new))
            cls = type("D2", (L, R2), {})                     # MRO: D2, L, R2, Base -> R2.watch wins
        o = cls()
        overridden = shape == 3
        o.v = 1
        o.w = 1
        want = [("R2", 1)] if overridden else [("Base", 1)]
        ex.check(calls == want, "a decorated method is registered exactly once per instance, whatever the inheritance graph")
        exc = None
        try:
            o.observe(o.watch, "w" if overridden else "v", remove=True)
        except NotifierNotFound:
            exc = "NotifierNotFound"
        ex.check(exc is None, "the decorator's registration can be removed like any other")
        del calls[:]
        o.v = 2
        o.w = 2
        ex.check(calls == [], "one removal detaches the decorated method completely")
        exc = None
        try:
            o.observe(o.watch, "w" if overridden else "v", remove=True)
        except NotifierNotFound:
            exc = "NotifierNotFound"
        ex.check(exc == "NotifierNotFound", "one removal too many raises NotifierNotFound")
        ex.check(errors == [], "no handler raised")
        return {"shape": shape}
    finally:
        _eh.pop_exception_handler()


def multi_maintainer_alien(v):
    """known-finding helper: the history reaches a failing hook-up (op 7) while >= 2 maintainers sit on Root.a"""
    reg = {}
    i = 0
    while "op%d" % i in v:
        op, h, e = v["op%d" % i], v.get("h%d" % i, 0), v.get("e%d" % i, 0)
        if op == 0:
            reg[(h, e)] = reg.get((h, e), 0) + 1
        elif op == 1 and reg.get((h, e), 0) > 0:
            reg[(h, e)] -= 1
        elif op == 7:
            graphs = sum(c * (2 if e_ == 4 else 1) for (h_, e_), c in reg.items() if c > 0 and e_ in (1, 2, 4, 6))
            if graphs >= 2:
                return True
        i += 1
    return False


KNOWN_HELPERS = {"c09_multi_maintainer_alien": multi_maintainer_alien}


def obligations(tier, build):
    obs = []
    for n in range(0, 4):
        for op in ("add", "remove"):
            obs.append(Obligation("algebra/%s/n=%d" % (op, n), algebra_harness(op, n),
                                  bounds={"other entries": n, "count of the equal entry": "unbounded Int >= 1", "position": "symbolic"},
                                  assumes=ASSUMPTIONS, leverage="the reference count (unbounded): inductive step for every n"))
            obs.append(Obligation("algebra-maintainer/%s/n=%d" % (op, n), maintainer_algebra_harness(op, n),
                                  bounds={"entries": n, "entry kinds": "same registration / value-equal target / other handler, at every position",
                                          "notifier class": "ObserverChangeNotifier"},
                                  leverage="choice feasibility only (no arithmetic: a multiset, not a counter)"))
    K = 2 if tier == "quick" else 3
    obs.append(Obligation("history/k=%d" % K, history_harness(K),
                          bounds={"history length": K, "handlers": 2, "expressions": EXPRS, "failing expressions": BAD_ALL},
                          leverage="choice feasibility only", max_paths=200000, path_wall_s=60))
    obs.append(Obligation("decorated", decorated_harness, bounds={"hierarchies": ["plain", "subclass", "diamond", "diamond with override"]},
                          leverage="choice feasibility only"))
    obs.append(Obligation("wildcard-name", wildcard_harness, bounds={"expressions": ["trait(name, optional)", "*", "trait(name, optional) | trait(other)"],
                                                                     "registrations": "1-2"}, leverage="choice feasibility only"))
    obs.append(Obligation("weak", weak_harness, bounds={"expressions": EXPRS, "collected": ["handler owner", "detached leaf", "root", "root and leaf after a failing notification"]},
                          leverage="choice feasibility only"))
    return obs
