"""C20 - synchronised traits converge and stop when unsynchronised.

Encoded: HasTraits.sync_trait, _sync_trait_modified, _sync_trait_items_modified run natively on real objects.  List mutations
use the real TraitListObject methods with unbounded symbolic indices / slice fields on the initiating side (ListModel
classification); on the receiving side the write-back `[n0:n1] = added` carries the symbolic *normalised* index, which is
provably bounded, so its __index__ is forked exhaustively.  Scalar histories (assign either side, remove the link, collect
the partner) are bounded choice histories.
"""
import contextlib
import gc

import z3

from vt import symx, envmodels
from vt.symx import SymInt
from vt.envmodels import MSlice, ListModel
from vt.oblig import Obligation
import props.c04 as c04
import props.c05 as c05

import traits.trait_types as tt
import traits.trait_list_object as tlo
from traits.api import HasTraits, Int, List, Str, Any, TraitError, push_exception_handler, pop_exception_handler

LEVEL = "model_checking"
ENCODED = [("traits/has_traits.py", ["HasTraits.sync_trait", "HasTraits._sync_trait_modified",
                                     "HasTraits._sync_trait_items_modified", "HasTraits._get_sync_trait_info"]),
           ("traits/trait_list_object.py", c04.ENCODED[0][1])]
EXPLANATION = ("Symbolic execution of the real sync_trait machinery: list mutators with unbounded symbolic indices/slices on either "
               "side of a mutual / one-way / aliased link; after every step z3-decided paths must leave both lists equal, each side's "
               "handlers called at most once per change, and the propagation depth bounded. Scalar/removal/GC histories: bounded "
               "choice exploration (k<=3).")
STUBS = c04.STUBS
ASSUMPTIONS = ["list *= k: k <= %d for non-empty lists" % ListModel.IMUL_MAX]


class SliceShadow(type):
    """`slice` inside trait_list_object during symbolic runs: builds MSlice, and isinstance() accepts MSlice and real slices"""

    def __call__(cls, *a):
        return MSlice(*a)

    def __instancecheck__(cls, obj):
        return isinstance(obj, (MSlice, slice))


Slice = SliceShadow("slice", (), {})


@contextlib.contextmanager
def env():
    import traits.has_traits as hts
    with c04.list_env():
        old = tlo.slice
        tlo.slice = Slice
        hts.slice = Slice
        try:
            yield
        finally:
            tlo.slice = old
            del hts.slice


def selftest(tier):
    return envmodels.selftest(maxlen=4, span=6)


LIST_OPS = ["set_int", "del_int", "insert", "pop", "del_slice", "set_slice", "append", "extend", "clear", "imul", "sort", "assign"]


def list_harness(op, n, m, mutual, alias, side, mask=None, dynamic=False):
    keykind = {"set_int": "int", "del_int": "int", "insert": "int", "pop": "int", "set_slice": "slice", "del_slice": "slice"}.get(op)

    def harness(ex):
        push_exception_handler(lambda *a: errors.append(a) or None, reraise_exceptions=False)
        errors = []
        try:
            return body(ex, errors)
        finally:
            pop_exception_handler()

    def body(ex, errors):
        class A(HasTraits):
            l = List(Int)

        class B(HasTraits):
            l = List(Int)
            m = List(Int)

        bname = "m" if alias else "l"
        if dynamic:
            # the synchronised traits are added to the objects at run time (add_trait), each object from its own definition;
            # an unrelated object that got the same definitions must hear nothing
            class A(HasTraits):
                pass

            class B(HasTraits):
                pass
            a, b, bystander = A(), B(), B()
            a.add_trait("l", List(Int))
            for o_ in (b, bystander):
                o_.add_trait(bname, List(Int))
            bystander_calls = []
            bystander.on_trait_change(lambda: bystander_calls.append(1), bname + "," + bname + "_items")
        else:
            a, b = A(), B()
        a.l = [10 * (i + 1) for i in range(n)]
        calls = {"a": 0, "b": 0, "depth": 0}
        a.sync_trait("l", b, bname if alias else None, mutual=mutual)
        a.on_trait_change(lambda: calls.__setitem__("a", calls["a"] + 1), "l,l_items")
        b.on_trait_change(lambda: calls.__setitem__("b", calls["b"] + 1), bname + "," + bname + "_items")
        ex.check(list(getattr(b, bname)) == list(a.l), "linking copies the source value to the target")
        src, sname, dst, dname = (a, "l", b, bname) if side == "a" else (b, bname, a, "l")
        lst = getattr(src, sname)
        before_src, before_dst = list(lst), list(getattr(dst, dname))
        key = c05.mk_key(ex, keykind, mask) if keykind else None
        k = None
        new = None
        if op == "imul":
            k = ex.int("k")
            if n > 0:
                ex.assume(k <= ListModel.IMUL_MAX)
        elif op in ("set_int", "insert", "append"):
            new = 77
        elif op in ("set_slice", "extend", "assign"):
            new = [70 + j for j in range(m)]
        exc = None
        try:
            if op == "assign":
                setattr(src, sname, new)
            elif op == "sort":
                lst.sort(reverse=True)
            else:
                c05.apply(op, lst, key, new, k, False)
        except (IndexError, ValueError, TypeError, OverflowError) as e:
            exc = type(e).__name__
        after_src, after_dst = list(getattr(src, sname)), list(getattr(dst, dname))
        propagates = mutual or side == "a"
        if propagates:
            ex.check(after_dst == after_src, "after the operation both sides hold equal lists")
        else:
            ex.check(after_dst == before_dst, "one-way link: a change on the target side does not propagate back")
        changed = after_src != before_src
        ex.check(calls["a"] <= 1 and calls["b"] <= 1, "each side's handlers are notified at most once per change")
        if not changed:
            ex.check(after_dst == before_dst, "an operation that changes nothing changes nothing on the partner")
        ex.check(errors == [], "propagation raises nothing (no exception reaches the notification exception handler)")
        if dynamic:
            ex.check(bystander_calls == [] and list(getattr(bystander, bname)) == [],
                     "an unrelated object with the same run-time traits hears and receives nothing")
        return {"exc": exc, "src": after_src, "dst": after_dst, "calls": [calls["a"], calls["b"]]}

    return harness


def scalar_harness(k, mutual, alias, partners):
    def harness(ex):
        push_exception_handler(lambda *a: errors.append(a) or None, reraise_exceptions=False)
        errors = []
        try:
            return body(ex, errors)
        finally:
            pop_exception_handler()

    def body(ex, errors):
        static = {}

        class A(HasTraits):
            x = Int(1)

            def _x_changed(self):
                static[id(self)] = static.get(id(self), 0) + 1

        class B(HasTraits):
            x = Int(2)
            y = Int(3)

            def _x_changed(self):
                static[id(self)] = static.get(id(self), 0) + 1

            def _y_changed(self):
                static[id(self)] = static.get(id(self), 0) + 1

        a = A()
        bs = [B() for _ in range(partners)]
        bname = "y" if alias else "x"
        for b in bs:
            a.sync_trait("x", b, bname if alias else None, mutual=mutual)
        fwd = [True] * partners            # a.x -> b_i propagates
        back = [mutual] * partners         # b_i -> a.x propagates
        alive = [True] * partners
        calls = {"a": 0}
        a.on_trait_change(lambda: calls.__setitem__("a", calls["a"] + 1), "x")
        bcalls = [0] * partners

        def counter(i):
            return lambda: bcalls.__setitem__(i, bcalls[i] + 1)
        for i, b in enumerate(bs):
            b.on_trait_change(counter(i), bname)
        ex.check(all(getattr(b, bname) == a.x for b in bs), "linking copies the source value to every target")
        trace = []
        val = 10
        for step in range(k):
            op = ex.choice("op%d" % step, 11)
            who = ex.choice("who%d" % step, partners)
            val += 1
            static.clear()
            calls["a"] = 0
            for i in range(partners):
                bcalls[i] = 0
            snapshot = [getattr(b, bname) if alive[i] else None for i, b in enumerate(bs)]
            ax = a.x
            if op == 0:
                a.x = val
                trace.append("a=%d" % val)
                for i, b in enumerate(bs):
                    if alive[i]:
                        if fwd[i]:
                            ex.check(getattr(b, bname) == val, "assignment on the source reaches every linked target")
                        else:
                            ex.check(getattr(b, bname) == snapshot[i], "after removal an assignment no longer propagates")
            elif op == 1:
                if not alive[who]:
                    continue
                setattr(bs[who], bname, val)
                trace.append("b%d=%d" % (who, val))
                if back[who]:
                    ex.check(a.x == val, "linked target -> source direction: assignment on the target reaches the source")
                    for i, b in enumerate(bs):
                        if alive[i] and fwd[i] and i != who:
                            ex.check(getattr(b, bname) == val, "... and, through it, the other linked targets")
                else:
                    ex.check(a.x == ax, "one-way / removed direction: assignment on the target has no effect on the source")
            elif op in (2, 5, 6, 7):
                if not alive[who] or not (fwd[who] or back[who]):
                    continue
                al = bname if alias else None
                if op == 2:        # remove from the source side, both directions
                    a.sync_trait("x", bs[who], al, mutual=True, remove=True)
                    fwd[who] = back[who] = False
                elif op == 5:      # remove from the source side, this direction only
                    a.sync_trait("x", bs[who], al, mutual=False, remove=True)
                    fwd[who] = False
                elif op == 6:      # remove from the target side, both directions
                    bs[who].sync_trait(bname, a, "x", mutual=True, remove=True)
                    fwd[who] = back[who] = False
                else:              # remove from the target side, its direction only
                    bs[who].sync_trait(bname, a, "x", mutual=False, remove=True)
                    back[who] = False
                trace.append("rm%d:%d" % (op, who))
            elif op in (8, 9):
                # a quiet update (trait_setq / trait_set(trait_change_notify=False)) that validation rejects: nothing changes,
                # and the links work afterwards as before (the following steps check that)
                if op == 9 and not alive[who]:
                    continue
                try:
                    if op == 8:
                        a.trait_setq(x="not an int")
                    else:
                        bs[who].trait_set(trait_change_notify=False, **{bname: "not an int"})
                    rejected = False
                except TraitError:
                    rejected = True
                trace.append("quiet-rejected%d" % op)
                ex.check(rejected and a.x == ax and [getattr(b, bname) if alive[i] else None for i, b in enumerate(bs)] == snapshot,
                         "a rejected quiet update changes nothing")
            elif op == 10:
                # a handler of the partner raises for ONE change (the failure goes to the exception handler): the link works on
                if not alive[who] or not fwd[who]:
                    continue
                fired = []

                def boom():
                    if not fired:
                        fired.append(1)
                        raise RuntimeError("handler failed")
                bs[who].on_trait_change(boom, bname)
                a.x = val
                trace.append("boom%d" % who)
                ex.check(getattr(bs[who], bname) == val, "a failing handler of the partner does not undo the propagated value")
                del errors[:]
            elif op == 3:
                if not alive[who]:
                    continue
                import weakref as _wr
                wr_ = _wr.ref(bs[who])
                b = None                       # (the loop variable of the checks above still names a partner)
                bs[who] = None
                gc.collect()
                ex.check(wr_() is None, "a partner the application dropped is collected (whatever its handlers did before)")
                alive[who] = False
                fwd[who] = back[who] = False
                trace.append("gc%d" % who)
            else:
                a.x = ax          # re-assign the same value: no change
                trace.append("same")
                ex.check(calls["a"] == 0 and all(c == 0 for c in bcalls), "re-assigning the same value notifies nobody")
            ex.check(calls["a"] <= 1 and all(c <= 1 for c in bcalls), "each side's handlers are notified at most once per change")
            ex.check(all(c <= 1 for c in static.values()), "each side's statically named handlers are notified at most once per change")
            ex.check(errors == [], "no step raises into the notification exception handler")
        return {"trace": trace}

    return harness


def triangle_harness(k, reraise_fixed=None, first_op=None):
    """three objects synchronised pairwise (every pair mutually) on a List and on an Int trait: one assignment or in-place change on
    any of them makes all three equal, terminates, and calls every side's handlers - the statically named methods included - at
    most once, and exactly once when that side's value really changed; a failing handler of one side (exceptions re-raised into
    the compiled notification loop) changes none of that, and a side that is dropped afterwards is collected"""
    import weakref

    def harness(ex):
        errors = []
        reraise = ex.flag("handler_exceptions_are_reraised") if reraise_fixed is None else reraise_fixed
        push_exception_handler(lambda *a: errors.append(a) or None, reraise_exceptions=reraise)
        try:
            counts = {}

            def bump(key):
                counts[key] = counts.get(key, 0) + 1

            class Node(HasTraits):
                name = Str()
                l = List(Int)
                x = Int(0)

                def _l_changed(self):
                    bump((self.name, "static l"))

                def _x_changed(self):
                    bump((self.name, "static x"))

            nodes = [Node(name=n_) for n_ in "abc"]
            for i in range(3):
                for j in range(i + 1, 3):
                    nodes[i].sync_trait("l", nodes[j])
                    nodes[i].sync_trait("x", nodes[j])
            for n_ in nodes:
                n_.on_trait_change(lambda obj, name, old, new: bump((obj.name, "dynamic " + name)), "l, x")
            val = 100
            boom_armed = []
            for step in range(k):
                op = ex.choice("op%d" % step, 6) if not (step == 0 and first_op is not None) else first_op
                who = nodes[ex.choice("who%d" % step, 3)]
                val += 1
                before = {n_.name: (list(n_.l), n_.x) for n_ in nodes}
                counts.clear()
                failed = None
                try:
                    if op == 0:
                        who.l = [val, val + 1]
                    elif op == 1:
                        who.l = list(who.l)             # an equal list, a fresh object
                    elif op == 2:
                        who.l.append(val)
                    elif op == 3:
                        who.x = val
                    elif op == 4:
                        who.x = who.x
                    else:
                        # from now on ONE handler of this side raises once
                        fired = []

                        def boom():
                            if not fired:
                                fired.append(1)
                                raise RuntimeError("handler failed")
                        who.on_trait_change(boom, "x")
                        continue
                except RuntimeError:
                    failed = True                       # (re-raised handler exceptions surface at the assignment that triggered them;
                                                        # the exception object itself is not kept: its traceback pins the objects)
                ex.check(failed is None or reraise, "a handler exception reaches the caller only when re-raising was asked for")
                ex.check(all(list(n_.l) == list(nodes[0].l) and n_.x == nodes[0].x for n_ in nodes) or failed is not None,
                         "after the operation all three sides are equal")
                for n_ in nodes:
                    for attr in ("l", "x"):
                        changed = (list(n_.l), n_.x)[attr == "x"] != before[n_.name][attr == "x"]
                        for kind in ("static", "dynamic"):
                            got = counts.get((n_.name, "%s %s" % (kind, attr)), 0)
                            if op == 2 and attr == "l":
                                ex.check(got == 0, "an in-place change is no whole-value change")
                            else:
                                ex.check(got <= 1, "each side's handlers (statically named ones included) are notified at most once per change")
                                if failed is None:
                                    ex.check(got == (1 if changed else 0), "... and exactly once when that side's value changed")
                del errors[:]
            victim = nodes.pop(ex.choice("dropped", 3))
            wr = weakref.ref(victim)
            who = n_ = None
            del victim
            gc.collect()
            ex.check(wr() is None, "a side the application dropped is collected, whatever its handlers did before")
            try:
                nodes[0].x = 5000
            except RuntimeError:
                pass                                    # (an armed handler going off, re-raised)
            ex.check(nodes[1].x == 5000, "the remaining sides stay synchronised")
            return {"k": k}
        finally:
            pop_exception_handler()
    return harness


class Vec:
    """array-like value: == and != give an object whose truth value is ambiguous (raises), as numpy arrays do"""

    class _Mask:
        def __bool__(self):
            raise ValueError("the truth value of a mask is ambiguous")

    def __eq__(self, o):
        return Vec._Mask()

    def __ne__(self, o):
        return Vec._Mask()

    __hash__ = object.__hash__


def values_harness(kind, mutual):
    """value kinds whose comparison is awkward: NaN (never equal to itself) and array-likes (comparison result has no truth
    value).  'Both sides equal' means both sides hold the very object that was assigned."""
    from traits.api import Float

    def harness(ex):
        errors = []
        push_exception_handler(lambda *a: errors.append(a), reraise_exceptions=False)
        try:
            from traits.api import Expression
            counter = [0]

            class A(HasTraits):
                x = Float() if kind == "float" else Expression("0") if kind == "expression" else Any()
                xs = List(Float) if kind == "float" else List(Any)

            a, b = A(), A()
            a.sync_trait("x", b, mutual=mutual)
            a.sync_trait("xs", b, mutual=mutual)
            calls = {"a": 0, "b": 0}
            a.on_trait_change(lambda: calls.__setitem__("a", calls["a"] + 1), "x")
            b.on_trait_change(lambda: calls.__setitem__("b", calls["b"] + 1), "x")
            mk = (lambda: float("nan")) if kind == "float" else Vec
            if kind == "expression":
                # a trait that stores the ORIGINAL value (the text) while validation yields something else (a code object)
                def mk():
                    counter[0] += 1
                    return "1 + %d" % counter[0]
            same = (lambda p, q: p is q) if kind != "expression" else (lambda p, q: p == q)
            v = mk()
            for step in range(3):
                op = ex.choice("op%d" % step, 5)
                calls["a"] = calls["b"] = 0
                raised = None
                try:
                    if op == 0:
                        v = mk()
                        a.x = v
                        ex.check(same(a.x, v) and same(b.x, v), "both sides hold the very object that was assigned to the source")
                        if kind == "expression":
                            ex.check(eval(a.x_) == eval(v) and eval(b.x_) == eval(v), "... and the mapped shadow of both sides follows it")
                        ex.check(calls["a"] <= 1 and calls["b"] <= 1, "each side's handlers are notified at most once per change")
                    elif op == 1:
                        a.x = v                      # the same object again (NaN != NaN, yet nothing changed)
                        if a.x is v and step > 0:
                            pass
                    elif op == 2:
                        v = mk()
                        b.x = v
                        if mutual:
                            ex.check(same(a.x, v) and same(b.x, v), "both sides hold the very object that was assigned to the target (mutual link)")
                    elif op == 3:
                        w = mk()
                        a.xs.append(w)
                        ex.check(len(b.xs) == len(a.xs) and all(p is q for p, q in zip(a.xs, b.xs)),
                                 "in-place list mutation: both lists hold the same objects")
                    else:
                        w = mk()
                        a.xs = [w, w]
                        ex.check(len(b.xs) == 2 and all(p is q for p, q in zip(a.xs, b.xs)),
                                 "whole-list assignment: both lists hold the same objects")
                except Exception as e:
                    raised = type(e).__name__
                ex.check(raised is None, "an assignment to a synchronised trait does not raise, whatever comparing its values does")
                ex.check(errors == [], "no step raises into the notification exception handler")
            return {"kind": kind}
        finally:
            pop_exception_handler()
    return harness


def unlink_inside_handler_harness(ex):
    """removal 'at any point' includes the middle of a notification: a handler registered on the source BEFORE the link runs
    before the link's own maintenance handler; when it takes the link down (or moves it to another partner) nothing of the
    change being dispatched may reach the removed partner, nothing may raise, the new partner gets the change exactly once"""
    errors = []
    push_exception_handler(lambda *a: errors.append(a), reraise_exceptions=False)
    try:
        class Model(HasTraits):
            items = List(Int)
            n = Int

        a, b, c = Model(), Model(), Model()
        a.items = [1, 2]
        variant = ex.choice("variant", 3)          # 0: scalar unlink, 1: list unlink, 2: list relink to a third object
        mutual = ex.flag("mutual")
        done = []
        if variant == 0:
            def unlink(new):
                if not done:
                    done.append(1)
                    a.sync_trait("n", b, mutual=mutual, remove=True)
            a.on_trait_change(unlink, "n")
            seen = []
            b.on_trait_change(lambda new: seen.append(new), "n")
            a.sync_trait("n", b, mutual=mutual)
            a.n = 5
            ex.check(b.n == 0 and seen == [], "a link removed by an earlier handler of the same change propagates nothing")
            a.n = 6
            ex.check(b.n == 0, "... nor later")
        else:
            def on_items(event):
                if not done:
                    done.append(1)
                    a.sync_trait("items", b, mutual=mutual, remove=True)
                    if variant == 2:
                        a.sync_trait("items", c, mutual=mutual)
            a.on_trait_change(on_items, "items_items")
            a.sync_trait("items", b, mutual=mutual)
            ex.check(b.items == [1, 2], "linking copies the list")
            op = ex.choice("op", 4)
            raised = None
            try:
                if op == 0:
                    a.items.append(3)
                elif op == 1:
                    a.items.insert(0, 3)
                elif op == 2:
                    del a.items[0]
                else:
                    a.items[0:1] = [7, 8]
            except Exception as e:
                raised = type(e).__name__
            ex.check(raised is None, "mutating a list whose link an earlier handler removed does not raise")
            ex.check(b.items == [1, 2], "a link removed by an earlier handler of the same change propagates nothing")
            if variant == 2:
                ex.check(c.items == a.items, "the new partner holds the list after the change - applied once, not twice")
                a.items.append(9)
                ex.check(c.items == a.items and b.items == [1, 2], "... and follows from then on, the old partner does not")
            else:
                a.items.append(9)
                ex.check(b.items == [1, 2], "... nor later")
        ex.check(errors == [], "nothing raises into the notification exception handler")
        return {"variant": variant}
    finally:
        pop_exception_handler()


def obligations(tier, build):
    obs = []
    for rr in (False, True):
        for fo in range(6):
            obs.append(Obligation("triangle/k=2/%s/first=%d" % ("reraise" if rr else "swallow", fo), triangle_harness(2, rr, fo),
                                  bounds={"objects": "three, every pair synchronised mutually on a List and an Int trait",
                                          "operations": ["assign a list", "assign an equal fresh list", "append in place",
                                                         "assign an int", "re-assign the same int", "arm a failing handler"],
                                          "handler exceptions": "re-raised" if rr else "swallowed", "first operation": fo},
                                  leverage="choice feasibility only", max_paths=50000))
    obs.append(Obligation("unlink-inside-handler", unlink_inside_handler_harness,
                          bounds={"variants": ["scalar unlink", "list unlink", "list relink"], "list operations": 4, "mutual": "flag"},
                          leverage="choice feasibility only"))
    for kind in ("float", "vector", "expression"):
        for mutual in (True, False):
            obs.append(Obligation("values/%s/%s" % (kind, "mutual" if mutual else "oneway"), values_harness(kind, mutual),
                                  bounds={"value kind": "NaN floats" if kind == "float" else "Expression texts (the trait stores the original value)" if kind == "expression" else "array-like (== has no truth value)",
                                          "history length": 3}, leverage="choice feasibility only"))
    N = 2 if tier == "quick" else 4
    M = 2 if tier == "quick" else 3
    for mutual in (True, False):
        for alias in ((False, True) if mutual else (False,)):
            for side in ("a", "b"):
                for n in range(N + 2):
                    for op in LIST_OPS:
                        if n == N + 1 and not (tier == "quick" and "slice" in op and mutual and not alias):
                            continue      # quick: one length more for the slice operations (first genuinely extended slices)
                        if tier == "quick" and (op in ("sort", "clear", "append") and n not in (0, 2)):
                            continue
                        if tier == "quick" and not mutual and op in ("set_slice", "del_slice") and n < 2:
                            continue
                        ms = ([0, M] if tier == "quick" else range(M + 1)) if op in ("set_slice", "extend", "assign") else [0]
                        for m in ms:
                            parts = c05.slice_parts() if "slice" in op else [None]
                            if tier == "quick" and "slice" in op and (alias or not mutual or side == "b"):
                                parts = [p for p in parts if (p & 7) in (0, 3)]      # all-int slices and [::step]
                            for mask in parts:
                                name = "list/%s/%s%s/side=%s/n=%d%s%s" % (
                                    op, "mutual" if mutual else "oneway", "-alias" if alias else "", side, n,
                                    "/m=%d" % m if len(ms) > 1 else "", "" if mask is None else "/" + c05.part_name(mask))
                                obs.append(Obligation(name, list_harness(op, n, m, mutual, alias, side, mask), env=env, stubs=STUBS,
                                                      bounds={"list length": n, "replacement length": m,
                                                              "index / slice fields / factor": "unbounded Int or None"},
                                                      leverage="all integer arguments", max_paths=60000))
    for mutual in (True, False):
        for side in ("a", "b"):
            for op in LIST_OPS:
                for n in ((0, 2) if tier == "quick" else (0, 1, 2, 3)):
                    if "slice" in op:
                        continue          # (the slice forms are covered on declared traits; the run-time variant is about the trait objects)
                    m = M if op in ("extend", "assign") else 0
                    obs.append(Obligation("list-added-traits/%s/%s/side=%s/n=%d" % (op, "mutual" if mutual else "oneway", side, n),
                                          list_harness(op, n, m, mutual, False, side, None, dynamic=True), env=env, stubs=STUBS,
                                          bounds={"list length": n, "replacement length": m, "traits": "added with add_trait on both objects "
                                                  "and on an unrelated bystander", "index / factor": "unbounded Int"},
                                          leverage="all integer arguments", max_paths=60000))
    K = 2 if tier == "quick" else 3
    for mutual in (True, False):
        for alias in (False, True):
            for partners in (1, 2):
                obs.append(Obligation("scalar/%s%s/partners=%d/k=%d" % ("mutual" if mutual else "oneway", "-alias" if alias else "", partners, K),
                                      scalar_harness(K, mutual, alias, partners),
                                      bounds={"history length": K, "partners": partners,
                                              "operations": ["assign source", "assign target", "remove link (either side, mutual or one direction)", "collect partner", "re-assign same",
                                                             "rejected quiet update on either side"]},
                                      leverage="choice feasibility only", max_paths=60000))
    return obs
