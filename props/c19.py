"""C19 - a failing user callback never leaves an object half-updated.

(1) Container mutators with a failing item validator: the real TraitList / TraitDict / TraitSet methods run on proxies; the
    validator raises at its q-th invocation where q is a SYMBOLIC integer compared with a call counter (so 'the third item of
    an extend', 'the second iterable of an update' are one obligation each, for every q), exception class symbolic among
    TraitError / ValueError / AttributeError / RuntimeError.  Oracle: on failure contents and event log are as before, the
    exception reaches the caller unchanged; a follow-up operation behaves exactly as on a fault-free twin.
(2) HasTraits-level callbacks (bounded choice exploration through the compiled code): custom validator, _name_default method,
    property getter / setter, cached observed property, change handlers, PrototypedFrom with a failing validator - each fails
    at a chosen invocation; outcome-deciding callbacks leave no effect, handlers do not undo the operation nor starve other
    handlers; afterwards every operation behaves as on an object that never saw the failure.
"""
import z3

from vt import symx
from vt.symx import SymInt
from vt.oblig import Obligation
import props.c05 as c05
import props.c06 as c06

import traits.trait_list_object as tlo
import traits.trait_dict_object as tdo
import traits.trait_set_object as tso
from traits.api import (HasTraits, Int, Str, List, Instance, Property, Any, TraitType, TraitError, PrototypedFrom, cached_property,
                        observe, push_exception_handler, pop_exception_handler)

LEVEL = "model_checking"
ENCODED = [("traits/trait_list_object.py", c05.ENCODED[0][1]), ("traits/trait_dict_object.py", c06.ENCODED[0][1]),
           ("traits/trait_set_object.py", ["TraitSet.update", "TraitSet.__ior__", "TraitSet.__ixor__", "TraitSet.add",
                                           "TraitSet.symmetric_difference_update"]),
           ("traits/has_traits.py", ["HasTraits._init_trait_property_listener", "cached_property"]),
           ("traits/ctraits.c", ["setattr_trait", "getattr_trait", "setattr_delegate", "setattr_validate_property", "call_notifiers"])]
EXPLANATION = ("k-th-invocation faults with a symbolic k in the container mutators (solver-decided for all k); HasTraits-level callback "
               "faults as bounded choice exploration through the compiled code.")
STUBS = c05.STUBS + c06.STUBS
ASSUMPTIONS = ["exception classes: TraitError, ValueError, AttributeError, RuntimeError"]

EXCS = [TraitError, ValueError, AttributeError, RuntimeError]


def faulty_validator(ex, state):
    q = ex.int("q")
    which = ex.choice("exc", len(EXCS))

    def validate(item):
        state["n"] += 1
        if state["armed"] and q == state["n"]:
            state["fired"] = True
            raise EXCS[which]("injected")
        return item
    return validate, which


def list_harness(op, n, m):
    def harness(ex):
        st = {"n": 0, "armed": False, "fired": False}
        val, which = faulty_validator(ex, st)
        events, tw_events = [], []
        TL = c05.ATL if ex.sym else tlo.TraitList
        items = [100 + i for i in range(n)]
        tl = TL(items, item_validator=val, notifiers=[lambda l, i, r, a: events.append((i, list(r), list(a)))])
        twin = TL(items, notifiers=[lambda l, i, r, a: tw_events.append((i, list(r), list(a)))])
        new = [200 + j for j in range(m)]
        before = list(tl)
        st["armed"], st["n"] = True, 0
        exc = None
        try:
            do_list(op, tl, new)
        except tuple(EXCS) as e:
            exc = type(e)
        st["armed"] = False
        if st["fired"]:
            ex.check(exc is EXCS[which], "the validator's exception reaches the caller unchanged")
            ex.check(list(tl) == before and events == [], "a failing item validator leaves contents and events exactly as before")
        else:
            ex.check(exc is None, "no spurious failure")
            do_list(op, twin, new)
            ex.check(list(tl) == list(twin) and events == tw_events, "fault-free run equals the twin")
        if st["fired"]:
            # follow-up behaves as on an object that never saw the failure
            tl.append(7)
            twin.append(7)
            ex.check(list(tl) == list(twin) and events == tw_events, "a follow-up operation behaves as on a twin that never saw the failure")
        return {"fired": st["fired"], "len": len(tl)}
    return harness


def do_list(op, l, new):
    if op == "extend":
        l.extend(new)
    elif op == "iadd":
        l += new
    elif op == "setslice":
        l[0:1] = new
    elif op == "setext":
        l[::2] = new[:len(l[::2])]
    elif op == "init":
        type(l)(new, item_validator=l.item_validator)
    elif op == "insert":
        l.insert(0, new[0])
    else:
        raise AssertionError(op)


def dict_harness(op, s, m):
    def harness(ex):
        st = {"n": 0, "armed": False, "fired": False}
        val, which = faulty_validator(ex, st)
        events, tw_events = [], []
        keys = [c06.mk(ex, "k%d" % i) for i in range(s)]
        if ex.sym:
            for i in range(s):
                for j in range(i):
                    ex.assume(keys[i] != keys[j])
        else:
            ex.assume(len(set(keys)) == s)
        vals = [1000 + i for i in range(s)]
        pairs = [(c06.mk(ex, "ak%d" % i), 2000 + i) for i in range(m)]
        td = tdo.TraitDict(list(zip(keys, vals)), key_validator=val, value_validator=val)
        td.notifiers = [lambda d, r, a, c: events.append((dict(r), dict(a), dict(c)))]
        twin = tdo.TraitDict(list(zip(keys, vals)))
        twin.notifiers = [lambda d, r, a, c: tw_events.append((dict(r), dict(a), dict(c)))]
        before = dict(td)
        st["armed"], st["n"] = True, 0
        exc = None
        try:
            do_dict(op, td, pairs)
        except tuple(EXCS) as e:
            exc = type(e)
        st["armed"] = False
        if st["fired"]:
            ex.check(exc is EXCS[which], "the validator's exception reaches the caller unchanged")
            ex.check(dict(td) == before and events == [], "a failing key/value validator leaves contents and events exactly as before")
            td["z"] = 1
            twin["z"] = 1
            ex.check(dict(td) == dict(twin), "a follow-up operation behaves as on a twin that never saw the failure")
        else:
            ex.check(exc is None, "no spurious failure")
            do_dict(op, twin, pairs)
            ex.check(dict(td) == dict(twin) and len(events) == len(tw_events), "fault-free run equals the twin")
        return {"fired": st["fired"], "len": len(td)}
    return harness


def do_dict(op, d, pairs):
    if op == "update_pairs":
        d.update(list(pairs))
    elif op == "update_map":
        d.update(dict(pairs))
    elif op == "ior":
        d |= dict(pairs)
    elif op == "setitem":
        d[pairs[0][0]] = pairs[0][1]
    elif op == "setdefault":
        d.setdefault(pairs[0][0], pairs[0][1])
    else:
        raise AssertionError(op)


def set_harness(op, s, shape):
    def harness(ex):
        st = {"n": 0, "armed": False, "fired": False}
        val, which = faulty_validator(ex, st)
        events = []
        elems = [c06.mk(ex, "e%d" % i) for i in range(s)]
        if ex.sym:
            for i in range(s):
                for j in range(i):
                    ex.assume(elems[i] != elems[j])
        else:
            ex.assume(len(set(elems)) == s)
        args = [[c06.mk(ex, "a%d_%d" % (j, i)) for i in range(n)] for j, n in enumerate(shape)]
        ts = tso.TraitSet(elems, item_validator=val, notifiers=[lambda t, r, a: events.append((set(r), set(a)))])
        twin = tso.TraitSet(elems)
        before = set(ts)
        st["armed"], st["n"] = True, 0
        exc = None
        try:
            do_set(op, ts, args)
        except tuple(EXCS) as e:
            exc = type(e)
        st["armed"] = False
        if st["fired"]:
            ex.check(exc is EXCS[which], "the validator's exception reaches the caller unchanged")
            ex.check(set(ts) == before and events == [], "a failing item validator leaves contents and events exactly as before")
        else:
            ex.check(exc is None, "no spurious failure")
            do_set(op, twin, args)
            ex.check(set(ts) == set(twin), "fault-free run equals the twin")
        return {"fired": st["fired"], "len": len(ts)}
    return harness


def do_set(op, t, args):
    if op == "update":
        t.update(*args)
    elif op == "ior":
        t |= set(args[0])
    elif op == "ixor":
        t ^= set(args[0])
    elif op == "symdiff":
        t.symmetric_difference_update(args[0])
    elif op == "add":
        t.add(args[0][0])
    else:
        raise AssertionError(op)


# ---- (2) HasTraits-level callbacks --------------------------------------------------------------------------------
class Flaky(TraitType):
    """custom validator that fails when told to"""
    default_value = 0
    fail = None

    def validate(self, object, name, value):
        if Flaky.fail is not None:
            e, Flaky.fail = Flaky.fail, None
            raise e("injected")
        if not isinstance(value, int):
            self.error(object, name, value)
        return value


def callbacks_harness(ex):
    errors = []
    push_exception_handler(lambda *a: errors.append(a), reraise_exceptions=False)
    try:
        return callbacks_body(ex, errors)
    finally:
        pop_exception_handler()
        Flaky.fail = None


def callbacks_body(ex, errors):
    which = ex.choice("exc", len(EXCS))
    E = EXCS[which]
    st = {"default_fail": False, "getter_fail": False, "legacy_fail": False, "setter_fail": False, "handler_fail": False, "getter_calls": 0}
    log = {"h1": [], "h2": [], "p": [], "proto": []}

    class Parent(HasTraits):
        x = Flaky()

    class O(HasTraits):
        v = Flaky()
        dyn = Any()
        dep = Int(1)
        prop = Property(Int)
        cached = Property(Int, observe="dep")
        legacy = Property(Int, depends_on="dep")
        parent = Instance(Parent)
        x = PrototypedFrom("parent")

        def _dyn_default(self):
            if st["default_fail"]:
                st["default_fail"] = False
                raise E("injected")
            return [1]

        def _get_prop(self):
            return self.__dict__.get("_prop", 5)

        def _set_prop(self, value):
            if st["setter_fail"]:
                st["setter_fail"] = False
                raise E("injected")
            self.__dict__["_prop"] = value

        @cached_property
        def _get_legacy(self):
            if st["legacy_fail"]:
                st["legacy_fail"] = False
                raise E("injected")
            return self.dep * 100

        @cached_property
        def _get_cached(self):
            st["getter_calls"] += 1
            if st["getter_fail"]:
                st["getter_fail"] = False
                raise E("injected")
            return self.dep * 10

    o = O(parent=Parent())

    def h1(new):
        log["h1"].append(new)
        if st["handler_fail"]:
            st["handler_fail"] = False
            raise E("injected")

    o.on_trait_change(h1, "v")
    o.on_trait_change(lambda new: log["h2"].append(new), "v")
    o.observe(lambda e: log["h2"].append(("obs", e.new)), "v")
    o.on_trait_change(lambda new: log["p"].append(new), "cached")
    o.on_trait_change(lambda new: log["proto"].append(new), "x")
    o.on_trait_change(lambda new: log["p"].append(("legacy", new)), "legacy")
    scenario = ex.choice("scenario", 13)
    if scenario == 12:
        return dynamic_range_scenario(ex, E)
    if scenario == 10:
        return unread_default_scenario(ex, E, st, o)
    if scenario == 11:
        return filter_scenario(ex, E)
    if scenario == 8:
        return adapter_scenario(ex, E)
    if scenario == 9:
        return default_handler_scenario(ex)
    if scenario == 0:          # custom validator fails
        o.v = 3
        Flaky.fail = E
        before = dict(o.__dict__)
        n2 = len(log["h2"])
        exc = None
        try:
            o.v = 4
        except Exception as e:
            exc = type(e)
        ex.check(exc in (E, TraitError), "a failing validator's exception reaches the caller unchanged or as TraitError")
        ex.check(o.v == 3 and len(log["h2"]) == n2, "a failing validator leaves the value and the handlers untouched")
        o.v = 5
        ex.check(o.v == 5 and log["h2"][-1] == ("obs", 5), "afterwards assignment works as if nothing had happened")
    elif scenario == 1:        # default method fails once
        st["default_fail"] = True
        exc = None
        try:
            o.dyn
        except Exception as e:
            exc = type(e)
        ex.check(exc is not None, "a failing default method's exception reaches the caller")
        ex.check("dyn" not in o.__dict__, "a failing default leaves nothing stored")
        ex.check(o.dyn == [1] and o.dyn is o.dyn, "the next read computes the default normally")
    elif scenario == 2:        # property setter fails
        o.prop = 6
        st["setter_fail"] = True
        exc = None
        try:
            o.prop = 7
        except Exception as e:
            exc = type(e)
        ex.check(exc in (E, TraitError), "a failing property setter's exception reaches the caller")
        ex.check(o.prop == 6, "a failing setter leaves the property as it was")
        o.prop = 8
        ex.check(o.prop == 8, "afterwards the property can be set")
    elif scenario == 3:        # cached observed property: getter fails once (during a read)
        ex.check(o.cached == 10, "cached property reads")
        o.dep = 2
        st["getter_fail"] = True
        exc = None
        try:
            o.cached
        except Exception as e:
            exc = type(e)
        ex.check(o.cached == 20, "after a failing getter the next read recomputes from the current state")
        o.dep = 3
        ex.check(o.cached == 30, "... and later dependency changes still invalidate the cache")
    elif scenario == 4:        # cached observed property: getter fails once during the change notification
        ex.check(o.cached == 10, "cached property reads")
        st["getter_fail"] = True
        o.dep = 2              # the notification computes the new value: the getter fails there
        ex.check(o.cached == 20, "after a getter failure inside the notification, reads are not stale")
        o.dep = 3
        ex.check(o.cached == 30, "... and the next dependency change invalidates the cache")
        o.dep = 4
        ex.check(o.cached == 40, "... and the one after")
    elif scenario == 5:        # a change handler fails
        st["handler_fail"] = True
        o.v = 9
        ex.check(o.v == 9, "a failing handler does not undo the assignment")
        ex.check(log["h2"][-2:] == [9, ("obs", 9)] or log["h2"][-2:] == [("obs", 9), 9], "... and the other handlers still run")
        o.v = 10
        ex.check(log["h1"][-1] == 10 and o.v == 10, "afterwards all handlers run again")
    elif scenario == 7:        # legacy cached Property(depends_on=...): getter fails once inside the notification
        ex.check(o.legacy == 100, "cached depends_on property reads")
        st["legacy_fail"] = True
        o.dep = 2
        ex.check(o.legacy == 200, "after a getter failure inside the notification, reads are not stale")
        o.dep = 3
        ex.check(o.legacy == 300, "... and the next dependency change invalidates the cache")
        o.dep = 4
        ex.check(o.legacy == 400, "... and the one after")
    else:                      # PrototypedFrom: failing validator on the local assignment, then the prototype changes
        ex.check(o.x == 0, "prototype value readable")
        Flaky.fail = E
        exc = None
        try:
            o.x = 4
        except Exception as e:
            exc = type(e)
        ex.check(exc is not None and o.x == 0 and "x" not in o.__dict__, "a failing validator leaves the prototyped attribute linked and unchanged")
        log["proto"].clear()
        o.parent.x = 8
        ex.check(o.x == 8 and log["proto"] == [8], "after the failed assignment the link is intact: prototype changes still notify")
    return {"scenario": scenario}


def unread_default_scenario(ex, E, st, o):
    """assignment to a trait that has a listener and was never read: the setter computes the default to have an old value to
    report; the default method fails there"""
    seen = []
    if ex.flag("observe_listener"):
        o.observe(lambda e: seen.append((e.old, e.new)), "dyn")
    else:
        o.on_trait_change(lambda obj, n, old, new: seen.append((old, new)), "dyn")
    st["default_fail"] = True
    exc = None
    try:
        o.dyn = [5]
    except Exception as e:
        exc = type(e)
    ex.check(exc in (E, TraitError), "a default method failing inside an assignment reaches the caller unchanged or as TraitError")
    ex.check("dyn" not in o.__dict__ and seen == [], "... and the assignment has no effect: nothing stored, no handler called")
    st["default_fail"] = False
    ex.check(o.dyn == [1], "the next read computes the default normally")
    o.dyn = [6]
    ex.check(o.dyn == [6] and seen == [([1], [6])], "afterwards assignment works and reports the real old value")
    return {"scenario": 10}


def dynamic_range_scenario(ex, E):
    """a Range whose default is named by another trait (value='start'): the FIRST assignment, before the attribute was ever read,
    needs the old value, i.e. the default, i.e. `start` - whose default method fails.  The assignment has no effect at all."""
    from traits.api import Range
    st = {"fail": True, "calls": 0}

    class Gauge(HasTraits):
        lo = Int(0)
        hi = Int(100)
        start = Int()
        level = Range(low="lo", high="hi", value="start")

        def _start_default(self):
            st["calls"] += 1
            if st["fail"]:
                raise E("injected")
            return 7

    g = Gauge()
    seen = []
    if ex.flag("listener"):
        g.on_trait_change(lambda obj, n, old, new: seen.append((old, new)), "level")
    exc = None
    try:
        g.level = 55
    except Exception as e:
        exc = type(e)
    if exc is not None:
        ex.check(exc in (E, TraitError), "a default method failing inside an assignment reaches the caller unchanged or as TraitError")
        ex.check(seen == [], "... and no handler is called")
        st["fail"] = False
        ex.check(g.level == 7, "... and the assignment has no effect: the next read gives the default, as on an object that never saw the failure")
    else:
        st["fail"] = False
        ex.check(g.level == 55, "an assignment that succeeded is what later reads return")
    g.level = 60
    ex.check(g.level == 60, "afterwards assignment works")
    return {"scenario": 12}


def filter_scenario(ex, E):
    """a user-supplied observer filter (match(filter)) raises at its k-th call while the observer is being REMOVED: the
    registrations are as before (also for matching traits added later), and a later removal is complete"""
    from traits.observation.api import match
    from traits.observation import exception_handling as _oeh
    k = 1 + ex.choice("failing_filter_call", 5)
    arm = {"n": None}

    def flt(name, trait):
        if arm["n"] is not None:
            arm["n"] -= 1
            if arm["n"] == 0:
                arm["n"] = None
                raise E("injected")
        return name.startswith("v")

    class M(HasTraits):
        v1 = Int()
        v2 = Int()
        w = Int()

    o = M()
    events = []
    handler = lambda e: events.append(e.name)
    # one graph (the filter alone) or two (a named trait first, then the filter: a failure in the second graph must put the
    # first one back)
    from traits.observation.api import trait as trait_
    two = ex.flag("expression_with_two_graphs")
    mk_expr = (lambda: trait_("w") | match(flt)) if two else (lambda: match(flt))
    o.observe(handler, mk_expr())
    pre_added = ex.flag("a_matching_trait_was_added_before")
    if pre_added:
        o.add_trait("v5", Int())
    arm["n"] = k
    failed = None
    try:
        o.observe(handler, mk_expr(), remove=True)
    except Exception as e:
        failed = type(e)
    arm["n"] = None
    if failed is not None:
        ex.check(failed in (E, TraitError), "a failing filter's exception reaches the caller unchanged or as TraitError")
        o.v1 += 1
        o.w += 1
        o.v2 += 1
        if pre_added:
            o.v5 = 2
        o.add_trait("v9", Int())
        o.v9 = 3
        o.add_trait("x9", Int())
        o.x9 = 4
        ex.check(events == ["v1"] + (["w"] if two else []) + ["v2"] + (["v5"] if pre_added else []) + ["v9"],
                 "after a failed removal the observer is registered as before, also for matching traits added later")
        del events[:]
        ok = True
        try:
            o.observe(handler, mk_expr(), remove=True)
        except Exception:
            ok = False
        ex.check(ok, "... and can then be removed")
    o.v1 += 1
    o.v2 += 1
    o.w += 1
    o.add_trait("v10", Int())
    o.v10 = 1
    ex.check(events == [], "a completed removal is complete: no call for observed traits nor for traits added later")
    return {"scenario": 11}


def adapter_scenario(ex, E):
    """an adapter factory raises while a value is being assigned: to an adapting trait on its own, inside a compound trait
    followed by alternatives that would accept the raw value, and inside a container"""
    from traits.api import Supports, Either, Union
    from traits.adaptation.api import (AdaptationManager, get_global_adaptation_manager, set_global_adaptation_manager)
    old_mgr = get_global_adaptation_manager()
    mgr = AdaptationManager()
    set_global_adaptation_manager(mgr)
    try:
        st = {"fail": False}

        class Target(HasTraits):
            pass

        class Doc(HasTraits):
            pass

        class Ad(Target):
            adaptee = Any()

        def factory(a):
            if st["fail"]:
                st["fail"] = False
                raise E("injected")
            return Ad(adaptee=a)

        mgr.register_factory(factory, Doc, Target)
        shape = ex.choice("adapting_trait", 4)
        if shape == 2 and E is TraitError:
            # by design a TraitError out of a Union member's validate IS that member's rejection (the next member is tried);
            # only other exception classes say 'the callback failed'
            return {"scenario": 8, "shape": shape, "skipped": True}

        class Owner(HasTraits):
            t = [Supports(Target), Either(Instance(Target, adapt="yes"), Instance(Doc), Int),
                 Union(Instance(Target, adapt="yes"), Instance(Doc)), Either(None, Instance(Target, adapt="yes"), Any)][shape]

        o = Owner()
        seen = []
        o.on_trait_change(lambda new: seen.append(new), "t")
        first = Doc()
        o.t = first
        ex.check(isinstance(o.t, Ad) and o.t.adaptee is first, "a value that needs an adapter is stored adapted")
        before, n0 = o.t, len(seen)
        st["fail"] = True
        exc = None
        try:
            o.t = Doc()
        except Exception as e:
            exc = type(e)
        ex.check(exc in (E, TraitError), "a failing adapter factory's exception reaches the caller unchanged or as TraitError")
        ex.check(o.t is before and len(seen) == n0, "a failing adapter factory leaves the value and the handlers untouched")
        nxt = Doc()
        o.t = nxt
        ex.check(isinstance(o.t, Ad) and o.t.adaptee is nxt and len(seen) == n0 + 1, "afterwards assignment adapts as if nothing had happened")
        return {"scenario": 8, "shape": shape}
    finally:
        set_global_adaptation_manager(old_mgr)


def default_handler_scenario(ex):
    """a change handler raises and the DEFAULT exception handler (which logs the failure) is in charge: whatever the exception
    looks like, the assignment stands, the other handlers run, nothing reaches the caller"""
    import logging
    pop_exception_handler()                 # the collecting handler callbacks_harness pushed: back to the library default
    logger = logging.getLogger("traits")
    null = logging.NullHandler()
    logger.addHandler(null)
    old_prop, logger.propagate = logger.propagate, False
    try:
        excs = [RuntimeError(7), RuntimeError(), NotImplementedError(object), RuntimeError("maximum recursion depth exceeded (not really)"),
                ValueError(("a", "tuple")), KeyError(None), TraitError("plain")]
        exc_obj = excs[ex.choice("raised", len(excs))]
        calls = {"bad": 0, "good": []}

        class O(HasTraits):
            v = Int(0)
            l = List(Int)

        o = O()

        def bad(new):
            calls["bad"] += 1
            raise exc_obj

        o.on_trait_change(bad, "v")
        o.on_trait_change(lambda new: calls["good"].append(new), "v")
        o.on_trait_change(bad, "l_items")
        o.on_trait_change(lambda new: calls["good"].append("items"), "l_items")
        escaped = None
        try:
            o.v = 3
        except BaseException as e:
            escaped = type(e).__name__
        ex.check(escaped is None, "a failing change handler's exception does not reach the caller of the assignment")
        ex.check(o.v == 3 and calls["good"] == [3] and calls["bad"] == 1, "the assignment is complete and the other handlers still run")
        escaped = None
        try:
            o.l.append(1)
        except BaseException as e:
            escaped = type(e).__name__
        ex.check(escaped is None and o.l == [1] and calls["good"] == [3, "items"],
                 "a failing items handler neither undoes the mutation nor starves the other handlers nor raises to the caller")
        # the same with observe handlers and observe's own default exception handler (nothing pushed there), the event carrying
        # an object whose repr() fails

        class Unprintable(HasTraits):
            w = Int(0)

            def __repr__(self):
                raise exc_obj

        u = Unprintable()
        seen = []

        def bad_obs(event):
            raise exc_obj

        u.observe(bad_obs, "w")
        u.observe(lambda e: seen.append(e.new), "w")
        escaped = None
        try:
            u.w = 4
        except BaseException as e:
            escaped = type(e).__name__
        ex.check(escaped is None and u.w == 4 and seen == [4],
                 "a failing observe handler is reported by the default handler whatever the event's objects look like: the assignment "
                 "stands, the other handlers run, nothing reaches the caller")
        return {"scenario": 9}
    finally:
        logger.removeHandler(null)
        logger.propagate = old_prop
        push_exception_handler(lambda *a: None, reraise_exceptions=False)      # callbacks_harness pops one on the way out


def obligations(tier, build):
    obs = []
    common = dict(env=c05.sym_env, stubs=STUBS)
    for op in ("extend", "iadd", "setslice", "init", "insert"):
        for n in (0, 2):
            m = 3 if op != "insert" else 1
            obs.append(Obligation("list/%s/n=%d/m=%d" % (op, n, m), list_harness(op, n, m), **common,
                                  bounds={"items": m, "failing invocation q": "unbounded Int", "exception class": "symbolic among 4"},
                                  leverage="the failing invocation index q and the exception class"))
    for op in ("update_pairs", "update_map", "ior", "setitem", "setdefault"):
        for s in (0, 2):
            m = 2 if "update" in op or op == "ior" else 1
            obs.append(Obligation("dict/%s/s=%d/m=%d" % (op, s, m), dict_harness(op, s, m), env=c06.sym_env, stubs=STUBS,
                                  bounds={"pairs": m, "failing invocation q": "unbounded Int (keys and values share the counter)"},
                                  leverage="q, exception class, key aliasing"))
    for op, shape in (("update", (2,)), ("update", (1, 2)), ("ior", (2,)), ("ixor", (2,)), ("symdiff", (2,)), ("add", (1,))):
        for s in (0, 2):
            obs.append(Obligation("set/%s/s=%d/%s" % (op, s, "+".join(map(str, shape))), set_harness(op, s, shape), env=c06.sym_env,
                                  stubs=STUBS, bounds={"argument iterables": list(shape), "failing invocation q": "unbounded Int"},
                                  leverage="q, exception class, element overlap"))
    obs.append(Obligation("callbacks", callbacks_harness,
                          bounds={"scenarios": ["custom validator", "default method", "property setter", "cached getter on read",
                                                "cached getter inside the notification", "change handler", "legacy depends_on cached getter", "PrototypedFrom validator",
                                                "adapter factory", "default exception handler", "default method inside an assignment to a never-read trait",
                                                "observer filter at its k-th call during removal (k <= 5)"]},
                          leverage="choice feasibility only (compiled code runs concretely)"))
    return obs
