"""C08 - observe handlers track exactly the objects currently reachable.

Bounded histories (k<=2 quick, 3 thorough) of graph mutations under an observed expression on a pool of real HasTraits nodes,
then a probe of every node; list mutation indices are symbolic integers (ListModel classification), everything else is a
choice.  Oracle: independent from-scratch reachability over the final graph (props/_graphs.reachable): the handler is called
exactly once for a change on a node iff the node is currently reachable along the expression, never for detached nodes
(kept alive by the harness on purpose); the event identifies object and trait; container mutations on notifying links
deliver one List/Dict/SetChangeEvent, ':' links are silent.
This is an exhaustive bounded exploration; the solver's contribution is the list indices and choice feasibility.
"""
from vt import symx
from vt.oblig import Obligation
import props._graphs as G

from traits.api import push_exception_handler, pop_exception_handler
from traits.observation import exception_handling as _eh

LEVEL = "model_checking"
ENCODED = [("traits/observation/_observe.py", ["add_or_remove_notifiers", "_AddOrRemoveNotifier.__call__"]),
           ("traits/observation/_named_trait_observer.py", ["NamedTraitObserver.iter_observables", "NamedTraitObserver.iter_objects"]),
           ("traits/observation/_list_item_observer.py", ["ListItemObserver.iter_objects"]),
           ("traits/observation/_dict_item_observer.py", ["DictItemObserver.iter_objects"]),
           ("traits/observation/_set_item_observer.py", ["SetItemObserver.iter_objects"]),
           ("traits/observation/_has_traits_helpers.py", ["observer_change_handler"]),
           ("traits/observation/_observer_change_notifier.py", ["ObserverChangeNotifier.__call__"])]
EXPLANATION = ("Bounded exploration of mutation histories under an observed expression, list indices symbolic; oracle = independent "
               "reachability evaluator. Solver leverage: list indices and choice feasibility only.")
STUBS = G.c04.STUBS
ASSUMPTIONS = ["pool of <= 3 initial nodes plus fresh nodes created by mutations; k <= 2 (quick) / 3 (thorough) mutations"]

# text expression -> (steps to the observed objects, notify flag per link incl. the container items link)
EXPRS = {
    "child.value": (("child",), {"child": True}),
    "child:value": (("child",), {"child": False}),
    "children.items.value": (("children",), {"children": True, "items": True}),
    "children:items:value": (("children",), {"children": False, "items": False}),
    "mapping.items.value": (("mapping",), {"mapping": True, "items": True}),
    "group.items.value": (("group",), {"group": True, "items": True}),
    "child.child.value": (("child", "child"), {"child": True}),
    "child.children.items.value": (("child", "children"), {"child": True, "children": True, "items": True}),
    # links that admit objects lacking the observed trait (hook-up can fail half way), on two levels
    "anybox:anykids:items:value": (("anybox", "anykids"), {"anybox": False, "anykids": False, "items": False}),
    "anybox.anykids.items.value": (("anybox", "anykids"), {"anybox": True, "anykids": True, "items": True}),
    "anykids.items.value": (("anykids",), {"anykids": True, "items": True}),
    # links matched by a metadata filter
    "+tracked:items:value": (("tkids",), {"tkids": False, "items": False}),
    "+tracked.items.value": (("tkids",), {"tkids": True, "items": True}),
    "+tracked2.value": (("tchild",), {"tchild": True}),
    # a link whose default is a constant that is itself an observable object
    "dchild.value": (("dchild",), {"dchild": True}),
}


def tainted(root):
    """the sub-graph below root currently hangs on an object whose hook-up failed: what is tracked there is unspecified
    (the failure was reported to the caller); everything that is NOT reachable must still be silent"""
    failed = G.FAILED.get(id(root), [])
    cands = [root.anybox, root.anykids, root]
    if isinstance(root.anybox, G.N):
        cands.append(root.anybox.anykids)
    return any(c is f for c in cands for f in failed)


def harness_factory(expr, k, muts):
    steps, notify = EXPRS[expr]

    def harness(ex):
        errors = []
        _eh.push_exception_handler(handler=lambda e: errors.append(e), reraise_exceptions=False)
        try:
            return body(ex, errors)
        finally:
            _eh.pop_exception_handler()

    def body(ex, errors):
        N = G.mk_node_class()
        counter = [0]

        def fresh():
            counter[0] += 1
            return N(name="f%d" % counter[0])

        root = N(name="root")
        pool = [N(name="p0"), N(name="p1")]
        root.child = pool[0]
        root.children = [pool[1], pool[1]]        # the same object twice, from the start
        root.mapping = {"a": pool[0]}
        if steps[0] == "tchild":
            root.tchild = pool[0]        # a matched trait that already holds a value when further matching traits are added
        keep = [root] + pool             # detached objects stay alive: they must simply not notify
        if steps[0] == "dchild":
            keep.append(G.SHARED)
            if ex.flag("dchild_assigned_before_observe"):
                root.dchild = pool[0]
        G.FAILED[id(root)], G.DETACHED[id(root)] = [], []
        G.STASH.pop(id(root), None)
        events = []
        root.observe(lambda e: events.append(e), expr)
        trace = []
        for step in range(k):
            mut = muts[ex.choice("mut%d" % step, len(muts))]
            before_nodes = G.all_nodes(root, keep)
            keep.extend(x for x in before_nodes if not any(x is y for y in keep))
            events.clear()
            was_tainted = tainted(root)
            try:
                G.apply_mutation(ex, step, root, pool, mut, fresh)
            except Exception as e:
                # only the aftermath of an earlier, reported hook-up failure may raise
                if not ex.check(was_tainted or tainted(root), "a mutation of a healthy observed graph does not raise (%s)" % type(e).__name__):
                    return {"trace": trace + [mut]}
            trace.append(mut)
            # container-mutation events on the first link
            first = steps[0]
            kinds = [type(e).__name__ for e in events]
            if len(steps) == 1 and first in ("children", "mapping", "group") and mut in ("append", "insert", "map_set", "set_add", "clear"):
                want_kind = {"children": "ListChangeEvent", "mapping": "DictChangeEvent", "group": "SetChangeEvent"}[first]
                relevant = (first == "children" and mut in ("append", "insert", "clear")) or (first == "mapping" and mut == "map_set") \
                    or (first == "group" and mut == "set_add")
                if relevant:
                    changed_something = not (mut == "clear" and not any(True for _ in []))
                    got = kinds.count(want_kind)
                    if notify.get("items"):
                        ex.check(got <= 1, "a container mutation on a notifying link delivers at most one container change event")
                    else:
                        ex.check(got == 0, "a container mutation on a ':' link stays silent")
            if not notify.get(first, True):
                ex.check(all(type(e).__name__ != "TraitChangeEvent" or e.name == "value" for e in events),
                         "reassigning a ':' link stays silent")
        # ---- probe every node ever seen ----
        nodes = G.all_nodes(root, keep + G.DETACHED[id(root)])
        reach = [r for r in G.reachable(root, steps) if isinstance(r, G.N)]
        unspecified = tainted(root)
        for node in nodes:
            events.clear()
            node.value += 1
            want = 1 if any(node is r for r in reach) else 0
            if want and unspecified:
                continue
            got = [e for e in events if type(e).__name__ == "TraitChangeEvent" and e.name == "value"]
            ex.check(len(got) == want, "a change on a node calls the handler exactly once iff the node is currently reachable along the expression")
            if got:
                ex.check(got[0].object is node and got[0].new == node.value, "the event identifies the object and trait that actually changed")
        ex.check(errors == [], "no observer raised")
        G.FAILED.pop(id(root), None)
        G.DETACHED.pop(id(root), None)
        G.STASH.pop(id(root), None)
        return {"trace": trace, "reachable": sorted(r.name for r in reach)}

    return harness


def anytrait_harness(ex):
    """'*' and '+metadata' on the root: every assignment to a matched trait - also the FIRST assignment to a wildcard-resolved
    name, and to a trait added later - calls the handler exactly once"""
    errors = []
    _eh.push_exception_handler(handler=lambda e: errors.append(e), reraise_exceptions=False)
    try:
        from traits.api import HasTraits as _HT, Int as _I, Str as _S

        class N(_HT):                 # fresh class per run: wildcard names resolved once are cached per class
            name = _S()
            value = _I(0)
            tagged = _I(0, tag=True)
            w_ = _I
            _u_ = _I(0, tag=True)     # a wildcard whose prefix starts with an underscore

        root = N(name="root")
        # wildcard-governed names that already hold a value when the handler is registered
        root.w_pre = 1
        root._u_pre = 2
        expr = ["*", "+tag"][ex.choice("expr", 2)]
        events = []
        root.observe(lambda e: events.append((e.name, e.new)), expr)
        seq = []
        for step in range(3):
            op = ex.choice("op%d" % step, 7)
            events.clear()
            if op == 4:
                root.w_pre += 1
                want = [("w_pre", root.w_pre)] if expr == "*" else []
            elif op == 5:
                root._u_pre += 1
                want = [("_u_pre", root._u_pre)]
            elif op == 6:
                name = "_u_%d" % step                     # first use of an underscore wildcard name
                setattr(root, name, 3 + step)
                want = [(name, 3 + step)]
            elif op == 0:
                root.value += 1
                want = [("value", root.value)] if expr == "*" else []
            elif op == 1:
                root.tagged += 1
                want = [("tagged", root.tagged)]
            elif op == 2:
                name = "w_%d" % step                      # first use of a wildcard name
                setattr(root, name, 5 + step)
                want = [(name, 5 + step)] if expr == "*" else []
            else:
                from traits.api import Int as _Int
                name = "added%d" % step
                root.add_trait(name, _Int(0, tag=True))
                events.clear()
                setattr(root, name, 9)
                want = [(name, 9)]
            seq.append(op)
            got = [e for e in events if e[0] not in ("trait_added",)]
            ex.check(got == want, "an assignment to a trait matched by '*' / '+metadata' calls the handler exactly once, also the first "
                                  "assignment to a wildcard-resolved or newly added trait")
        ex.check(errors == [], "no observer raised")
        # a second instance of the same class, observed the same way: names resolved on the first instance are now class-level
        second = N(name="second")
        ev2 = []
        second.observe(lambda e: ev2.append((e.name, e.new)), "*")
        resolved = [n_ for n_ in ("w_0", "w_1", "w_2") if n_ in root.__dict__]
        for n_ in resolved[:1]:
            setattr(second, n_, 77)
            ex.check([e for e in ev2 if e[0] == n_] == [(n_, 77)],
                     "'*' on a second instance sees the first assignment to a wildcard name that another instance resolved earlier")
        return {"seq": seq}
    finally:
        _eh.pop_exception_handler()


def equal_roots_harness(ex):
    """two roots that compare EQUAL (value-based __eq__) observe the same expression with the same handler and share a child:
    each registration is its own (the handler is called once per root for a change of the shared child), and each lives and dies
    with its own root"""
    import gc
    errors = []
    _eh.push_exception_handler(handler=lambda e: errors.append(e), reraise_exceptions=False)
    try:
        N = G.mk_node_class()
        r1, r2 = N(name="r1", eqkey="tw"), N(name="r2", eqkey="tw")
        child = N(name="shared")
        expr = ["child.value", "children.items.value"][ex.choice("expr", 2)]
        for r in (r1, r2):
            r.child = child
            r.children = [child]
        calls = []
        handler = lambda e: calls.append(e.new) if getattr(e, "name", None) == "value" else None
        r1.observe(handler, expr)
        r2.observe(handler, expr)
        child.value += 1
        ex.check(len(calls) == 2, "two roots that compare equal hold two registrations: a change of the shared child calls the handler once per root")
        what = ex.choice("then", 3)
        del calls[:]
        if what == 0:
            r1.observe(handler, expr, remove=True)
            child.value += 1
            ex.check(len(calls) == 1, "removing the registration of one root leaves the other root's alone")
        elif what == 1:
            del r1
            gc.collect()
            child.value += 1
            ex.check(len(calls) == 1, "when one root is collected the other root's registration still works")
        else:
            other = N(name="other")
            r1.child = other
            r1.children = [other]
            child.value += 1
            other.value += 1
            ex.check(len(calls) == 2, "each root follows its own links")
        ex.check(errors == [], "no observer raised")
        return {"expr": expr, "then": what}
    finally:
        _eh.pop_exception_handler()


def alien_in_place_then_replace(v):
    """known-finding helper (anybox expressions; mutation indices: 0 good box, 1 broken box, 2 None, 3 append, 4 append alien):
    an object that cannot be hooked up got into an observed list IN PLACE (the append raised), later the list's owner is replaced"""
    muts = []
    i = 0
    while "mut%d" % i in v:
        muts.append(v["mut%d" % i])
        i += 1
    for i, m in enumerate(muts):
        if m == 4 and any(x in (0, 1) for x in muts[:i]) and any(x in (0, 1, 2) for x in muts[i + 1:]):
            return True
    return False


KNOWN_HELPERS = {"c08_alien_in_place_then_replace": alien_in_place_then_replace}


def obligations(tier, build):
    obs = [Obligation("anytrait", anytrait_harness, bounds={"expressions": ["*", "+tag"], "history length": 3},
                      leverage="choice feasibility only"),
           Obligation("equal-roots", equal_roots_harness, bounds={"expressions": ["child.value", "children.items.value"],
                                                                  "then": ["remove one registration", "collect one root", "move one root's links"]},
                      leverage="choice feasibility only")]
    K = 2 if tier == "quick" else 3
    for expr in EXPRS:
        first = EXPRS[expr][0][0]
        if first == "child":
            muts = ["child=", "child=None", "cycle", "grandchild=", "read_default", "append", "insert_dup", "del", "del_child"]
        elif first == "children":
            muts = ["append", "insert", "del", "setitem", "insert_dup", "imul", "clear", "child=", "read_default",
                    "slice_subset", "remove_first", "del_children"]
        elif first == "mapping":
            muts = ["map_set", "map_del", "map_same", "map_twin", "append", "child=", "read_default", "del_mapping"]
        elif first == "anybox":
            muts = ["anybox=good", "anybox=broken", "anybox=None", "box_append", "box_append_alien", "read_default"]
        elif first == "anykids":
            muts = ["anykids_good", "anykids_mixed", "read_default", "child="]
        elif first == "tkids":
            muts = ["tkids=equal", "tkids_append", "stale_append", "read_default", "child=", "del_tkids"]
        elif first == "tchild":
            muts = ["tchild=", "read_default", "child=", "add_tracked2", "add_untracked"]
        elif first == "dchild":
            muts = ["read_default", "dchild=", "dchild=shared", "del_dchild", "child="]
        else:
            muts = ["set_add", "set_remove", "append", "child=None", "read_default", "del_group"]
        if expr == "children:items:value":
            muts = muts + ["children=equal", "children_append", "stale_append"]
        obs.append(Obligation("track/%s/k=%d" % (expr, K), harness_factory(expr, K, muts), env=G.env, stubs=STUBS,
                              bounds={"expression": expr, "history length": K, "mutations": muts,
                                      "list positions / *= factor": "unbounded Int (factor <= 2 for non-empty lists)"},
                              leverage="list indices; otherwise choice feasibility only", max_paths=100000, path_wall_s=60))
    return obs
