"""C01, "array dtype and shape": the real AbstractArray constructor and validate (traits/trait_numeric.py) executed natively on
symbolic shape specifications and on arrays whose SHAPE is symbolic; dtypes and casting rules are concrete choices that go
through the real numpy (a C boundary without a model: `can_cast` on two concrete dtypes is the reference for the casting rule).

Environment model: `MArray`, a real zero-dimensional numpy array of the chosen dtype (a subclass of ndarray, so the real
isinstance test and the compiled assignment path see an array) that reports a symbolic `shape` and keeps it across astype() and
copy().  In the concrete replay of every path the value is an ordinary `numpy.zeros(shape, dtype)`."""
import z3

from vt import symx, cenv, pymodel
from vt.oblig import Obligation

DIM_MAX = 32            # every dimension of an assigned array and of the default (concrete replays allocate the arrays)
TRAIT_DTYPES = [None, "int32", "float32", "float64", "bool", "complex128"]
VALUE_DTYPES = ["int32", "int64", "float32", "float64", "complex128", "bool"]
CASTINGS = ["no", "equiv", "safe", "same_kind", "unsafe"]
LISTS = [[], [1, 2], [[1, 2], [3, 4]], [1.5, 2.5, 3.5], ["a", "b"], [[1], [2, 3]], (1, 2, 3), [[], []], [[[7]]], [True, False], [None]]
SCALARS = ["none", "int", "float", "str", "object", "range", "dict", "npscalar"]

STUBS = ["MArray: a real 0-d numpy array that reports a symbolic shape (kept across astype / copy); numpy itself runs on concrete "
         "dtypes only", "traits.trait_numeric: type / isinstance shadowed by proxy-aware versions; AbstractArray.info returns a constant text"]


def _np():
    import numpy
    return numpy


_MARRAY = []


def marray_class():
    if _MARRAY:
        return _MARRAY[0]
    np = _np()

    class MArray(np.ndarray):
        def __new__(cls, dtype, shape):
            a = np.zeros((), dtype).view(cls)
            a._symshape = tuple(shape)
            return a

        def __array_finalize__(self, obj):
            self._symshape = getattr(obj, "_symshape", ())

        @property
        def shape(self):
            return self._symshape

        @property
        def ndim(self):
            return len(self._symshape)

        def astype(self, dtype, *a, **kw):
            r = np.asarray(self).view(np.ndarray).astype(dtype, *a, **kw).view(type(self))
            r._symshape = self._symshape
            return r

        def copy(self, *a, **kw):
            r = np.array(np.asarray(self).view(np.ndarray)).view(type(self))
            r._symshape = self._symshape
            return r

        def __repr__(self):
            return "<array with symbolic shape, dtype %s>" % (self.dtype,)

    _MARRAY.append(MArray)
    return MArray


class _Env:
    """shadows for the symbolic run"""

    def __enter__(self):
        import traits.trait_numeric as tn
        self.tn = tn
        self.cm = cenv.shadow(tn, type=pymodel.m_type, isinstance=pymodel.m_isinstance, int=pymodel.IntShadow)
        self.cm.__enter__()
        self.info = tn.AbstractArray.info
        tn.AbstractArray.info = lambda self: "an array (description stubbed)"
        return self

    def __exit__(self, *a):
        self.tn.AbstractArray.info = self.info
        self.cm.__exit__(None, None, None)
        return False


class _Null:
    def __enter__(self):
        return self

    def __exit__(self, *a):
        return False


def _b(c):
    return bool(c)


def _same_items(a, b):
    np = _np()
    try:
        return bool(np.array_equal(a, b, equal_nan=True))
    except TypeError:
        return bool(np.array_equal(a, b))


def spec_ok(ex, spec, shape):
    """documented meaning of a shape specification: same number of dimensions; None = anything, n = exactly n,
    (lo, hi) = lo <= dim <= hi, (lo, None) = lo <= dim"""
    if spec is None:
        return True
    if len(spec) != len(shape):
        return False
    for item, dim in zip(spec, shape):
        if item is None:
            continue
        if not isinstance(item, tuple):
            if not _b(dim == item):
                return False
        else:
            if _b(dim < item[0]):
                return False
            if item[1] is not None and _b(dim > item[1]):
                return False
    return True


def make_harness(L, vkind, with_dtype, only_td=None):
    """L: length of the shape specification (None: no specification); vkind: 'array' / 'list' / 'scalar'"""

    def harness(ex):
        np = _np()
        from traits.api import HasTraits, Int, TraitError
        from traits.trait_numeric import Array, CArray, ArrayOrNone
        which = ex.choice("trait", 3)
        klass = (Array, CArray, ArrayOrNone)[which]
        if only_td is not None:
            td = TRAIT_DTYPES[only_td]
        else:
            td = TRAIT_DTYPES[ex.choice("trait.dtype", len(TRAIT_DTYPES))] if with_dtype else (None, "float64")[ex.choice("trait.dtype", 2)]
        casting = CASTINGS[ex.choice("casting", len(CASTINGS))] if with_dtype else "unsafe"
        spec = None
        minshape = None
        if L is not None:
            spec, minshape = [], []
            for i in range(L):
                kind = ex.choice("spec%d.kind" % i, 4)
                if kind == 0:
                    spec.append(None)
                    minshape.append(1)
                elif kind == 1:
                    n = ex.int("spec%d.n" % i)
                    ex.assume(n >= 0)
                    ex.assume(n <= DIM_MAX)
                    spec.append(n)
                    minshape.append(n)
                else:
                    lo = ex.int("spec%d.lo" % i)
                    ex.assume(lo >= 0)
                    ex.assume(lo <= DIM_MAX)
                    if kind == 2:
                        hi = ex.int("spec%d.hi" % i)
                        ex.assume(lo <= hi)
                        spec.append((lo, hi))
                    else:
                        spec.append((lo, None))
                    minshape.append(lo)
            spec = tuple(spec)
        env = _Env() if ex.sym else _Null()
        with env:
            kw = {} if not with_dtype else {"casting": casting}
            try:
                if klass is ArrayOrNone or spec is None:
                    ttype = klass(td, spec, **kw)
                elif ex.sym:
                    # the default the constructor would invent (zeros of the minimum shape) needs concrete sizes: hand it over
                    ttype = klass(td, spec, marray_class()(td or "float64", minshape), **kw)
                else:
                    ttype = klass(td, spec, **kw)

                class Owner(HasTraits):
                    x = ttype
                    other = Int(7)
            except TraitError:
                ex.check(False, "a valid shape specification is accepted and its invented default (zeros of the minimum shape) satisfies it")
                return {"definition": "rejected"}

            o = Owner()
            log = []
            o.on_trait_change(lambda obj, name, old, new: log.append(name), "x")
            o.on_trait_change(lambda obj, name, old, new: log.append(name), "other")
            if not with_dtype and ex.flag("default_read_first"):
                o.x
            before = dict(o.__dict__)
            del log[:]
            # ---- the value
            vshape = None
            if vkind == "array":
                nd = ex.choice("value.ndim", 4)
                vd = VALUE_DTYPES[ex.choice("value.dtype", len(VALUE_DTYPES))] if with_dtype else ("float64", "int32")[ex.choice("value.dtype", 2)]
                vshape = []
                for i in range(nd):
                    d = ex.int("dim%d" % i)
                    ex.assume(d >= 0)
                    ex.assume(d <= DIM_MAX)
                    vshape.append(d)
                vshape = tuple(vshape)
                value = marray_class()(vd, vshape) if ex.sym else np.zeros(vshape, vd)
                dt_ok = td is None or np.dtype(vd) == np.dtype(td) or bool(np.can_cast(np.dtype(vd), np.dtype(td), casting))
                same_obj = td is None or np.dtype(vd) == np.dtype(td)
                want_dtype = np.dtype(td) if td is not None else np.dtype(vd)
                accept = dt_ok and spec_ok(ex, spec, vshape)
                want = None
            elif vkind == "list":
                value = LISTS[ex.choice("value.list", len(LISTS))]
                try:
                    want = np.asarray(value, td) if td is not None else np.asarray(value)
                except Exception:
                    want = None
                same_obj = False
                accept = want is not None and spec_ok(ex, spec, want.shape)
                if want is not None:
                    vshape, want_dtype = want.shape, want.dtype
            else:
                sk = SCALARS[ex.choice("value.scalar", len(SCALARS))]
                value = {"none": None, "int": 5, "float": 2.5, "str": "abc", "object": object(), "range": range(3), "dict": {1: 2},
                         "npscalar": np.float64(1.5)}[sk]
                accept = value is None and klass is ArrayOrNone
                same_obj = True
                want = None
            exc = None
            try:
                o.x = value
            except Exception as e:
                exc = e
            after = dict(o.__dict__)
        if accept:
            ex.check(exc is None, "no spurious rejection of a value inside the declared domain")
            if exc is None:
                got = after.get("x")
                if value is None:
                    ex.check(got is None, "stored value is the documented conversion")
                else:
                    ex.check(isinstance(got, np.ndarray), "stored value is an array")
                    if same_obj:
                        ex.check(got is value, "an array that already has the declared dtype is stored as it is")
                    if isinstance(got, np.ndarray):
                        ex.check(got.dtype == want_dtype, "stored array has the declared dtype")
                        gs = got.shape
                        ex.check(len(gs) == len(vshape) and all(_b(a == b) for a, b in zip(gs, vshape)), "stored array has the shape of the assigned value")
                        ex.check(spec_ok(ex, spec, gs), "stored array satisfies the declared shape")
                        if want is not None:
                            ex.check(_same_items(np.asarray(got), want), "stored array holds the converted items")
                ex.check(after.get("other", 7) == before.get("other", 7), "other attributes untouched")
        else:
            ex.check(exc is not None, "a value outside the declared domain is rejected")
            if exc is not None:
                ex.check(isinstance(exc, TraitError), "a value outside the domain is rejected with TraitError")
                ex.check("'x'" in str(exc), "the TraitError names the attribute")
                ex.check(set(after) == set(before) and all(after[k] is before[k] for k in before),
                         "rejected assignment leaves every attribute exactly as it was")
                ex.check(log == [], "rejected assignment notifies nobody")
        return {"accepted": exc is None, "err": type(exc).__name__ if exc else None}

    return harness


def obligations(tier):
    obs = []
    Ls = [None, 0, 1, 2] if tier == "quick" else [None, 0, 1, 2, 3]
    for L in Ls:
        for vkind in ("array", "list", "scalar"):
            if vkind == "scalar" and L not in (None, 1):
                continue
            obs.append(Obligation("Array/shape/L=%s/%s" % (L, vkind), make_harness(L, vkind, False), stubs=STUBS,
                                  bounds={"shape specification": "absent" if L is None else "%d entries, each None / n / (lo, hi) / (lo, None) "
                                          "with n, lo <= %d, hi unbounded" % (L, DIM_MAX), "assigned array": "0-3 dimensions, each 0..%d" % DIM_MAX,
                                          "trait": "Array / CArray / ArrayOrNone, dtype None or float64", "lists": LISTS if vkind == "list" else "-"},
                                  assumes=["specification entries valid (0 <= lo <= hi, n >= 0)"],
                                  leverage="every dimension of the value and every number in the shape specification (z3 Int)",
                                  max_paths=60000, path_wall_s=120))
    for L, vkind, tdi in [(L, vkind, tdi) for L in ((None,) if tier == "quick" else (None, 1)) for vkind in ("array", "list")
                          for tdi in ((None,) if L is None else range(len(TRAIT_DTYPES)))]:
        if True:
            obs.append(Obligation("Array/dtype/L=%s/%s%s" % (L, vkind, "" if tdi is None else "/" + str(TRAIT_DTYPES[tdi])),
                                  make_harness(L, vkind, True, tdi), stubs=STUBS,
                                  bounds={"trait dtype": TRAIT_DTYPES, "value dtype": VALUE_DTYPES, "casting": CASTINGS,
                                          "shape specification": "absent" if L is None else "1 entry"},
                                  assumes=["specification entries valid (0 <= lo <= hi, n >= 0)",
                                           "casting rule reference: numpy.can_cast on the two concrete dtypes"],
                                  leverage="dimensions and specification numbers (z3 Int); dtypes and casting rules enumerated",
                                  max_paths=60000, path_wall_s=120))
    return obs
