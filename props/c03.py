"""C03 - compiled fast validators decide exactly like the Python validators.

Side F: the validator function that the real `_trait_set_validate` (interpreted from ctraits.c's AST) selects for the
        handler's real fast_validate descriptor, interpreted by csym on an abstract value.
Side P: the real `handler.validate(obj, name, value)` executed natively on the same abstract value, with the
        built-ins it uses (type, isinstance, int, float, ..., operator.index) shadowed by vt.pymodel and
        _validate_float / _validate_complex_number delegating to csym on the real C helpers.
Oracle (exactly the statement): F accepts <=> P accepts, results are the same exact type and equal payload;
        P raises TraitError => F raises TraitError.  The class of a non-TraitError rejection is not compared.
Concrete mode (replay / witnesses): F = the compiled CTrait.validate, P = the real validate, real values.
"""
NEED_AST = True

import types
import z3
from traits.ctrait import CTrait

from vt import symx, csym, capi, cenv, pymodel
from vt.symx import SymInt, SymFloat, SymComplex, SymOpaque
from vt.csym import NULL
from vt.pymodel import IntSub, FloatSub, ComplexSub, StrSub, TupleSub, IndexObj, FloatObj, ComplexObj, IndexFloatObj
from vt.oblig import Obligation

import numpy as np
from traits.api import (HasTraits, Int, Float, Complex, Str, Bytes, Bool, CInt, CFloat, CComplex, CStr, CBytes, CBool,
                        Range, Enum, Map, Tuple, Instance, Type, This, Callable, Either, Union, TraitError, BaseInt,
                        Module, Any, List, AdaptsTo, Supports)
from traits.trait_types import BaseRange

LEVEL = "translation_validation"
ENCODED = [("traits/ctraits.c", ["_trait_set_validate", "validate_trait_type", "validate_trait_instance",
                                 "validate_trait_self_type", "as_integer", "validate_trait_integer", "validate_float",
                                 "validate_trait_float", "validate_complex_number", "validate_trait_complex_number",
                                 "in_float_range", "validate_trait_float_range", "validate_trait_enum",
                                 "validate_trait_map", "validate_trait_tuple_check", "validate_trait_tuple",
                                 "validate_trait_coerce_type", "validate_trait_cast_type", "validate_trait_callable",
                                 "_validate_trait_callable", "validate_trait_adapt", "validate_trait_complex",
                                 "raise_trait_error", "type_converter", "call_validator"]),
           ("traits/trait_types.py", ["_validate_int", "BaseInt.validate", "BaseFloat.validate", "BaseComplex.validate",
                                      "BaseStr.validate", "BaseBytes.validate", "BaseBool.validate", "BaseCInt.validate",
                                      "BaseCFloat.validate", "BaseCComplex.validate", "BaseCStr.validate",
                                      "BaseCBytes.validate", "BaseCBool.validate", "BaseRange.float_validate",
                                      "BaseEnum.validate", "Map.validate", "BaseTuple.validate", "BaseCallable.validate",
                                      "BaseInstance.validate", "This.validate"]),
           ("traits/trait_handlers.py", ["TraitCompound.validate", "TraitCompound.slow_validate",
                                         "TraitCompound.set_validate"])]
EXPLANATION = ("Translation validation between the two implementations of every fast-validated trait type: the C validator "
               "is interpreted from clang's AST of the current ctraits.c, the Python validate() runs natively, both on one "
               "abstract value whose numeric payload is a z3 Int / Float64 (IEEE incl. NaN, inf, -0.0). Per path z3 decides "
               "acceptance agreement and payload equality.")
STUBS = ["CPython API contracts in vt/capi.py (do-the-real-thing for concrete objects, vt/pymodel for proxies)",
         "built-ins shadowed inside traits.trait_types: type, isinstance, issubclass, int, float, complex, str, bytes, bool, "
         "operator.index (vt/pymodel.py)", "user __index__/__float__/__complex__: nondeterministic outcome (fresh symbolic "
         "value of the right kind, or raises one of TypeError/OverflowError/ValueError/other)",
         "int -> double: exact (bit-vector) for |i| < 2**63, uninterpreted finite value of magnitude >= 2**63 beyond, "
         "OverflowError iff |i| >= 2**1024 - 2**970", "int(float), str(x), bytes(n): uninterpreted results identified by their argument",
         "allocation never fails"]
ASSUMPTIONS = ["allocation failure out of scope", "int(float): |f| < 2**63", "bytes(n): n < 2**16",
               "int -> double: |i| < 2**63 or beyond the double range", "NaN as a Range *bound* excluded (configuration nobody can mean)"]


class A(HasTraits):
    pass


class B(A):
    pass


class U(HasTraits):
    pass


class Owner(A):
    pass


import abc as _abc


class Proto(_abc.ABC):
    """an abstract base class with VIRTUAL subclasses: U is registered, V answers through __subclasshook__"""


Proto.register(U)


class Hooked(_abc.ABC):
    @classmethod
    def __subclasshook__(cls, sub):
        return True if getattr(sub, "_vt_hooked", False) else NotImplemented


class V(HasTraits):
    _vt_hooked = True


class OwnerSub(Owner):
    """an instance of a SUBCLASS of the receiver's class (This accepts it)"""


class StrRaises:
    def __str__(self):
        raise RuntimeError("__str__ raises")

    __repr__ = object.__repr__


class BoolRaises:
    def __bool__(self):
        raise RuntimeError("__bool__ raises")


class BytesRaises:
    def __bytes__(self):
        raise OverflowError("__bytes__ raises")


class FwdFoo:
    """named by a forward reference: Instance("FwdFoo")"""


def fn_sample(x=None):
    return x


class Tgt(HasTraits):
    pass


class Src(HasTraits):
    ok = Bool(True)


class TgtAdapter(Tgt):
    adaptee = Any()


class TgtStandin(HasTraits):
    """a stand-in (transparent proxy, mock with a spec): its __class__ attribute reports Tgt, its type is unrelated and has no
    adaptation offer - adaptation fails, the isinstance check that follows passes"""
    @property
    def __class__(self):
        return Tgt


def _src_to_tgt(adaptee):
    return TgtAdapter(adaptee=adaptee) if adaptee.ok else None      # conditional factory


from traits.adaptation.api import register_factory as _register_factory
_register_factory(_src_to_tgt, Src, Tgt)


class Ob:
    """observation leaf for abstract values"""

    def __init__(self, v):
        self.v = v

    def __sym_eval__(self, model):
        return canon(conc_value(self.v, model))

    def __conc__(self):
        return canon(self.v)


def conc_value(v, model):
    if isinstance(v, SymInt):
        i = model.eval(v.e, model_completion=True).as_long()
        return i if v.pytype is int else v.pytype(i)
    if isinstance(v, SymFloat):
        f = symx.fp_to_py(model.eval(v.f, model_completion=True))
        return f if v.pytype is float else v.pytype(f)
    if isinstance(v, SymComplex):
        c = complex(symx.fp_to_py(model.eval(v.re, model_completion=True)), symx.fp_to_py(model.eval(v.im, model_completion=True)))
        return c if v.pytype is complex else v.pytype(c)
    if isinstance(v, SymOpaque):
        return "<opaque %s>" % v.pytype.__name__
    if isinstance(v, (tuple, list)):
        return Seq(type(v).__name__, [conc_value(x, model) for x in v])
    return v


class Seq:
    def __init__(self, tname, items):
        self.tname, self.items = tname, items


def canon(v):
    """type-and-value description that is identical for the abstract run (under its model) and the concrete run"""
    if isinstance(v, str) and v.startswith("<opaque"):
        return v
    t = type(v).__name__
    if isinstance(v, float):
        return "%s:%s" % (t, float.hex(float(v)) if v == v else "nan")
    if isinstance(v, complex):
        return "%s:%r" % (t, (canon(v.real), canon(v.imag)))
    if isinstance(v, (bool, int)):
        return "%s:%d" % (t, int(v))
    if isinstance(v, (str, bytes)):
        return "%s:%r" % (t, v) if len(v) < 40 else "%s:<long>" % t
    if isinstance(v, Seq):
        return "%s:[%s]" % (v.tname, ",".join(canon(x) for x in v.items))
    if isinstance(v, (tuple, list)):
        return "%s:[%s]" % (t, ",".join(canon(x) for x in v))
    if v is None:
        return "None"
    return "%s@obj" % t


# ---- value kinds -----------------------------------------------------------------------------------
def mk_value(ex, kind, tag="v"):
    s = ex.sym
    if kind == "none":
        return None
    if kind == "bool":
        return ex.flag(tag + ".b")
    if kind == "int":
        return ex.int(tag + ".i")
    if kind == "intsub":
        v = ex.int(tag + ".i")
        return SymInt(v.e, pytype=IntSub) if s else IntSub(v)
    if kind == "int64":
        return ex.int64(tag + ".i")
    if kind == "intsub64":
        v = ex.int64(tag + ".i")
        return pymodel._copy_int(v, pytype=IntSub) if s else IntSub(v)
    if kind == "inthuge":      # beyond the double range: int -> float raises OverflowError
        v = ex.int(tag + ".i")
        if s:
            ex.assume(z3.Or(v.e >= symx.I2D_OVERFLOW, v.e <= -symx.I2D_OVERFLOW))
        else:
            ex.assume(abs(v) >= symx.I2D_OVERFLOW)
        return v
    if kind == "float":
        return ex.fp(tag + ".f")
    if kind == "floatsub":
        v = ex.fp(tag + ".f")
        return SymFloat(v.f, pytype=FloatSub) if s else FloatSub(v)
    if kind == "complex":
        re, im = ex.fp(tag + ".re"), ex.fp(tag + ".im")
        return SymComplex(re.f, im.f) if s else complex(re, im)
    if kind == "complexsub":
        re, im = ex.fp(tag + ".re"), ex.fp(tag + ".im")
        return SymComplex(re.f, im.f, pytype=ComplexSub) if s else ComplexSub(re, im)
    if kind == "str":
        return ["", "abc", "12", "yes"][ex.choice(tag + ".s", 4)]
    if kind == "str6":
        return ["abcdef", "ab", "a"][ex.choice(tag + ".s", 3)]
    if kind == "strsub":
        return StrSub(["", "abc", "12"][ex.choice(tag + ".s", 3)])
    if kind == "bytes":
        return [b"", b"ab", b"7"][ex.choice(tag + ".s", 3)]
    if kind == "indexobj":
        return IndexObj(tag, ex)
    if kind == "floatobj":
        return FloatObj(tag, ex)
    if kind == "complexobj":
        return ComplexObj(tag, ex)
    if kind == "indexfloatobj":
        return IndexFloatObj(tag, ex)
    if kind == "object":
        return object()
    if kind == "instA":
        return A()
    if kind == "instB":
        return B()
    if kind == "instU":
        return U()
    if kind == "instV":
        return V()
    if kind == "instOwner":
        return Owner()
    if kind == "instOwnerSub":
        return OwnerSub()
    if kind == "strraises":
        return StrRaises()
    if kind == "boolraises":
        return BoolRaises()
    if kind == "bytesraises":
        return BytesRaises()
    if kind == "int1e30":
        return 10 ** 30
    if kind == "src_ok":
        return Src(ok=True)
    if kind == "src_no":
        return Src(ok=False)
    if kind == "standinTgt":
        return TgtStandin()
    if kind == "instTgt":
        return Tgt()
    if kind == "classA":
        return A
    if kind == "classB":
        return B
    if kind == "classU":
        return U
    if kind == "callable":
        return fn_sample
    if kind == "module":
        return types
    if kind == "list":
        return [1, 2]
    if kind == "list_bad":
        return [1, "x"]
    if kind == "tuple_numstr":
        # numeric strings whose order as TEXT differs from their order as numbers
        return [("10", "9.5"), ("9.5", "10"), ("1", "2"), (3, "2.5"), ("x", "1")][ex.choice(tag + ".t", 5)]
    if kind == "symstr":
        v = ex.str(tag + ".s")
        if ex.sym:
            ex.assume(z3.Length(v.e) <= 8)
        else:
            ex.assume(len(v) <= 8)
        return v
    if kind == "tuple_if":
        return (mk_value(ex, "int", tag + "0"), mk_value(ex, "float", tag + "1"))
    if kind == "tuple_fi":
        return (mk_value(ex, "float", tag + "0"), mk_value(ex, "int", tag + "1"))
    if kind == "tuple_bi":
        return (mk_value(ex, "bool", tag + "0"), mk_value(ex, "int", tag + "1"))
    if kind == "tuple_1":
        return (mk_value(ex, "int", tag + "0"),)
    if kind == "tuple_3":
        return (mk_value(ex, "int", tag + "0"), mk_value(ex, "float", tag + "1"), None)
    if kind == "tuplesub_if":
        return TupleSub((mk_value(ex, "int", tag + "0"), mk_value(ex, "float", tag + "1")))
    if kind == "tuple_ss":
        return ("abc", mk_value(ex, "int", tag + "1"))
    if kind == "tuple_is":
        return (mk_value(ex, "int64", tag + "0"), "a")
    if kind == "tuple_fs":
        return (mk_value(ex, "float", tag + "0"), "a")
    if kind == "tuple_ii":
        return (mk_value(ex, "int64", tag + "0"), mk_value(ex, "int", tag + "1"))
    if kind == "npint":
        return [np.int64(3), np.int8(-1), np.uint64(2 ** 63)][ex.choice(tag + ".np", 3)]
    if kind == "npfloat":
        return [np.float64(2.5), np.float32(0.1), np.float64("nan")][ex.choice(tag + ".np", 3)]
    if kind == "npbool":
        return [np.bool_(True), np.bool_(False)][ex.choice(tag + ".np", 2)]
    raise AssertionError(kind)


FNUM = ["none", "bool", "int64", "intsub64", "inthuge", "float", "floatsub", "complex", "complexsub", "indexobj", "floatobj",
        "complexobj", "indexfloatobj", "npint", "npfloat", "npbool"]     # for traits that convert ints to doubles
NUMERIC = ["none", "bool", "int", "intsub", "float", "floatsub", "complex", "complexsub", "indexobj", "floatobj",
           "complexobj", "indexfloatobj", "npint", "npfloat", "npbool"]
TEXT = ["str", "strsub", "bytes"]
OBJECTS = ["object", "instA", "instB", "instU", "classA", "classB", "callable", "module", "list"]
TUPLES = ["tuple_if", "tuple_fi", "tuple_bi", "tuple_1", "tuple_3", "tuplesub_if", "tuple_ss"]
ALL_KINDS = NUMERIC + TEXT + OBJECTS + TUPLES


# ---- trait configurations ---------------------------------------------------------------------------
def cfg_range(ex):
    """float Range with symbolic bounds (each None or a non-NaN double) and symbolic exclude flags"""
    lo_none, hi_none = ex.flag("low.none"), ex.flag("high.none")
    xl, xh = ex.flag("exclude_low"), ex.flag("exclude_high")
    if lo_none and hi_none:
        hi_none = False
    lo = None if lo_none else ex.fp("low")
    hi = None if hi_none else ex.fp("high")
    if ex.sym:
        for b in (lo, hi):
            if b is not None:
                ex.assume(z3.Not(z3.fpIsNaN(b.f)))
        # the REAL constructor runs on the symbolic bounds (under the Python-side shadows of type / float / isinstance), so the
        # fast-validate descriptor and the attributes the Python validate reads are both what the current source computes
        with cenv.python_side_env():
            t = Range(lo, hi, exclude_low=xl, exclude_high=xh)
        if not (isinstance(t.fast_validate, tuple) and len(t.fast_validate) == 4):
            raise symx.HarnessError("Range constructor on symbolic bounds produced no float_range descriptor: %r" % (t.fast_validate,))
        return t
    for b in (lo, hi):
        if b is not None:
            ex.assume(b == b)
    return Range(lo, hi, exclude_low=xl, exclude_high=xh)


def cfg_range_const(ex):
    """float Range with bounds from a small concrete pool (used for the int-derived value kinds, where the int -> double
    conversion is the symbolic part; the range comparison itself is covered for all bounds by RangeFloat/float)"""
    lo, hi = [(0.0, 1.0), (-2.5, 9007199254740993.0), (None, 1e10), (-0.0, None), (3.0, 3.0)][ex.choice("bounds", 5)]
    return Range(lo, hi, exclude_low=ex.flag("exclude_low"), exclude_high=ex.flag("exclude_high"))


def cfg_map(ex):
    """the real constructor runs on the defining mapping (a proxy-aware dict in symbolic runs); afterwards the defining mapping
    may gain or lose a key - both validators are documented to follow the mapping the trait was defined with"""
    base = {"yes": 1, "abc": 0, 1: "one", 2.5: None}
    m = pymodel.ModelDict(base) if ex.sym else dict(base)
    t = Map(m)
    mut = ex.choice("defining_map_changed_later", 3)
    if mut == 1:
        m["12"] = 12
    elif mut == 2:
        del m["abc"]
    return t


def cfg_tuple(*types):
    def mk(ex):
        t = Tuple(*types)
        if ex.sym:
            t.types = tuple(cenv.CTraitModel(ct) for ct in t.types)
        return t
    return mk


FLOATISH = ["none", "bool", "float", "floatsub", "complex", "complexsub", "floatobj", "complexobj", "npfloat", "npbool"]
INTISH = ["bool", "int64", "intsub64", "inthuge", "indexobj", "indexfloatobj", "npint"]
TYPEONLY = {"CStr", "CBytes", "EitherNoneCStr"}

CONFIGS = {
    "Int": (lambda ex: Int(), ALL_KINDS),
    "Float": (lambda ex: Float(), FNUM + TEXT + OBJECTS + TUPLES),
    "Complex": (lambda ex: Complex(), FNUM + TEXT + OBJECTS + TUPLES),
    "Str": (lambda ex: Str(), ["none", "int", "float"] + TEXT + ["object", "tuple_1"]),
    "Bytes": (lambda ex: Bytes(), ["none", "int"] + TEXT + ["object"]),
    "Bool": (lambda ex: Bool(), ["none", "bool", "int", "intsub", "float", "npbool", "npint", "str", "object"]),
    "CInt": (lambda ex: CInt(), NUMERIC + TEXT + ["object", "tuple_1"]),
    "CFloat": (lambda ex: CFloat(), FNUM + TEXT + ["object"]),
    "CComplex": (lambda ex: CComplex(), FNUM + TEXT + ["object"]),
    "CStr": (lambda ex: CStr(), ["none", "bool", "int", "float", "str", "strsub", "bytes", "object", "strraises"]),
    "CBytes": (lambda ex: CBytes(), ["none", "bool", "int", "str", "bytes", "list", "object", "bytesraises", "int1e30"]),
    "CBool": (lambda ex: CBool(), ["none", "bool", "int", "float", "complex", "str", "list", "object", "npbool", "boolraises"]),
    "EitherNoneCStr": (lambda ex: Either(None, CStr), ["none", "int", "str", "strraises"]),
    "RangeFloat": (cfg_range, FLOATISH + ["str", "object", "tuple_1"]),
    "RangeFloatConst": (cfg_range_const, INTISH),
    "EnumInts": (lambda ex: Enum(1, 2, 3), ["none", "bool", "int", "intsub", "float", "complex", "str", "object", "npint", "tuple_1"]),
    "EnumMixed": (lambda ex: Enum(None, "abc", 2.5, 0, (1, 2)), ["none", "bool", "int", "float", "floatsub", "str", "strsub", "tuple_bi", "tuple_1", "object"]),
    "Map": (cfg_map, ["none", "bool", "int", "float", "str", "strsub", "object", "list"]),
    "TupleIntFloat": (cfg_tuple(Int, Float), TUPLES + ["none", "int", "list", "object"]),
    "TupleFloatCInt": (cfg_tuple(Float, CInt), ["tuple_if", "tuple_fi", "tuple_bi", "tuple_ss", "tuplesub_if"]),
    "TupleAnyBool": (cfg_tuple(Any, Bool), ["tuple_if", "tuple_bi", "tuple_1"]),
    "InstanceA": (lambda ex: Instance(A), ["none"] + OBJECTS + ["int"]),
    "InstanceA_nonone": (lambda ex: Instance(A, allow_none=False), ["none"] + OBJECTS),
    # definitions derived by calling a trait type (TraitType.__call__ -> clone) with other metadata
    "InstanceA_clone_nonone": (lambda ex: Instance(A)(allow_none=False), ["none"] + OBJECTS),
    "InstanceA_clone_none": (lambda ex: Instance(A, allow_none=False)(allow_none=True), ["none", "instA", "instU", "object"]),
    "AdaptYes_clone_nonone": (lambda ex: Instance(Tgt, adapt="yes")(allow_none=False), ["none", "src_ok", "src_no", "instTgt"]),
    "InstanceInt": (lambda ex: Instance(int), ["none", "bool", "int", "intsub", "float", "object", "npint"]),
    "AdaptYes": (lambda ex: Instance(Tgt, adapt="yes"), ["standinTgt", "none", "src_ok", "src_no", "instTgt", "instU", "int"]),
    "AdaptYes_nonone": (lambda ex: Instance(Tgt, adapt="yes", allow_none=False), ["standinTgt", "none", "src_ok", "src_no", "instTgt", "instU"]),
    "AdaptDefault": (lambda ex: Instance(Tgt, (), adapt="default"), ["standinTgt", "none", "src_ok", "src_no", "instTgt", "instU"]),
    "AdaptDefault_nonone": (lambda ex: Instance(Tgt, (), adapt="default", allow_none=False), ["standinTgt", "none", "src_ok", "src_no", "instTgt"]),
    "AdaptNo": (lambda ex: Instance(Tgt, adapt="no"), ["standinTgt", "none", "src_ok", "instTgt", "instU"]),
    "EitherAdaptInt": (lambda ex: Either(Instance(Tgt, adapt="yes", allow_none=False), Int), ["standinTgt", "none", "src_ok", "src_no", "instTgt", "instU", "int", "bool"]),
    "EitherAdaptDefaultStr": (lambda ex: Either(Instance(Tgt, (), adapt="default", allow_none=False), Str), ["standinTgt", "none", "src_ok", "src_no", "instTgt", "str"]),
    "EitherAdaptNoneOk": (lambda ex: Either(Instance(Tgt, adapt="yes"), Float), ["none", "src_ok", "src_no", "float"]),
    "This": (lambda ex: This(), ["none", "instA", "instB", "instU", "instOwner", "instOwnerSub", "int", "object"]),
    "This_nonone": (lambda ex: This(allow_none=False), ["none", "instA", "instOwner", "instOwnerSub", "instU"]),
    "EitherThisInt": (lambda ex: Either(This, Int), ["none", "instOwner", "instOwnerSub", "instU", "int"]),
    "Callable": (lambda ex: Callable(), ["none", "callable", "classA", "int", "object", "instA"]),
    "Callable_nonone": (lambda ex: Callable(allow_none=False), ["none", "callable", "classA", "int", "object"]),
    "EitherIntStr": (lambda ex: Either(Int, Str), NUMERIC + TEXT + ["object"]),
    "EitherFloatNone": (lambda ex: Either(Float, None), FNUM + ["str", "object"]),
    "EitherRangeEnum": (lambda ex: Either(Range(0.0, 1.0, exclude_high=True), Enum(5, 7, "abc")), FNUM + ["str", "object"]),
    "EitherTupleNone": (lambda ex: Either(None, Tuple(Float, Int)), TUPLES + ["none", "int"]),
    "EitherInstCallable": (lambda ex: Either(Instance(A), Callable(allow_none=False), Bool), ["none", "bool", "int", "instA", "instU", "callable", "classA"]),
    "EitherCIntTuple": (lambda ex: Either(Str, Tuple(CInt, CInt)), ["str", "int", "tuple_if", "tuple_bi", "tuple_ss", "tuple_1"]),
    "EitherNested": (lambda ex: Either(Either(Int, List(Int), Tuple(Int, Int)), Str), ["int", "bool", "float", "str", "list", "tuple_bi", "tuple_if", "none", "object"]),
    # several tuple alternatives: an earlier one converts an element and then fails on a later one
    "EitherTwoTuples": (lambda ex: Either(Tuple(Float, Int), Tuple(Float, Str)),
                        ["tuple_is", "tuple_fs", "tuple_ii", "tuple_if", "tuple_fi", "tuple_1", "none"]),
    "EitherTuplesNone": (lambda ex: Either(Tuple(CInt, Int), Tuple(Float, Str), None), ["tuple_is", "tuple_fs", "tuple_ii", "none", "int"]),
    "EitherMapComplex": (lambda ex: Either(Map({"yes": 1, 1: 2}), Complex), FNUM + ["str"]),
    # Trait(None, <class>) / TraitInstance and Instance(<class>): what counts as an instance is what isinstance() says -
    # classes registered with an ABC and classes an ABC recognises through __subclasshook__ included
    "TraitNoneABC": (lambda ex: __import__("traits.api", fromlist=["x"]).Trait(None, Proto), ["none", "instU", "instV", "instA", "int", "object"]),
    "TraitNoneHooked": (lambda ex: __import__("traits.api", fromlist=["x"]).Trait(None, Hooked), ["none", "instU", "instV", "instA", "int"]),
    "InstanceABC": (lambda ex: Instance(Proto), ["none", "instU", "instV", "instA", "int"]),
    "TraitNoneSized": (lambda ex: __import__("traits.api", fromlist=["x"]).Trait(None, __import__("collections.abc", fromlist=["x"]).Sized),
                       ["none", "list", "int", "str", "instA"]),
    # Trait(<type>) / TraitCoerceType: "a value of the type, or of a type that can be coerced to it" (float <- int; complex <- float, int)
    "TraitFloatType": (lambda ex: __import__("traits.api", fromlist=["x"]).Trait(float),
                       ["none", "bool", "int64", "intsub64", "float", "floatsub", "complex", "str", "object"]),
    "TraitComplexType": (lambda ex: __import__("traits.api", fromlist=["x"]).Trait(complex),
                         ["none", "bool", "int64", "float", "floatsub", "complex", "complexsub", "str"]),
    "TraitStrType": (lambda ex: __import__("traits.api", fromlist=["x"]).Trait(str), ["none", "int", "str", "strsub", "bytes"]),
}


def setup_trait(it, handler, ttype=None):
    if ttype is not None and not symbolic_config(handler):
        return cenv.trait_struct_from_ctrait(it, ttype.as_ctrait())
    trait = cenv.new_trait(handler=handler)
    r = it.call("_trait_set_validate", [trait, (handler.fast_validate,)])
    if r is NULL:
        raise symx.HarnessError("_trait_set_validate rejected the handler's own fast_validate %r: %r"
                                % (handler.fast_validate, it.st.err))
    return trait


def symbolic_config(handler):
    fv = getattr(handler, "fast_validate", None)
    return isinstance(fv, tuple) and any(symx.is_proxy(x) or isinstance(x, pymodel.ModelDict) for x in fv)


def side_F(ex, handler, obj, value, ttype=None):
    """returns (result | NULL, exception class name | None)"""
    if ex.sym:
        it = cenv.new_interp()
        trait = setup_trait(it, handler, ttype)
        o = cenv.new_hasTraits(obj)
        with cenv.python_side_env():
            r = it.call(trait.validate, [trait, o, "x", value])
        if r is NULL:
            if it.st.err is None:
                raise csym.MemSafety("validator returned NULL without setting an exception")
            return NULL, it.st.err[0].__name__
        return cenv.finalize(r), None
    ct = (ttype or handler).as_ctrait()
    try:
        return ct.validate(obj, "x", value), None
    except Exception as e:
        return NULL, type(e).__name__


def side_P(ex, handler, obj, value):
    try:
        if ex.sym:
            with cenv.python_side_env():
                return handler.validate(obj, "x", value), None
        return handler.validate(obj, "x", value), None
    except symx.PathAbort:
        raise
    except (csym.MemSafety, csym.Unsupported, symx.HarnessError):
        raise
    except Exception as e:
        return NULL, type(e).__name__


def patch_tuple_members(handler):
    """inside a compound, Tuple members validate their items through compiled CTrait.validate: interpret that instead"""
    from traits.trait_handlers import TraitCoerceType
    if type(handler) is TraitCoerceType and not getattr(handler, "_vt_patched", False):
        # Python side only: TraitCoerceType.validate calls the types it finds in its own descriptor (data, not module globals) -
        # hand it the proxy-aware shadows of the built-in types; the compiled descriptor was fixed when the CTrait was made
        handler.fast_validate = tuple(pymodel.SHADOW_OF.get(t, t) if isinstance(t, type) else t for t in handler.fast_validate)
        handler._vt_patched = True
    for h in getattr(handler, "handlers", ()) or ():
        if isinstance(h, Tuple) and h.types and not isinstance(h.types[0], cenv.CTraitModel):
            h.types = tuple(cenv.CTraitModel(ct) for ct in h.types)
        if isinstance(h, Map) and not isinstance(h.map, pymodel.ModelDict):
            h.map = pymodel.ModelDict(h.map)     # Python side only; the descriptor keeps the original dict
        patch_tuple_members(h)


def same_result(a, b):
    """same_value, except that freshly created fixture objects (adapters, factory-made defaults) are compared
    structurally: same exact class and the same adaptee object"""
    if isinstance(a, (Tgt, TgtAdapter)) and isinstance(b, (Tgt, TgtAdapter)) and a is not b:
        return type(a) is type(b) and getattr(a, "adaptee", None) is getattr(b, "adaptee", None)
    return pymodel.same_value(a, b)


def make_harness(cfgname, kind):
    mk = CONFIGS[cfgname][0]

    def harness(ex):
        ttype = mk(ex)
        handler = ttype
        if isinstance(ttype, Either):
            handler = ttype.as_ctrait().handler      # Either(...): the TraitCompound built by the real code
        elif isinstance(ttype, CTrait):
            handler = ttype.handler                  # trait_type(...)(metadata): the clone the real code built
        if ex.sym:
            patch_tuple_members(handler)
        obj = Owner()
        value = mk_value(ex, kind)
        rp, ep = side_P(ex, handler, obj, value)
        rf, ef = side_F(ex, handler, obj, value, ttype)
        ex.check((rf is NULL) == (rp is NULL), "fast path accepts exactly when the Python validate accepts")
        if rf is not NULL and rp is not NULL:
            same = same_result(rf, rp)
            ex.check(same, "both store an equal value of the same exact type")
        if ep == "TraitError":
            ex.check(ef == "TraitError", "Python validate raises TraitError => fast path raises TraitError")
        return {"F": "accept" if rf is not NULL else ef, "P": "accept" if rp is not NULL else ep,
                "rF": (Ob(rf) if cfgname not in TYPEONLY else type(rf).__name__ if not symx.is_proxy(rf) else rf.pytype.__name__)
                if rf is not NULL else None}

    return harness


def fwd_harness(ex):
    """a class named by a forward reference is resolved on first use, and the fast descriptor of the OWNING trait is rebuilt
    then: before and after the resolution (whatever was assigned in between) the compiled validate of the class's own trait and
    the Python validate of its handler agree - alone, inside a compound, inside a List"""
    from traits.api import HasTraits, Str, List
    shape = ex.choice("shape", 4)
    tt_ = [lambda: Instance("FwdFoo"), lambda: Either(Str, Instance("FwdFoo")), lambda: Either(Instance("FwdFoo"), Int, None),
           lambda: List(Instance("FwdFoo"))][shape]()
    Holder = type("Holder", (HasTraits,), {"x": tt_, "__module__": __name__})
    o = Holder()
    wrap = (lambda v: [v]) if shape == 3 else (lambda v: v)
    pool = [lambda: "s", lambda: 3, lambda: FwdFoo(), lambda: None, lambda: object()]
    for step in range(3):
        k = ex.choice("value%d" % step, len(pool))
        v = wrap(pool[k]())
        ct = o.trait("x")
        h = ct.handler

        def run(f):
            try:
                return ("ok", type(f(o, "x", v)).__name__)
            except TraitError:
                return ("TraitError",)
            except Exception as e:
                return (type(e).__name__,)
        rf = run(ct.validate)
        rp = run(h.validate)
        ex.check(rf == rp, "the compiled validate of the owning trait and the Python validate of its handler agree, before and after "
                           "a forward-referenced class is resolved")
        try:
            o.x = v                      # the history: assignments (this is what resolves the class)
        except TraitError:
            pass
    return {"shape": shape}


def obligations(tier, build):
    cenv.load_program(build)
    obs = [Obligation("forward-reference/histories", fwd_harness, stubs=[],
                      bounds={"shapes": ["Instance('FwdFoo')", "Either(Str, Instance('FwdFoo'))", "Either(Instance('FwdFoo'), Int, None)",
                                         "List(Instance('FwdFoo'))"], "history length": 3, "values": 5},
                      leverage="choice feasibility only (class resolution is a concrete history)", max_paths=5000)]
    for cfg, (mk, kinds) in CONFIGS.items():
        for kind in kinds:
            obs.append(Obligation("%s/%s" % (cfg, kind), make_harness(cfg, kind), stubs=STUBS,
                                  bounds={"trait configuration": cfg, "value kind": kind,
                                          "numeric payloads": "unbounded Int / any Float64", "tuple arity": "<= 3",
                                          "alternatives": "<= 3"},
                                  leverage="numeric payloads, Range bounds, protocol outcomes",
                                  query_timeout_ms=30000, max_paths=5000, fast_fp=True))
    return obs
