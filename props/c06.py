"""C06 - TraitDict refines dict and its change events are faithful deltas.

The real TraitDict methods run natively on a real `dict` whose keys and values are z3 Int proxies with a
constant hash, so CPython's hash table degrades to pure `==` probing and every "is this the same key as
an existing one?" question is a solver-decided fork.  One-step obligations from an arbitrary state of s
pairwise-distinct symbolic keys (TraitDict has no hidden state: asserted), hence inductive over histories.
"""
import contextlib

import z3

from vt import symx
from vt.symx import SymInt, SymBool
from vt.oblig import Obligation

import traits.trait_dict_object as tdo
from traits.trait_errors import TraitError
from traits.trait_base import Undefined

LEVEL = "model_checking"
ENCODED = [("traits/trait_dict_object.py",
            ["TraitDict.__init__", "TraitDict.notify", "TraitDict.__setitem__", "TraitDict.__delitem__",
             "TraitDict.__ior__", "TraitDict.clear", "TraitDict.update", "TraitDict.setdefault", "TraitDict.pop",
             "TraitDict.popitem"])]
EXPLANATION = ("Symbolic execution of the real TraitDict methods; keys and values are unbounded z3 Ints (constant-hash "
               "proxies inside a real dict), the aliasing pattern between operation keys and stored keys is decided by "
               "z3; reconstruction law, refinement of dict, failure atomicity and event count discharged per path.")
STUBS = ["hash(int proxy) == 0 for every key and value (constant-hash discipline: all keys are proxies), so the real "
         "dict decides membership only through __eq__, which forks on a z3 equality"]


@contextlib.contextmanager
def sym_env():
    old = SymInt.const_hash
    SymInt.const_hash = True
    try:
        yield
    finally:
        SymInt.const_hash = old


# validators: identity, rejecting (negative is invalid), coercing (abs; idempotent)
def v_ident(x):
    return x


def v_reject(x):
    if x < 0:
        raise TraitError("negative")
    return x


def v_coerce(x):
    return abs(x)


class BadEq:
    """an item that compares equal to (and hashes like) the value it wraps but is invalid by TYPE - what 1.0 is to an Int
    trait holding 1.  Lets 'invalid' and 'equal to something already stored' coincide."""
    __slots__ = ("x",)
    __sym_reflect__ = True

    def __init__(self, x):
        self.x = x

    def __eq__(self, o):
        return self.x == (o.x if isinstance(o, BadEq) else o)

    def __ne__(self, o):
        return self.x != (o.x if isinstance(o, BadEq) else o)

    def __hash__(self):
        return hash(self.x)

    def __repr__(self):
        return "BadEq(%r)" % (self.x,)

    def __sym_eval__(self, model):
        return "BadEq(%r)" % (symx.evaluate(self.x, model),)

    def __conc__(self):
        return "BadEq(%r)" % (int(self.x),)


def v_typed(x):
    if isinstance(x, BadEq):
        raise TraitError("wrong type")
    return x


VALIDATORS = {"ident": v_ident, "reject": v_reject, "coerce": v_coerce, "typed": v_typed}


def valid(x, vname):
    """membership validity: x is a fixed point of the validator"""
    if vname == "ident":
        return True
    if vname == "typed":
        return not isinstance(x, BadEq)
    return bool(x >= 0)


def dict_eq(a, b):
    return a == b


class V(int):
    """concrete-mode stand-in for a proxy: equal by value, but every V is its own object (like proxies),
    so object identity between two values holds only where the harness aliases them on purpose"""
    __slots__ = ()


def mk(ex, name):
    x = ex.int(name)
    return x if ex.sym else V(x)


def pairs_arg(ex, m, tag="a"):
    return [(mk(ex, "%sk%d" % (tag, i)), mk(ex, "%sv%d" % (tag, i))) for i in range(m)]


OPS = ["setitem", "delitem", "pop", "pop_default", "setdefault", "popitem", "clear",
       "update_pairs", "update_map", "ior_pairs", "ior_map"]


def apply_trait(op, td, key, value, pairs):
    if op == "setitem":
        td[key] = value
    elif op == "delitem":
        del td[key]
    elif op == "pop":
        return td.pop(key)
    elif op == "pop_default":
        return td.pop(key, value)
    elif op == "setdefault":
        return td.setdefault(key, value)
    elif op == "popitem":
        return td.popitem()
    elif op == "clear":
        td.clear()
    elif op == "update_pairs":
        td.update(list(pairs))
    elif op == "update_map":
        td.update(dict(pairs))
    elif op == "ior_pairs":
        td |= list(pairs)
    elif op == "ior_map":
        td |= dict(pairs)
    else:
        raise AssertionError(op)
    return None


def apply_ref(op, ref, key, value, pairs, kv, vv):
    """the same operation on a built-in dict with validated keys and values.
    setdefault follows the tested traits semantics (containment of the *raw* key is checked first)."""
    if op == "setitem":
        k, v = kv(key), vv(value)
        ref[k] = v
    elif op == "delitem":
        del ref[key]
    elif op == "pop":
        return ref.pop(key)
    elif op == "pop_default":
        return ref.pop(key, value)
    elif op == "setdefault":
        if key in ref:
            return ref[key]
        k, v = kv(key), vv(value)
        ref[k] = v
        return v
    elif op == "popitem":
        return ref.popitem()
    elif op == "clear":
        ref.clear()
    elif op in ("update_pairs", "ior_pairs"):
        ref.update([(kv(k), vv(v)) for k, v in pairs])
    elif op in ("update_map", "ior_map"):
        ref.update({kv(k): vv(v) for k, v in dict(pairs).items()})
    else:
        raise AssertionError(op)
    return None


def plain_factory(ex, keys, vals, kv, vv, notifier):
    td = tdo.TraitDict(list(zip(keys, vals)), key_validator=kv, value_validator=vv)
    td.notifiers = [notifier]
    return td, None


def make_harness(op, s, m, kvn, vvn, factory=plain_factory):
    kv, vv = VALIDATORS[kvn], VALIDATORS[vvn]

    def harness(ex):
        events = []

        def notifier(d, removed, added, changed):
            events.append((dict(removed), dict(added), dict(changed)))

        keys = [mk(ex, "k%d" % i) for i in range(s)]
        vals = [mk(ex, "v%d" % i) for i in range(s)]
        if ex.sym:
            for i in range(s):
                for j in range(i):
                    ex.assume(keys[i] != keys[j])
                if kvn != "ident":
                    ex.assume(keys[i] >= 0)      # representation invariant: stored keys/values are valid
                if vvn != "ident":
                    ex.assume(vals[i] >= 0)
        else:
            ok = len(set(keys)) == s and (kvn == "ident" or all(k >= 0 for k in keys)) \
                and (vvn == "ident" or all(v >= 0 for v in vals))
            ex.assume(ok)
        td, extra = factory(ex, keys, vals, kv, vv, notifier)
        ref = dict(zip(keys, vals))
        before = dict(td)
        ex.check(dict_eq(before, ref), "constructor stores the given state")
        vars_before = sorted(vars(td))
        key = mk(ex, "key") if op in ("setitem", "delitem", "pop", "pop_default", "setdefault") else None
        value = None
        if op in ("setitem", "pop_default", "setdefault"):
            # the value argument is a fresh object, or the very object stored as the i-th value (identity alias)
            alias = ex.choice("alias", s + 1)
            value = vals[alias] if alias < s else mk(ex, "value")
        pairs = pairs_arg(ex, m) if "update" in op or "ior" in op else None
        exc_t = exc_r = None
        ret_t = ret_r = None
        try:
            ret_t = apply_trait(op, td, key, value, pairs)
        except (KeyError, TraitError, TypeError, ValueError, AttributeError, LookupError, RuntimeError, NameError, ArithmeticError) as e:
            exc_t = type(e).__name__
        try:
            ret_r = apply_ref(op, ref, key, value, pairs, kv, vv)
        except (KeyError, TraitError, TypeError, ValueError, AttributeError, LookupError, RuntimeError, NameError, ArithmeticError) as e:
            exc_r = type(e).__name__
        after = dict(td)
        ex.check(exc_t == exc_r, "same exception class as dict (TraitError for an invalid key/value)")
        if exc_r is not None:
            ref = dict(before)   # a failing reference operation is all-or-nothing by construction
        ex.check(dict_eq(after, ref), "contents equal the built-in dict's after the same operation")
        if exc_t is None and exc_r is None:
            if op in ("ior_pairs", "ior_map"):
                pass
            else:
                ex.check(bool(ret_t == ret_r), "same return value as dict")
        ex.check(sorted(vars(td)) == vars_before, "no hidden state (vars unchanged)")
        ex.check(all(valid(k, kvn) and valid(v, vvn) for k, v in after.items()), "stored keys and values are valid")
        if exc_t is not None:
            ex.check(dict_eq(after, before), "failing operation changes nothing")
            ex.check(events == [], "failing operation is silent")
        if extra is not None:
            extra(ex, exc_t, td)
        changed_contents = not dict_eq(after, before)
        if changed_contents:
            ex.check(len(events) == 1, "exactly one event for a content change")
        else:
            ex.check(len(events) <= 1, "at most one event when nothing changes")
        for removed, added, changed in events:
            ex.check(bool(removed or added or changed), "no event with all three parts empty")
            rec = dict(after)
            ok = True
            for k, v in added.items():
                ok = ok and ex.check(k not in before, "added key was absent before")
                ok = ok and ex.check(k in after and bool(after[k] == v), "added key now holds the given value")
                if ok:
                    del rec[k]
            for k, old in changed.items():
                ok = ok and ex.check(k in before and bool(before[k] == old), "changed key was present with the given old value")
                ok = ok and ex.check(k in after, "changed key is still present")
                if ok:
                    rec[k] = old
            for k, old in removed.items():
                ok = ok and ex.check(k in before and bool(before[k] == old), "removed key held the given value")
                ok = ok and ex.check(k not in after, "removed key is gone")
                if ok:
                    rec[k] = old
            if ok:
                ex.check(dict_eq(rec, before), "previous contents reconstructed exactly from the event")
        return {"exc": exc_t, "after": [list(kv_) for kv_ in after.items()], "ret": ret_t if op != "ior_map" and op != "ior_pairs" else None,
                "events": [[[list(i) for i in part.items()] for part in ev] for ev in events]}

    return harness


def witness_obs_sym(obs):
    return obs


def obligations(tier, build):
    obs = []
    S = 3 if tier == "quick" else 4
    M = 2 if tier == "quick" else 3
    vcombos = [("ident", "ident"), ("reject", "reject"), ("coerce", "ident"), ("coerce", "coerce"), ("ident", "reject")]
    if tier == "quick":
        vcombos = vcombos[:4]
    for s in range(S + 1):
        for op in OPS:
            for kvn, vvn in vcombos:
                multi = "update" in op or "ior" in op
                for m in (range(1, M + 1) if multi else [0]):
                    if op in ("popitem", "clear", "delitem", "pop") and (kvn, vvn) != ("ident", "ident"):
                        continue      # validators are not involved in these operations
                    if multi and tier == "quick" and op.startswith("ior") and m > 1 and (kvn, vvn) != ("ident", "ident"):
                        continue
                    name = "%s/s=%d%s/%s-%s" % (op, s, "/m=%d" % m if multi else "", kvn, vvn)
                    obs.append(Obligation(
                        name, make_harness(op, s, m, kvn, vvn), env=sym_env, stubs=STUBS,
                        bounds={"stored entries s": s, "argument pairs m": m, "keys/values": "unbounded Int",
                                "validators": "key=%s value=%s (reject: negative invalid; coerce: abs)" % (kvn, vvn)},
                        assumes=["pre-state keys pairwise distinct and (for non-identity validators) valid: "
                                 "the representation invariant, re-established by every obligation's post-state check"],
                        leverage="aliasing between operation keys and stored keys; validity of keys/values",
                        max_paths=50000))
    # ---- the same obligations on an owner-backed TraitDictObject (Dict trait value) with the legacy items handler and two
    # observe handlers attached (mirror obligations in props/_owners.py)
    import props._owners as owners
    fac = owners.dict_factory()
    SO = 2 if tier == "quick" else 3
    for s in range(SO + 1):
        for op in OPS:
            for kvn, vvn in (("ident", "ident"), ("reject", "reject"), ("coerce", "coerce")):
                multi = "update" in op or "ior" in op
                for m in ((1, 2) if multi else [0]):
                    if op in ("popitem", "clear", "delitem", "pop") and (kvn, vvn) != ("ident", "ident"):
                        continue
                    if multi and tier == "quick" and m > 1 and (kvn, vvn) != ("ident", "ident"):
                        continue
                    obs.append(Obligation(
                        "owned/%s/s=%d%s/%s-%s" % (op, s, "/m=%d" % m if multi else "", kvn, vvn),
                        make_harness(op, s, m, kvn, vvn, factory=fac), env=sym_env, stubs=STUBS,
                        bounds={"stored entries s": s, "argument pairs m": m, "keys/values": "unbounded Int",
                                "container": "TraitDictObject owned by a HasTraits object; 1 legacy + 2 observe handlers"},
                        assumes=["pre-state keys pairwise distinct and valid"],
                        leverage="aliasing between operation keys and stored keys; validity of keys/values", max_paths=50000))
    for label, fac_ in (("owned-anytrait", owners.dict_factory(route="anytrait")), ("owned-added", owners.dict_factory(added=True)),
                        ("owned-added-anytrait", owners.dict_factory(route="anytrait", added=True)),
                        ("owned-added-over", owners.dict_factory(added="over"))):
        for op in ("setitem", "delitem", "update_pairs", "ior_map", "clear", "popitem", "setdefault"):
            for s in (0, 1):
                obs.append(Obligation("%s/%s/s=%d" % (label, op, s), make_harness(op, s, 1, "ident", "ident", factory=fac_), env=sym_env,
                                      stubs=STUBS, bounds={"stored entries s": s, "container": "TraitDictObject; " + label +
                                                           " (only an unnamed object-level legacy handler / trait added with add_trait, "
                                                           "foreign twins must stay silent)"},
                                      leverage="aliasing between operation keys and stored keys"))
    falsy = owners.dict_factory(falsy=True)
    for op in ("setitem", "setdefault", "update_pairs", "ior_map"):
        for s in (0, 1):
            obs.append(Obligation("owned-falsy/%s/s=%d/reject-reject" % (op, s), make_harness(op, s, 1, "reject", "reject", factory=falsy),
                                  env=sym_env, stubs=STUBS,
                                  bounds={"stored entries s": s, "owner": "falsy (defines __bool__ / __len__)"},
                                  leverage="validity of keys/values"))
    import props._owners as owners_
    obs.append(Obligation("class-routes/dict", owners_.class_routes_harness("dict"),
                          bounds={"objects": "base-class instance, two subclasses with their own _c_items_changed, a second instance",
                                  "listeners": "two listener objects that compare equal", "Undefined": "as item / key / value"},
                          leverage="choice feasibility only"))
    obs.append(Obligation("detached/dict", owners_.detached_harness("dict"), bounds={"how the container lost its place": owners_.DETACH_HOWS,
                                                                                      "operations": "3 valid, 2 refused by the built-in"},
                          leverage="choice feasibility only"))
    obs.append(Obligation("sharing/dict", owners_.sharing_harness("dict"),
                          bounds={"ways of handing a value on": owners_.SHARING_HOWS, "declarations": "x and y from ONE shared definition object"},
                          leverage="choice feasibility only", stubs=[]))
    return obs
