"""C17 - adaptation finds an adapter chain iff one exists, and a shortest one.

Encoded: AdaptationManager.adapt / _adapt / _get_applicable_offers / mro_distance_to_protocol /
_by_weight_then_from_protocol_specificity run natively on a fresh manager.  Offers: m <= 3 (4 thorough) with endpoints chosen
by symbolic selectors over a fixed protocol hierarchy (plain inheritance, multiple inheritance, ABC registration).
The part the solver really decides: one symbolic Boolean per (offer, previous offer) - 'this factory returns None for an
adaptee produced by that offer' (conditional factories, incl. path-dependent ones) - read lazily, only when the algorithm
calls the factory.  Oracle = z3 formula over those Booleans: exists a simple chain (each offer at most once, applicability
from the concrete subclass matrix) whose factories all succeed; adapter returned <=> formula; chain length == minimum over
succeeding chains; on a None result z3 proves NO chain can succeed for ANY value of the Booleans never read.
"""
NEED_AST = True

import abc
import itertools

import z3

from vt import symx
from vt.oblig import Obligation

from traits.adaptation.adaptation_manager import AdaptationManager
from traits.adaptation.adaptation_offer import AdaptationOffer
from traits.adaptation.adaptation_error import AdaptationError

LEVEL = "model_checking"
ENCODED = [("traits/adaptation/adaptation_manager.py",
            ["AdaptationManager.adapt", "AdaptationManager._adapt", "AdaptationManager._get_applicable_offers",
             "AdaptationManager.mro_distance_to_protocol", "AdaptationManager.provides_protocol",
             "AdaptationManager.register_offer", "_by_weight_then_from_protocol_specificity", "adapt", "supports_protocol",
             "reset_global_adaptation_manager", "set_global_adaptation_manager"])]
EXPLANATION = ("Symbolic execution of the real adaptation search with symbolic conditional-factory outcomes per (offer, predecessor); "
               "z3 decides existence and minimality against a formula over all simple chains, universally over the outcomes the search "
               "never looked at. Offer endpoints and the hierarchy are enumerated through symbolic selectors.")
STUBS = []
ASSUMPTIONS = ["a factory's outcome depends only on which offer produced its adaptee (or on the original object)"]


class P0:
    pass


class P1(P0):
    pass


class P2:
    pass


class P3(P1, P2):           # multiple inheritance
    pass


# interface by ABC registration.  Its class NAME (and module) is that of an unrelated protocol above: offers are
# registered per protocol, and two protocols are different things however they are called
I4 = abc.ABCMeta("P0", (abc.ABC,), {"__module__": __name__, "__qualname__": "P0"})


I4.register(P2)

PROTOS = [P0, P1, P2, P3, I4]
NAMES = ["P0", "P1", "P2", "P3", "I4"]


class Adapter:
    def __init__(self, made_by, cls_index):
        self.made_by = made_by


def harness_factory(m, start_idx, target_idx, part=None):
    """part = (from0, to0) fixed per obligation instance, only to spread the largest instances over the pool"""
    def harness(ex):
        mgr = AdaptationManager()
        ends = []
        for i in range(m):
            f = ex.choice("from%d" % i, len(PROTOS))
            t = ex.choice("to%d" % i, len(PROTOS))
            if i == 0 and part is not None and ex.sym and (f, t) != part:
                ex.assume(False)
            ends.append((f, t))
        start, target = PROTOS[start_idx], PROTOS[target_idx]
        succ = {}
        called = []
        # every (offer, predecessor) outcome is declared up front (so that a counterexample fixes all of them), but decided
        # only when the search actually calls the factory
        ovar = {(i, p): ex.bool("ok_%d_after_%s" % (i, p)) for i in range(m) for p in (["start"] + [j for j in range(m) if j != i])}

        def outcome(i, prev):
            key = (i, prev)
            if key not in succ:
                v = ovar[key]
                succ[key] = ex.decide(v) if ex.sym else bool(v)
            return succ[key]

        adapter_classes = []
        for i, (f, t) in enumerate(ends):
            # an adapter produced by offer i is an instance of a class that provides offer i's to_protocol
            cls = type("A%d" % i, (Adapter, PROTOS[t]) if not isinstance(PROTOS[t], abc.ABCMeta) else (Adapter,), {})
            if isinstance(PROTOS[t], abc.ABCMeta):
                PROTOS[t].register(cls)
            adapter_classes.append(cls)

        def mk_factory(i):
            def factory(adaptee):
                prev = getattr(adaptee, "made_by", "start")
                called.append((i, prev))
                if outcome(i, prev):
                    return adapter_classes[i](i, i)
                return None
            return factory

        offers = []
        for i, (f, t) in enumerate(ends):
            o = AdaptationOffer(factory=mk_factory(i), from_protocol=PROTOS[f], to_protocol=PROTOS[t])
            offers.append(o)
            mgr.register_offer(o)
        adaptee = type("Obj", (start,) if not isinstance(start, abc.ABCMeta) else (), {})()
        if isinstance(start, abc.ABCMeta):
            start.register(type(adaptee))
        res = mgr.adapt(adaptee, target, None)
        # ---- independent oracle ----
        already = issubclass(type(adaptee), target)
        if already:
            ex.check(res is adaptee and called == [], "an object that already provides the protocol is returned itself")
            return {"result": "self"}

        def applicable(cur_type, i):
            return issubclass(cur_type, PROTOS[ends[i][0]])

        chains = []

        def extend(chain, cur_type):
            for i in range(m):
                if i in chain or not applicable(cur_type, i):
                    continue
                c2 = chain + [i]
                if issubclass(PROTOS[ends[i][1]], target):
                    chains.append(c2)
                else:
                    extend(c2, PROTOS[ends[i][1]])
                # a chain may also continue through an offer that already reaches the target; the property speaks of
                # chains *leading to* the protocol, so a chain ends at the first offer whose to_protocol provides it
        extend([], type(adaptee))

        def sv(i, prev):
            key = (i, prev)
            if key in succ:
                return z3.BoolVal(bool(succ[key]))
            return ovar[key].e if ex.sym else z3.BoolVal(bool(ovar[key]))

        def chain_ok(c):
            prevs = ["start"] + c[:-1]
            return z3.And(*[sv(i, p) for i, p in zip(c, prevs)]) if c else z3.BoolVal(True)

        exists = z3.Or(*[chain_ok(c) for c in chains]) if chains else z3.BoolVal(False)
        as_check = (lambda f: f) if ex.sym else (lambda f: bool(z3.is_true(z3.simplify(f))))
        if res is None:
            ex.check(as_check(z3.Not(exists)), "adapt gives up only if no chain of applicable offers can succeed")
            return {"result": None}
        ex.check(isinstance(res, Adapter) and issubclass(type(res), target), "the result provides the target protocol")
        # reconstruct the chain that produced the result from the factory call log
        used = []
        cur = res
        made = res.made_by
        # the successful run is the last maximal run of calls that ended in `made`
        idx = max(k for k, (i, p) in enumerate(called) if i == made)
        while True:
            i, p = called[idx]
            used.insert(0, i)
            if p == "start":
                break
            idx = max(k for k in range(idx) if called[k][0] == p)
        ex.check(as_check(exists), "an adapter is returned only if a succeeding chain exists")
        shorter = [c for c in chains if len(c) < len(used)]
        if shorter:
            ex.check(as_check(z3.Not(z3.Or(*[chain_ok(c) for c in shorter]))), "the returned chain uses the minimum number of adapters")
        if len(used) == 1:
            # single-step choice: no succeeding single-step offer registered for a strictly more specific type
            o = used[0]
            better = []
            for j in range(m):
                if j != o and [j] in chains:
                    fj, fo = PROTOS[ends[j][0]], PROTOS[ends[o][0]]
                    dj = AdaptationManager.mro_distance_to_protocol(type(adaptee), fj)
                    do = AdaptationManager.mro_distance_to_protocol(type(adaptee), fo)
                    strictly_more_specific = fj is not fo and issubclass(fj, fo) and dj is not None and do is not None and dj <= do
                    if strictly_more_specific:
                        better.append(sv(j, "start"))
            if better:
                ex.check(as_check(z3.Not(z3.Or(*better))),
                         "among single-step choices an offer for a more specific type is preferred to one for its base type")
        return {"result": "adapter", "chain": used}

    return harness


from traits.adaptation.api import supports_protocol as _g_supports, adapt as _g_adapt


def adaptsto_harness(ex, fixed_position=None):
    """AdaptsTo / Supports traits apply adapt() to assigned values: the shadow attribute name_ always holds what adapt() yields
    for the value just assigned, also when the same object is assigned again after the offers' behaviour changed"""
    from traits.api import HasTraits, AdaptsTo, Supports, Any, TraitError
    from traits.adaptation.api import (get_global_adaptation_manager, set_global_adaptation_manager,
                                       reset_global_adaptation_manager)
    from vt import cenv
    from vt.csym import NULL
    old_mgr = get_global_adaptation_manager()
    mgr = AdaptationManager()
    set_global_adaptation_manager(mgr)
    try:
        state = {"gen": 0}

        class Target(HasTraits):
            pass

        class Source(HasTraits):
            pass

        falsy = ex.flag("falsy_adapter")

        class Ad(Target):
            adaptee = Any()
            gen = Any()

            def __len__(self):          # an adapter may well be an empty collection view: falsy, yet a perfectly good adapter
                return 0 if falsy else 1

        mgr.register_factory(lambda a: Ad(adaptee=a, gen=state["gen"]) if state["gen"] >= 0 else None, Source, Target)

        class Standin(Source):
            """a stand-in object (lazy proxy / mock with a spec): its __class__ attribute reports the class it stands in for.
            What an object provides is a matter of its TYPE; the offer registered for that type is what adapts it"""
            @property
            def __class__(self):
                return Target
        state["Standin"] = Standin
        # where the adapting trait sits: on its own (C fast path), inside a compound (C validate_trait_complex), inside a
        # Union / a container (Python validate), or declared by class NAME (resolved on first use: Python validate first)
        from traits.api import Either, Union, List as _List, Int as _Int
        shape = ex.choice("position", 10) if fixed_position is None else fixed_position
        use_supports = shape != 0
        if shape >= 2 and ex.sym:
            # the compound / container positions run natively (their validators call back into Python for the inner trait)
            return _adaptsto_native(ex, mgr, state, Source, Target, Ad, shape)

        dflt_src = Source()
        from traits.api import HasStrictTraits
        OwnerBase = HasStrictTraits if ex.flag("strict_owner") else HasTraits

        class Owner(OwnerBase):
            t = Supports(Target) if use_supports else AdaptsTo(Target)
            d = Supports(Target) if use_supports else AdaptsTo(Target)

            def _d_default(self):
                return dflt_src          # a default that needs adapting, like any assigned value

        if shape >= 2:
            return _adaptsto_native(ex, mgr, state, Source, Target, Ad, shape)
        o = Owner()
        x = Source()
        k = 3
        trace = []
        if ex.flag("instance_trait_clone"):
            o.on_trait_change(lambda: None, "t")      # gives the object its own clone of the definition
        if ex.flag("read_the_dynamic_default_first"):
            try:
                dv = o.d
            except Exception as e:
                ex.check(False, "reading the default of an adapting trait raises nothing (%s)" % type(e).__name__)
                return {"trace": trace}
            if use_supports:
                ex.check(isinstance(dv, Ad) and dv.adaptee is dflt_src, "a Supports trait whose default method returns an adaptable object "
                                                                        "reads as the adapter (the default is adapted like an assigned value)")
            else:
                ex.check(dv is dflt_src, "an AdaptsTo trait's default reads as the original object")
        it = cenv.new_interp() if ex.sym else None
        for step in range(k):
            op = ex.choice("op%d" % step, 5)
            if op == 0:
                state["gen"] += 1            # the factory now yields a different adapter for the same object
                trace.append("gen")
                continue
            if op == 1:
                state["gen"] = -1 if state["gen"] >= 0 else 1     # the factory starts / stops refusing
                trace.append("toggle")
                continue
            val = x if op == 2 else Source() if op == 3 else Standin()
            ex.check(mgr.supports_protocol(val, Target) == (state["gen"] >= 0),
                     "supports_protocol(obj, P) says exactly whether adapt(obj, P) yields something (a falsy adapter is an adapter)")
            ex.check(_g_supports(val, Target) == (state["gen"] >= 0) and (_g_adapt(val, Target, None) is not None) == (state["gen"] >= 0),
                     "the module-level supports_protocol / adapt entry points answer like the manager's methods")
            if ex.sym:
                os_ = cenv.hastraits_struct(it, o)
                with cenv.python_side_env():
                    rc = it.call("has_traits_setattro", [os_, "t", val])
                ok = rc == 0
                it.st.err = None
            else:
                try:
                    o.t = val
                    ok = True
                except TraitError:
                    ok = False
            trace.append("set:%s" % ok)
            if state["gen"] < 0 and op == 4:
                # adaptation failed: the documented fallback is the isinstance check, which the stand-in passes
                ex.check(ok and o.__dict__.get("t") is val, "a value that cannot be adapted but passes isinstance is stored unchanged")
            elif state["gen"] < 0:
                ex.check(not ok, "a value that cannot be adapted is rejected")
            else:
                ex.check(ok, "an adaptable value is accepted")
                if ok:
                    stored = o.__dict__.get("t")
                    shadow = o.__dict__.get("t_")
                    if use_supports:
                        ex.check(isinstance(stored, Ad) and stored.adaptee is val and stored.gen == state["gen"],
                                 "Supports stores the adapter adapt() yields now")
                        ex.check(shadow is val, "Supports' shadow attribute holds the value as it was assigned")
                    else:
                        ex.check(stored is val, "AdaptsTo stores the original value")
                        ex.check(isinstance(shadow, Ad) and shadow.adaptee is val and shadow.gen == state["gen"],
                                 "AdaptsTo's shadow attribute holds the adapter adapt() yields now (also on re-assignment of the same object)")
        return {"trace": trace}
    finally:
        set_global_adaptation_manager(old_mgr)


def global_manager_harness(ex):
    """the global adaptation manager can be replaced and reset: resetting installs a NEW, empty manager and leaves the manager the
    application built alone - its offers (and the chains through them) are found again when it is used or re-installed"""
    from traits.api import HasTraits, Supports, TraitError
    from traits.adaptation.api import (get_global_adaptation_manager, set_global_adaptation_manager,
                                       reset_global_adaptation_manager, adapt as g_adapt)
    old_mgr = get_global_adaptation_manager()
    try:
        class A_(HasTraits):
            pass

        class B_(HasTraits):
            pass

        class C_(HasTraits):
            pass
        mine = AdaptationManager()
        mine.register_factory(lambda a: B_(), A_, B_)
        mine.register_factory(lambda b: C_(), B_, C_)
        set_global_adaptation_manager(mine)
        ex.check(isinstance(g_adapt(A_(), C_, None), C_), "(fixture) the installed manager finds the two-step chain")
        reset_global_adaptation_manager()
        fresh = get_global_adaptation_manager()
        ex.check(fresh is not mine and g_adapt(A_(), C_, None) is None, "after a reset the global manager is a new, empty one")
        ex.check(isinstance(mine.adapt(A_(), C_, None), C_), "... and the manager that was replaced keeps its offers")
        if ex.flag("offer_registered_after_the_reset"):
            fresh.register_factory(lambda a: C_(), A_, C_)
            ex.check(len(mine._adaptation_offers.get(mine._get_type_name(A_) if hasattr(mine, "_get_type_name") else "", [])) <= 1 and
                     isinstance(mine.adapt(A_(), B_, None), B_), "offers registered with the new global manager do not reach the old one")
        set_global_adaptation_manager(mine)

        class Owner(HasTraits):
            t = Supports(C_)
        o = Owner()
        try:
            o.t = A_()
            ok = isinstance(o.t, C_)
        except TraitError:
            ok = False
        ex.check(ok, "re-installed, the application's manager serves Supports traits as before")
        return {"ok": ok}
    finally:
        set_global_adaptation_manager(old_mgr)


def _adaptsto_native(ex, mgr, state, Source, Target, Ad, shape):
    from traits.api import HasTraits, Supports, Either, Union, List, Dict, Set, Tuple, Str, Int, Instance, TraitError
    import sys
    sys.modules[__name__]._FwdTarget = Target        # for the declaration by class name (resolved on first use)

    class Owner(HasTraits):
        t = {2: lambda: Either(Supports(Target), Int), 3: lambda: Union(Supports(Target), None),
             4: lambda: List(Supports(Target)), 5: lambda: Instance(Target, adapt="yes"),
             6: lambda: Supports("_FwdTarget"), 7: lambda: Dict(Str, Supports(Target)), 8: lambda: Set(Supports(Target)),
             9: lambda: Tuple(Supports(Target), Int)}[shape]()

    wrap = {4: lambda v: [v], 7: lambda v: {"k": v}, 8: lambda v: {v}, 9: lambda v: (v, 1)}.get(shape, lambda v: v)
    unwrap = {4: lambda c: c[0], 7: lambda c: c["k"], 8: lambda c: next(iter(c)), 9: lambda c: c[0]}.get(shape, lambda c: c)
    o = Owner()
    x = Source()
    trace = []
    for step in range(3):
        op = ex.choice("op%d" % step, 5)
        if op == 0:
            state["gen"] += 1
            trace.append("gen")
            continue
        if op == 1:
            state["gen"] = -1 if state["gen"] >= 0 else 1
            trace.append("toggle")
            continue
        val = x if op == 2 else Source() if op == 3 else state["Standin"]()
        ex.check(mgr.supports_protocol(val, Target) == (state["gen"] >= 0),
                 "supports_protocol(obj, P) says exactly whether adapt(obj, P) yields something (a falsy adapter is an adapter)")
        ex.check(_g_supports(val, Target) == (state["gen"] >= 0) and (_g_adapt(val, Target, None) is not None) == (state["gen"] >= 0),
                 "the module-level supports_protocol / adapt entry points answer like the manager's methods")
        try:
            o.t = wrap(val)
            ok = True
        except TraitError:
            ok = False
        trace.append("set:%s" % ok)
        if state["gen"] < 0 and op == 4:
            ex.check(ok and unwrap(o.t) is val, "a value that cannot be adapted but passes isinstance is stored unchanged")
        elif state["gen"] < 0:
            ex.check(not ok, "a value that cannot be adapted is rejected")
        else:
            ex.check(ok, "an adaptable value is accepted")
            if ok:
                stored = unwrap(o.t)
                ex.check(isinstance(stored, Ad) and stored.adaptee is val and stored.gen == state["gen"],
                         "the adapting trait stores the adapter adapt() yields now, wherever it sits (compound, Union, container)")
    return {"trace": trace, "shape": shape}


def provides_harness(ex):
    """@provides(P, ...) makes the class provide exactly the protocols named - also when an interface declares a method called
    'register' of its own, when the provider is falsy, and for subclasses of the provider"""
    from traits.api import HasTraits, Interface, Supports, Instance, provides, TraitError
    from traits.adaptation.api import get_global_adaptation_manager, set_global_adaptation_manager
    old_mgr = get_global_adaptation_manager()
    mgr = AdaptationManager()
    set_global_adaptation_manager(mgr)
    try:
        own_register = ex.flag("interface_declares_register")
        two = ex.flag("two_protocols")
        falsy = ex.flag("falsy_provider")
        sub = ex.flag("subclass_of_the_provider")
        calls = []

        class IOne(Interface):
            if own_register:
                def register(self, listener):
                    """ part of the interface: register a listener with the object """

        class ITwo(Interface):
            pass

        class IOther(Interface):
            pass

        decl = (IOne, ITwo) if two else (IOne,)

        class Impl(HasTraits):
            def register(self, listener):
                calls.append(listener)

            def __len__(self):
                return 0 if falsy else 1
        try:
            Impl = provides(*decl)(Impl)
        except Exception as e:
            ex.note("error", repr(e)[:200])
            ex.check(False, "@provides accepts interfaces whatever methods they declare")
            return {}

        cls = type("Sub", (Impl,), {}) if sub else Impl
        obj = cls()

        class Owner(HasTraits):
            a = Supports(IOne)
            b = Supports(ITwo)
            c = Instance(IOne)
            d = Supports(IOther)
        o = Owner()
        for P, attr in ((IOne, "a"), (ITwo, "b"), (IOther, "d")):
            declared = P in decl
            ex.check(mgr.provides_protocol(cls, P) == declared and isinstance(obj, P) == declared,
                     "a class provides exactly the protocols named in @provides")
            ex.check(mgr.supports_protocol(obj, P) == declared, "supports_protocol agrees (no offers registered)")
            got = mgr.adapt(obj, P, None)
            ex.check((got is obj) if declared else (got is None), "adapt returns a provider unchanged and nothing for an undeclared protocol")
            try:
                setattr(o, attr, obj)
                ok = True
            except TraitError:
                ok = False
            ex.check(ok == declared and (not ok or getattr(o, attr) is obj), "a Supports trait accepts exactly the providers, unchanged")
        try:
            o.c = obj
            ok = True
        except TraitError:
            ok = False
        ex.check(ok and o.c is obj, "an Instance(Interface) trait accepts a provider")
        ex.check(calls == [], "declaring what a class provides does not call the provider's own methods")
        return {}
    finally:
        set_global_adaptation_manager(old_mgr)


def obligations(tier, build):
    from vt import cenv
    cenv.load_program(build)
    obs = [Obligation("adaptsto/histories/position=%d" % pos_, (lambda ex, pos_=pos_: adaptsto_harness(ex, pos_)),
                      bounds={"history length": 3, "position of the adapting trait": pos_,
                              "operations": ["factory yields a new adapter", "factory starts/stops refusing",
                                             "assign the same object", "assign a fresh object",
                                             "assign a stand-in whose __class__ reports the target class"],
                              "owner": "HasTraits / HasStrictTraits, with or without an instance clone of the definition (positions 0, 1)"},
                      leverage="choice feasibility only", max_paths=60000) for pos_ in range(10)] + [
           Obligation("global-manager", global_manager_harness, bounds={"history": "build, register two offers, install, reset, (register), re-install"},
                      leverage="choice feasibility only"),
           Obligation("provides/declarations", provides_harness,
                      bounds={"protocols": "3 interfaces, 1 or 2 declared", "interface declares a method named register": "symbolic",
                              "falsy provider": "symbolic", "subclass of the provider": "symbolic"},
                      leverage="choice feasibility only", max_paths=1000)]
    m_max = 3 if tier == "quick" else 4
    for m in range(0, m_max + 1):
        for s in range(len(PROTOS)):
            for t in range(len(PROTOS)):
                if tier == "quick" and m == 3 and not ((s, t) in ((3, 4), (0, 2))):
                    continue
                if tier == "thorough" and m == 4 and not (s in (0, 3) and t in (2, 4)):
                    continue
                parts = [None] if m < 3 else [(a, b) for a in range(len(PROTOS)) for b in range(len(PROTOS))]
                for part in parts:
                    obs.append(Obligation(
                        "adapt/m=%d/from=%s/to=%s%s" % (m, NAMES[s], NAMES[t],
                                                        "" if part is None else "/o0=%s-%s" % (NAMES[part[0]], NAMES[part[1]])),
                        harness_factory(m, s, t, part),
                        bounds={"offers m": m, "protocols": NAMES, "adaptee type": "fresh subclass of " + NAMES[s],
                                "target": NAMES[t], "offer endpoints": "all (symbolic selectors)",
                                "factory outcomes": "symbolic Boolean per (offer, predecessor)"},
                        leverage="conditional factory outcomes (universal over the ones never read); endpoints by choice",
                        max_paths=400000, path_wall_s=30))
    return obs
