"""C01 - assigned values always lie in the trait's declared domain.

Encoded: has_traits_setattro -> trait->setattr (setattr_trait) -> traitd->validate (every validate_trait_* incl. the
Python validators reached through validate_trait_python) -> PyDict_SetItem / raise_trait_error, interpreted by csym on a
real HasTraits owner whose __dict__ is shared with the interpreter.  Python validators (int Range, String, ...) run natively
on proxies.  Oracle: a reference predicate Dom_T written from the documentation of each trait type.
"""
NEED_AST = True

import sys
import z3

from vt import symx, csym, capi, cenv, pymodel
from vt.symx import SymInt, SymFloat, SymComplex, SymOpaque
from vt.csym import NULL
from vt.pymodel import ProtoObj
from vt.oblig import Obligation
import props.c03 as c03
from props.c03 import mk_value, A, B, U, Ob, NUMERIC, FNUM, TEXT, OBJECTS, TUPLES, FLOATISH, INTISH

import numpy as np
from traits.api import (HasTraits, Int, Float, Complex, Str, Bytes, Bool, CInt, CFloat, Range, Enum, Map, Tuple, Instance,
                        Type, Callable, Either, Union, TraitError, String, List, Any, Trait)
import traits.trait_types as tt

LEVEL = "model_checking"
ENCODED = [("traits/ctraits.c", ["has_traits_setattro", "setattr_trait", "call_notifiers", "default_value_for",
                                 "raise_trait_error", "validate_trait_python", "post_setattr_trait_python"] + c03.ENCODED[0][1]),
           ("traits/trait_types.py", ["BaseRange.int_validate", "BaseRange.float_validate", "String.validate_len",
                                      "String.validate_str", "Union.validate", "Type.validate", "Map.post_setattr"] + c03.ENCODED[1][1]),
           ("traits/base_trait_handler.py", ["BaseTraitHandler.error"]),
           ("traits/trait_numeric.py", ["AbstractArray.__init__", "AbstractArray.validate"]),
           ("traits/trait_handlers.py", ["TraitCoerceType.validate"])]
EXPLANATION = ("Symbolic execution of the real assignment path (C interpreted from the AST, Python validators natively) on a real "
               "HasTraits object; numeric payloads, Range bounds, String length bounds are z3 Ints / Float64s. Per path z3 "
               "discharges: stored value == documented conversion and inside the declared domain; rejection is a TraitError "
               "naming the attribute (or the value's own protocol exception) and leaves __dict__ and the handler log unchanged; "
               "no spurious rejection.")
STUBS = c03.STUBS + ["String.info / BaseRange.info: constant text during symbolic runs (formatting of symbolic bounds)"]
ASSUMPTIONS = c03.ASSUMPTIONS + ["int(float): |f| < 2**63","int -> double conversions: |i| < 2**63 or |i| beyond the double range (2**63 <= |i| < 2**1024 outside the claim)",
                                 "bytes(n): n < 2**16"]

ACCEPT, REJECT, RAISE = "accept", "reject", "raise"


# ---- reference conversions (from the documentation; environment semantics come from vt.pymodel) ----------------
def ref_index(value):
    """documented: 'an int, or any object with __index__'; result is an exact int"""
    try:
        return ACCEPT, pymodel.exact_int(pymodel.m_index(value))
    except TypeError:
        return (REJECT,)
    except symx.PathAbort:
        raise
    except Exception as e:
        return RAISE, type(e).__name__


def ref_float(value):
    """documented: float, or anything float() accepts through __float__/__index__ (not str); exact float"""
    try:
        return ACCEPT, pymodel.as_double(value)
    except TypeError:
        return (REJECT,)
    except symx.PathAbort:
        raise
    except Exception as e:
        return RAISE, type(e).__name__


def ref_complex(value):
    try:
        return ACCEPT, pymodel.as_ccomplex(value)
    except TypeError:
        return (REJECT,)
    except symx.PathAbort:
        raise
    except Exception as e:
        return RAISE, type(e).__name__


def dom_int(ex, st, v):
    return ref_index(v)


def dom_float(ex, st, v):
    return ref_float(v)


def dom_complex(ex, st, v):
    return ref_complex(v)


def dom_str(ex, st, v):
    return (ACCEPT, v) if pymodel.m_isinstance(v, str) else (REJECT,)


def dom_bytes(ex, st, v):
    return (ACCEPT, v) if pymodel.m_isinstance(v, bytes) else (REJECT,)


def dom_bool(ex, st, v):
    if pymodel.m_type(v) is pymodel.BoolShadow or type(v) is bool:
        return ACCEPT, v
    if isinstance(v, np.bool_):
        return ACCEPT, bool(v)
    return (REJECT,)


def dom_cint(ex, st, v):
    try:
        return ACCEPT, pymodel.m_int(v)
    except (TypeError, ValueError):
        return (REJECT,)
    except symx.PathAbort:
        raise
    except Exception as e:
        return ("reject-any", type(e).__name__)     # fast path: TraitError; documented as 'cast with int()'


def dom_cfloat(ex, st, v):
    try:
        return ACCEPT, pymodel.m_float(v)
    except (TypeError, ValueError):
        return (REJECT,)
    except symx.PathAbort:
        raise
    except Exception as e:
        return ("reject-any", type(e).__name__)


def dom_trait_float(ex, st, v):
    """Trait(float) / TraitCoerceType(float), as documented: a float is stored as it is; an int is COERCED (widening only)"""
    if pymodel.m_isinstance(v, float):
        return ACCEPT, v
    if pymodel.m_isinstance(v, int):
        try:
            return ACCEPT, pymodel.m_float(v)
        except symx.PathAbort:
            raise
        except Exception as e:
            return RAISE, type(e).__name__
    return (REJECT,)


def dom_trait_complex(ex, st, v):
    if pymodel.m_isinstance(v, complex):
        return ACCEPT, v
    if pymodel.m_isinstance(v, (int, float)):
        try:
            return ACCEPT, pymodel.m_complex(v)
        except symx.PathAbort:
            raise
        except Exception as e:
            return RAISE, type(e).__name__
    return (REJECT,)


def in_range(ex, x, lo, hi, xl, xh, isfloat):
    """documented range criterion as a decision on the (possibly symbolic) value"""
    if isfloat:
        fx = symx.fpval(x)
        conds = [z3.Not(z3.fpIsNaN(fx))]
        if lo is not None:
            conds.append(z3.fpLT(symx.fpval(lo), fx) if xl else z3.fpLEQ(symx.fpval(lo), fx))
        if hi is not None:
            conds.append(z3.fpLT(fx, symx.fpval(hi)) if xh else z3.fpLEQ(fx, symx.fpval(hi)))
        c = z3.simplify(z3.And(*conds))
        if z3.is_true(c):
            return True
        if z3.is_false(c):
            return False
        return ex.decide(c) if ex.sym else bool(z3.is_true(c))
    ok = True
    if lo is not None:
        ok = ok and bool((lo < x) if xl else (lo <= x))
    if hi is not None:
        ok = ok and bool((x < hi) if xh else (x <= hi))
    return ok


def dom_range_float(ex, st, v):
    r = ref_float(v)
    if r[0] != ACCEPT:
        return r
    return (ACCEPT, r[1]) if in_range(ex, r[1], st["lo"], st["hi"], st["xl"], st["xh"], True) else (REJECT,)


def dom_range_int(ex, st, v):
    r = ref_index(v)
    if r[0] != ACCEPT:
        return r
    return (ACCEPT, r[1]) if in_range(ex, r[1], st["lo"], st["hi"], st["xl"], st["xh"], False) else (REJECT,)


def dom_string(ex, st, v):
    if isinstance(v, str):
        v = str(v)           # documented: the value is converted with str() (a str subclass becomes a plain str)
    else:
        if isinstance(v, (int, float, complex)) and not symx.is_proxy(v):
            v = str(v)       # documented: numbers are converted with str()
        else:
            return (REJECT,) if not symx.is_proxy(v) else ("skip",)
    n = len(v)
    lo, hi = st["minlen"], st["maxlen"]
    lo = lo if not isinstance(lo, int) or lo > 0 else 0
    ok = bool(lo <= n) if not isinstance(lo, int) else lo <= n
    # effective bounds: minlen' = max(0, minlen), maxlen' = max(minlen', maxlen)
    mn = st["minlen"]
    mn0 = mn if bool(mn > 0) else 0
    mx = st["maxlen"]
    mx0 = mx if bool(mx > mn0) else mn0
    if st.get("regex"):
        import re
        if re.match(st["regex"], v) is None:
            return (REJECT,)
    return (ACCEPT, v) if bool(mn0 <= n) and bool(n <= mx0) else (REJECT,)


def dom_enum(values):
    def dom(ex, st, v):
        try:
            for item in values:
                if pymodel.py_eq(item, v):
                    return ACCEPT, v
        except symx.PathAbort:
            raise
        except Exception:
            return (REJECT,)
        return (REJECT,)
    return dom


def dom_tuple_int_float(ex, st, v):
    if not pymodel.m_isinstance(v, tuple) or len(v) != 2:
        return (REJECT,)
    a, b = ref_index(v[0]), ref_float(v[1])
    for r in (a, b):
        if r[0] == REJECT:
            return (REJECT,)
    for r in (a, b):
        if r[0] == RAISE:
            return r
    return ACCEPT, (a[1], b[1])


def dom_instance(cls, allow_none):
    def dom(ex, st, v):
        if v is None:
            return (ACCEPT, v) if allow_none else (REJECT,)
        return (ACCEPT, v) if pymodel.m_isinstance(v, cls) else (REJECT,)
    return dom


def dom_type(cls, allow_none):
    def dom(ex, st, v):
        if v is None:
            return (ACCEPT, v) if allow_none else (REJECT,)
        return (ACCEPT, v) if isinstance(v, type) and issubclass(v, cls) else (REJECT,)
    return dom


def dom_callable(allow_none):
    def dom(ex, st, v):
        if v is None:
            return (ACCEPT, v) if allow_none else (REJECT,)
        return (ACCEPT, v) if (not symx.is_proxy(v) and callable(v)) else (REJECT,)
    return dom


def first_of(*doms):
    """compound: accept iff some alternative accepts; result of the first accepting one"""
    def dom(ex, st, v):
        raised = None
        for d in doms:
            r = d(ex, st, v)
            if r[0] == ACCEPT:
                return r
            if r[0] == RAISE:
                return r         # the value's own protocol exception surfaces from the alternative that met it
        return (REJECT,)
    return dom


def dom_map(mapping):
    def dom(ex, st, v):
        try:
            for k in mapping:
                if pymodel.py_eq(k, v):
                    hash(v) if not symx.is_proxy(v) else None
                    return ACCEPT, v
        except symx.PathAbort:
            raise
        except Exception:
            return (REJECT,)
        return (REJECT,)
    return dom


MAPPING2 = {"yes": 1, "abc": 0}


def dom_validated_tuple(ex, st, v):
    """ValidatedTuple(CFloat, CFloat, fvalidate=t[0] < t[1]): both items castable to float, and the CONVERTED pair ordered"""
    if not isinstance(v, tuple) or len(v) != 2:
        return (REJECT,)
    try:
        conv = (float(v[0]), float(v[1]))
    except (TypeError, ValueError):
        return (REJECT,)
    return (ACCEPT, conv) if conv[0] < conv[1] else (REJECT,)


def dom_map_compound(ex, st, v):
    """Trait('yes', {'yes': 1, 'abc': 0}, List(Int)): a key of the mapping, or a list of ints (unhashable, so it can never be
    a key; its shadow value is the list itself)"""
    if isinstance(v, str) and v in MAPPING2:          # membership is by == / hash: str subclasses equal to a key are keys
        return ACCEPT, v
    if type(v) is list and all(type(i) is int for i in v):
        return ACCEPT, v
    return (REJECT,)


# ---- configurations ---------------------------------------------------------------------------------------------
def st_none(ex):
    return {}


def mk_range_float(ex):
    st = {"xl": ex.flag("exclude_low"), "xh": ex.flag("exclude_high")}
    lo_none, hi_none = ex.flag("low.none"), ex.flag("high.none")
    if lo_none and hi_none:
        hi_none = False
    st["lo"] = None if lo_none else ex.fp("low")
    st["hi"] = None if hi_none else ex.fp("high")
    for b in (st["lo"], st["hi"]):
        if b is not None:
            ex.assume(z3.Not(z3.fpIsNaN(b.f)) if ex.sym else b == b)
    if ex.sym:
        t = Range(0.0, 1.0, exclude_low=st["xl"], exclude_high=st["xh"])
        st["patch"] = ("float", st["lo"], st["hi"])
    else:
        t = Range(st["lo"], st["hi"], exclude_low=st["xl"], exclude_high=st["xh"])
    return t, st


def mk_base_range(kind):
    """BaseRange (validated by the Python float_validate / int_validate) built by the REAL constructor on symbolic bounds"""
    def mk(ex):
        st = {"xl": ex.flag("exclude_low"), "xh": ex.flag("exclude_high")}
        lo_none, hi_none = ex.flag("low.none"), ex.flag("high.none")
        if lo_none and hi_none:
            hi_none = False
        mkb = ex.fp if kind == "float" else ex.int
        st["lo"] = None if lo_none else mkb("low")
        st["hi"] = None if hi_none else mkb("high")
        if kind == "float":
            for b in (st["lo"], st["hi"]):
                if b is not None:
                    ex.assume(z3.Not(z3.fpIsNaN(b.f)) if ex.sym else b == b)
        from traits.api import BaseRange
        with cenv.python_side_env() if ex.sym else _Null():
            t = BaseRange(st["lo"], st["hi"], exclude_low=st["xl"], exclude_high=st["xh"])
        return t, st
    return mk


PREFIX_VALUES = ["yes", "yesterday", "no", "none", "maybe", "m", ""]     # nested prefixes, a one-letter and an empty member
PREFIX_MAP = {"yes": 1, "yesterday": 2, "no": 0, "none": None, "maybe": 0.5}


class KStr(str):
    """environment model: a member string whose startswith() also answers for a symbolic prefix (str.startswith is a C method)"""

    def startswith(self, p, *a):
        if isinstance(p, symx.SymStr):
            return symx.SymBool(z3.simplify(z3.PrefixOf(p.e, z3.StringVal(str(self)))))
        return str.startswith(self, p, *a)


class ModelSet(frozenset):
    """environment model: membership of a (possibly symbolic) string decided by == (frozenset.__contains__ hashes in C)"""

    def __contains__(self, x):
        if symx.is_proxy(x) or isinstance(x, symx.SymStr):
            return any(bool(x == k) for k in frozenset.__iter__(self))
        return frozenset.__contains__(self, x)


def mk_prefix(kind):
    def mk(ex):
        from traits.api import PrefixList, PrefixMap
        if kind == "list":
            t = PrefixList(list(PREFIX_VALUES))
            if ex.sym:
                t.values = [KStr(v) for v in t.values]
                t._values_as_set = ModelSet(t.values)
        else:
            t = PrefixMap(dict(PREFIX_MAP))
            if ex.sym:
                t.map = pymodel.ModelDict({KStr(k): v for k, v in t.map.items()})
        return t, {}
    return mk


def dom_prefix(members):
    """documented: a member, or a prefix of exactly one member; the stored value is the completed member"""
    def dom(ex, st, v):
        if isinstance(v, symx.SymStr):
            for k in members:
                if ex.decide(v.e == z3.StringVal(k)):
                    return ACCEPT, k
            m = [k for k in members if ex.decide(z3.PrefixOf(v.e, z3.StringVal(k)))]
            return (ACCEPT, m[0]) if len(m) == 1 else (REJECT,)
        if not isinstance(v, str):
            return (REJECT,)
        if v in members:
            return ACCEPT, v
        m = [k for k in members if k.startswith(v)]
        return (ACCEPT, m[0]) if len(m) == 1 else (REJECT,)
    return dom


def mk_range_float_const(ex):
    lo, hi = [(0.0, 1.0), (-2.5, 9007199254740993.0), (None, 1e10), (-0.0, None)][ex.choice("bounds", 4)]
    st = {"xl": ex.flag("exclude_low"), "xh": ex.flag("exclude_high"), "lo": lo, "hi": hi}
    return Range(lo, hi, exclude_low=st["xl"], exclude_high=st["xh"]), st


def mk_range_int(ex):
    st = {"xl": ex.flag("exclude_low"), "xh": ex.flag("exclude_high")}
    lo_none, hi_none = ex.flag("low.none"), ex.flag("high.none")
    if lo_none and hi_none:
        hi_none = False
    st["lo"] = None if lo_none else ex.int("low")
    st["hi"] = None if hi_none else ex.int("high")
    if ex.sym:
        t = Range(0, 10, exclude_low=st["xl"], exclude_high=st["xh"])
        t._low, t._high = st["lo"], st["hi"]
    else:
        t = Range(st["lo"], st["hi"], exclude_low=st["xl"], exclude_high=st["xh"])
    return t, st


def mk_string(regex=""):
    def mk(ex):
        st = {"minlen": ex.int("minlen"), "maxlen": ex.int("maxlen"), "regex": regex}
        # the real constructor (max(0, minlen), max(minlen, maxlen), validator selection in _init) runs on the proxies
        t = String(minlen=st["minlen"], maxlen=st["maxlen"], regex=regex)
        return t, st
    return mk


def simple(factory):
    return lambda ex: (factory(), {})


MAPPING = {"yes": 1, "abc": 0, 1: "one", 2.5: None}
STRS = ["str", "strsub"]
CONFIGS = {
    "Int": (simple(Int), dom_int, NUMERIC + TEXT + ["object", "tuple_1"]),
    "Float": (simple(Float), dom_float, FNUM + TEXT + ["object"]),
    "Complex": (simple(Complex), dom_complex, FNUM + ["str", "object"]),
    "Str": (simple(Str), dom_str, ["none", "int", "float"] + TEXT + ["object"]),
    "Bytes": (simple(Bytes), dom_bytes, ["none", "int"] + TEXT),
    "Bool": (simple(Bool), dom_bool, ["none", "bool", "int", "float", "npbool", "npint", "str"]),
    "CInt": (simple(CInt), dom_cint, NUMERIC + TEXT + ["object"]),
    "CFloat": (simple(CFloat), dom_cfloat, FNUM + TEXT + ["object"]),
    # the pure-Python counterparts (no fast validator: C hands the value to the Python validate method)
    "BaseInt": (simple(lambda: __import__("traits.api", fromlist=["x"]).BaseInt()), dom_int, ["none", "bool", "int", "intsub", "float", "indexobj", "npint", "str", "object"]),
    "BaseFloat": (simple(lambda: __import__("traits.api", fromlist=["x"]).BaseFloat()), dom_float, ["none", "bool", "int64", "inthuge", "float", "floatsub", "floatobj", "indexobj", "npfloat", "str", "object"]),
    "BaseComplex": (simple(lambda: __import__("traits.api", fromlist=["x"]).BaseComplex()), dom_complex, ["none", "bool", "int64", "float", "complex", "complexsub", "complexobj", "str"]),
    "BaseStr": (simple(lambda: __import__("traits.api", fromlist=["x"]).BaseStr()), dom_str, ["none", "int", "float"] + TEXT + ["object"]),
    "BaseBool": (simple(lambda: __import__("traits.api", fromlist=["x"]).BaseBool()), dom_bool, ["none", "bool", "int", "float", "npbool", "str"]),
    "BaseCInt": (simple(lambda: __import__("traits.api", fromlist=["x"]).BaseCInt()), dom_cint, ["none", "bool", "int", "float", "str", "object"]),
    "BaseCFloat": (simple(lambda: __import__("traits.api", fromlist=["x"]).BaseCFloat()), dom_cfloat, ["none", "bool", "int64", "float", "str", "object"]),
    "BaseRangeFloat": (mk_base_range("float"), dom_range_float, ["none", "bool", "float", "floatsub", "floatobj", "npfloat", "str", "object"]),
    "BaseRangeInt": (mk_base_range("int"), dom_range_int, ["none", "bool", "int", "intsub", "float", "indexobj", "npint", "str"]),
    # validated properties: the setter must receive the documented conversion
    "Property:Float": (simple(Float), dom_float, ["none", "bool", "int64", "float", "floatsub", "floatobj", "indexobj", "str"]),
    "Property:Int": (simple(Int), dom_int, ["none", "bool", "int", "intsub", "indexobj", "float", "str"]),
    "Property:CInt": (simple(CInt), dom_cint, ["none", "bool", "int", "float", "str"]),
    "Property:RangeFloatConst": (mk_range_float_const, dom_range_float, ["bool", "int64", "indexobj"]),
    # definitions derived by calling a trait type with other metadata (clone)
    "InstanceA_clone_nonone": (simple(lambda: Instance(A)(allow_none=False)), dom_instance(A, False), ["none", "instA", "instB", "instU", "object"]),
    "InstanceA_clone_none": (simple(lambda: Instance(A, allow_none=False)(allow_none=True)), dom_instance(A, True), ["none", "instA", "instU", "object"]),
    # a tuple whose custom predicate is documented to see the CONVERTED items
    "ValidatedTupleCFloat": (simple(lambda: __import__("traits.api", fromlist=["x"]).ValidatedTuple(
        CFloat, CFloat, fvalidate=lambda t: t[0] < t[1])), dom_validated_tuple, ["tuple_numstr", "none"]),
    # prefix uniqueness, decided for EVERY string (z3 String, length <= 8)
    "PrefixList": (mk_prefix("list"), dom_prefix(PREFIX_VALUES), ["symstr", "strsub", "none", "int", "bytes", "object"]),
    "PrefixMap": (mk_prefix("map"), dom_prefix(list(PREFIX_MAP)), ["symstr", "strsub", "none", "int", "object"]),
    # Trait(<type>): the value itself, or the documented widening coercion of it
    "TraitFloatType": (simple(lambda: Trait(float)), dom_trait_float, ["none", "bool", "int64", "intsub64", "float", "floatsub", "complex", "str", "object"]),
    "TraitComplexType": (simple(lambda: Trait(complex)), dom_trait_complex, ["none", "bool", "int64", "float", "floatsub", "complex", "complexsub", "str"]),
    "RangeFloat": (mk_range_float, dom_range_float, FLOATISH + ["str", "object"]),
    "RangeFloatConst": (mk_range_float_const, dom_range_float, INTISH),
    "RangeInt": (mk_range_int, dom_range_int, ["none", "bool", "int", "intsub", "float", "indexobj", "npint", "str", "object"]),
    "String": (mk_string(), dom_string, STRS + ["str6", "none", "object", "list"]),
    "StringRegex": (mk_string("^[a-z]+$"), dom_string, STRS + ["str6"]),
    "EitherNoneTuple": (simple(lambda: Either(None, Tuple(Int, Float))),
                        first_of(dom_instance(type(None), True), dom_tuple_int_float),
                        ["none", "tuple_if", "tuple_fi", "tuple_bi", "tuple_1", "int"]),
    "EnumMixed": (simple(lambda: Enum(None, "abc", 2.5, 0, (1, 2))), dom_enum((None, "abc", 2.5, 0, (1, 2))),
                  ["none", "bool", "int", "float", "floatsub", "str", "strsub", "tuple_bi", "object", "list"]),
    "Map": (simple(lambda: Map(dict(MAPPING))), dom_map(MAPPING), ["none", "bool", "int", "float", "str", "object", "list"]),
    "MapCompound": (simple(lambda: Trait("yes", dict(MAPPING2), List(Int))), dom_map_compound,
                    ["none", "int", "str", "strsub", "list", "list_bad", "object"]),
    "TupleIntFloat": (simple(lambda: Tuple(Int, Float)), dom_tuple_int_float, ["tuple_if", "tuple_fi", "tuple_bi", "tuple_1", "tuple_3", "none", "int", "list"]),
    "InstanceA": (simple(lambda: Instance(A)), dom_instance(A, True), ["none"] + OBJECTS + ["int"]),
    "InstanceA_nonone": (simple(lambda: Instance(A, allow_none=False)), dom_instance(A, False), ["none", "instA", "instB", "instU", "object"]),
    "TypeA": (simple(lambda: Type(A)), dom_type(A, True), ["none", "classA", "classB", "classU", "instA", "int"]),
    "TypeA_nonone": (simple(lambda: Type(A, allow_none=False)), dom_type(A, False), ["none", "classA", "classU"]),
    "Callable_nonone": (simple(lambda: Callable(allow_none=False)), dom_callable(False), ["none", "callable", "classA", "int", "object"]),
    "EitherIntStr": (simple(lambda: Either(Int, Str)), first_of(dom_int, dom_str), NUMERIC + TEXT + ["object"]),
    "UnionIntFloat": (simple(lambda: Union(Int, Float)), first_of(dom_int, dom_float), FNUM + ["str", "object"]),
    "UnionNoneRange": (simple(lambda: Union(None, Range(0.0, 1.0, exclude_high=True))),
                       first_of(dom_instance(type(None), True),
                                lambda ex, st, v: dom_range_float(ex, {"lo": 0.0, "hi": 1.0, "xl": False, "xh": True}, v)),
                       FLOATISH + ["int64", "str"]),
}


# ---- the governing definition reached by a ROUTE other than a plain class attribute ------------------------------------------
# chain / chainproto: the assigned attribute defers (renaming first hop) through two objects to the attribute that carries the
# definition; wild: the name is governed by an inherited wildcard while the subclass declares a shorter wildcard of another type;
# subprop: a validated Property of a base class whose setter the subclass overrides; subdefault: the subclass re-declares the
# attribute with a plain default value (same definition, new default)
ROUTES = ("chain", "chainproto", "wild", "subprop", "subdefault", "wildadded", "onecharprefix")
ROUTE_INNER = {"Int": ["none", "bool", "int", "intsub", "indexobj", "float", "str"],
               "Float": ["none", "bool", "int64", "float", "floatsub", "floatobj", "str"],
               "RangeFloatConst": ["bool", "int64", "indexobj"]}
for _r in ROUTES:
    for _inner, _kinds in ROUTE_INNER.items():
        CONFIGS["Via:%s:%s" % (_r, _inner)] = (CONFIGS[_inner][0], CONFIGS[_inner][1], _kinds)


def build_route(route, ttype, inner):
    """-> (object assigned to, attribute name assigned, object and name carrying the definition, state() -> comparable dict in which
    the governed value sits under 'x', names acceptable in the TraitError)"""
    from traits.api import Property, DelegatesTo, PrototypedFrom
    if route in ("chain", "chainproto"):
        kind = DelegatesTo if route == "chain" else PrototypedFrom

        class C(A):
            y = ttype
            x = Str("decoy")
            other = Int(7)

        class B_(A):
            c = Instance(C)
            y = kind("c")

        class Owner(A):
            b = Instance(B_)
            x = kind("b", prefix="y")
            other = Int(7)
        c = C()
        b = B_(c=c)
        o = Owner(b=b)

        def state():
            d = {k: v for k, v in o.__dict__.items() if k not in ("b", "x")}
            d.update({"b." + k: v for k, v in b.__dict__.items() if k != "c"})
            d.update({"c." + k: v for k, v in c.__dict__.items() if k != "y"})
            if route == "chain":
                if "y" in c.__dict__:
                    d["x"] = c.__dict__["y"]
                if "x" in o.__dict__:
                    d["local.x"] = o.__dict__["x"]
            else:
                if "x" in o.__dict__:
                    d["x"] = o.__dict__["x"]
                if "y" in c.__dict__:
                    d["c.y"] = c.__dict__["y"]
            return d
        return o, "x", c, "y", state, ("x", "y")
    if route == "wild":
        class Base(A):
            limit_max_ = ttype

        class Owner(Base):
            limit_ = Str("s")
            other = Int(7)
        o = Owner()

        def state():
            d = dict(o.__dict__)
            if "limit_max_x" in d:
                d["x"] = d.pop("limit_max_x")
            return d
        return o, "limit_max_x", o, "limit_max_x", state, ("limit_max_x",)
    if route == "wildadded":
        # the wildcards are added to the finished class, the longer one first (the prefix table must stay longest-first)
        class Owner(A):
            other = Int(7)
        Owner.add_class_trait("limit_max_", ttype)
        Owner.add_class_trait("limit_", Str("s"))
        o = Owner()

        def state():
            d = dict(o.__dict__)
            if "limit_max_x" in d:
                d["x"] = d.pop("limit_max_x")
            return d
        return o, "limit_max_x", o, "limit_max_x", state, ("limit_max_x",)
    if route == "onecharprefix":
        # a 'prefix*' deferral whose prefix is a single character: the target is '_' + name
        from traits.api import DelegatesTo as _D

        class T(A):
            _x = ttype
            x = Str("decoy")
            other = Int(7)

        class Owner(A):
            t = Instance(T)
            x = _D("t", prefix="_*")
            other = Int(7)
        t = T()
        o = Owner(t=t)

        def state():
            d = {k: v for k, v in o.__dict__.items() if k not in ("t", "x")}
            d.update({"t." + k: v for k, v in t.__dict__.items() if k != "_x"})
            if "_x" in t.__dict__:
                d["x"] = t.__dict__["_x"]
            if "x" in o.__dict__:
                d["local.x"] = o.__dict__["x"]
            return d
        return o, "x", t, "_x", state, ("x", "_x")
    if route == "subprop":
        class Base(A):
            x = Property(ttype)
            other = Int(7)

            def _get_x(self):
                return self.__dict__.get("x_store")

            def _set_x(self, value):
                self.__dict__["x_store"] = value

        class Owner(Base):
            def _set_x(self, value):           # the subclass overrides the setter only: the inherited validation stays
                self.__dict__["x_store"] = value
        o = Owner()

        def state():
            d = dict(o.__dict__)
            if "x_store" in d:
                d["x"] = d.pop("x_store")
            return d
        return o, "x", o, "x", state, ("x",)
    if route == "subdefault":
        class Base(A):
            x = ttype
            other = Int(7)

        class Owner(Base):
            x = 3 if inner == "Int" else 0.5
        o = Owner()
        return o, "x", o, "x", (lambda: dict(o.__dict__)), ("x",)
    raise ValueError(route)


def patch_symbolic(it, o, ttype, st):
    """symbolic trait parameters that the real constructors cannot take: put them into the abstract record"""
    ct = o.trait("x")
    t = cenv.trait_struct_from_ctrait(it, ct)
    p = st.get("patch")
    if p and p[0] == "float":
        lo, hi = p[1], p[2]
        h = ct.handler
        h._low, h._high = lo, hi
        t.py_validate = (4, lo, hi, (1 if st["xl"] else 0) | (2 if st["xh"] else 0))
    for h in getattr(ct.handler, "handlers", ()) or ():
        pass
    return t


class _InfoStub:
    def __enter__(self):
        self.saved = (tt.String.info, tt.BaseRange.info)
        tt.String.info = lambda self: "a string (description stubbed)"
        tt.BaseRange.info = lambda self: "a number in a range (description stubbed)"

    def __exit__(self, *a):
        tt.String.info, tt.BaseRange.info = self.saved


def patch_members(handler):
    c03.patch_tuple_members(handler)
    if isinstance(handler, Tuple) and handler.types and not isinstance(handler.types[0], cenv.CTraitModel):
        handler.types = tuple(cenv.CTraitModel(ct) for ct in handler.types)
    if isinstance(handler, Map) and not isinstance(handler.map, pymodel.ModelDict):
        handler.map = pymodel.ModelDict(handler.map)
    if isinstance(handler, Union):
        handler.list_ctrait_instances = [cenv.CTraitModel(ct) for ct in handler.list_ctrait_instances]


def make_harness(cfgname, kind):
    mk, dom, _kinds = CONFIGS[cfgname]
    as_property = cfgname.startswith("Property:")
    route = cfgname.split(":")[1] if cfgname.startswith("Via:") else None

    def harness(ex):
        ttype, st = mk(ex)
        aname, names_ok, state = "x", ("x",), None

        if route:
            o, aname, tobj, tname, state, names_ok = build_route(route, ttype, cfgname.split(":")[2])
        elif as_property:
            # x = Property(<inner trait>): the value is validated by the inner trait and the SETTER receives the validated value
            from traits.api import Property

            class Owner(A):
                x = Property(ttype)
                other = Int(7)

                def _get_x(self):
                    return self.__dict__.get("x_store")

                def _set_x(self, value):
                    self.__dict__["x_store"] = value
        else:
            class Owner(A):
                x = ttype
                other = Int(7)

        if not route:
            o = Owner()
            tobj, tname = o, "x"
        if state is None:
            state = lambda: dict(o.__dict__)
        log = []
        quiet = cfgname in ("Map", "Int", "RangeInt") and ex.flag("notifications_off")
        if quiet:
            o._trait_change_notify(False)      # what trait_setq / trait_set(trait_change_notify=False) do
        o.on_trait_change(lambda obj, name, old, new: log.append(name), aname)
        o.on_trait_change(lambda obj, name, old, new: log.append(name), "other")
        before = state()
        value = mk_value(ex, kind)
        err = None
        if ex.sym:
            it = cenv.new_interp()
            if not route:
                patch_symbolic(it, o, ttype, st)
            patch_members(tobj.trait(tname).handler)
            os_ = cenv.hastraits_struct(it, o)
            with cenv.python_side_env(), _InfoStub():
                rc = it.call("has_traits_setattro", [os_, aname, value])
            if rc != 0:
                if it.st.err is None:
                    raise csym.MemSafety("setattr returned -1 without an exception")
                err = it.st.err
            elif it.st.err is not None:
                raise csym.MemSafety("setattr returned 0 with an exception set")
        else:
            try:
                how = ex.choice("entry", 3) if not route else ex.choice("entry", 2)
                if how == 0:
                    setattr(o, aname, value)
                elif how == 1:
                    o.trait_set(**{aname: value})
                else:
                    # constructor keyword: a fresh object; mirror its state into `o` for the common oracle below
                    o2 = Owner.__new__(Owner)
                    o2.on_trait_change(lambda obj, name, old, new: log.append(name), "x")
                    try:
                        Owner.__init__(o2, x=value)
                    finally:
                        o = o2
                        before = {k: v for k, v in before.items()}
                rc = 0
            except Exception as e:
                rc = -1
                err = (type(e), e)
        with cenv.python_side_env() if ex.sym else _Null():
            d = dom(ex, st, value)
        if d[0] == "skip":
            return {"rc": rc}
        after = state()
        if as_property:
            # what the setter was given plays the role of the stored value
            for dct in (before, after):
                if "x_store" in dct:
                    dct["x"] = dct.pop("x_store")
        if rc == 0:
            ex.check(d[0] == ACCEPT, "accepted value lies in the declared domain")
            if d[0] == ACCEPT and cfgname == "MapCompound" and type(d[1]) is list:
                from traits.trait_list_object import TraitListObject
                ex.check(isinstance(after.get("x"), TraitListObject) and list(after["x"]) == d[1],
                         "stored value is the documented conversion (a validating list with the same items)")
            elif d[0] == ACCEPT and cfgname in ("PrefixList", "PrefixMap"):
                got = after.get("x")
                if isinstance(got, symx.SymStr):
                    ex.check(got.e == z3.StringVal(d[1]), "stored value is the completed member")
                else:
                    ex.check(isinstance(got, str) and str(got) == d[1], "stored value is the completed member")
            elif d[0] == ACCEPT:
                ex.check("x" in after and c03.same_result(after["x"], d[1]) is not False and
                         _cond(c03.same_result(after["x"], d[1]), ex),
                         "stored value is the documented conversion (same exact type, equal payload)")
            ex.check(after.get("other", before.get("other")) == before.get("other", after.get("other")),
                     "other attributes untouched")
            if cfgname == "MapCompound" and d[0] == ACCEPT:
                want = MAPPING2[d[1]] if isinstance(d[1], str) else d[1]
                ex.check("x_" in after and after["x_"] == want, "mapped shadow attribute holds the mapped value (the value itself "
                                                                "for the unmapped alternative)")
            if cfgname == "PrefixMap" and d[0] == ACCEPT:
                want = PREFIX_MAP[d[1]]
                ex.check("x_" in after and (after["x_"] is want or after["x_"] == want), "mapped shadow attribute holds the mapped value")
            if cfgname == "Map" and d[0] == ACCEPT:
                want = pymodel.ModelDict(MAPPING)[d[1]]
                ex.check("x_" in after and after["x_"] is want or after.get("x_") == want,
                         "mapped shadow attribute holds the mapped value")
        else:
            ename = err[0].__name__
            if d[0] == ACCEPT:
                ex.check(False, "no spurious rejection of a value inside the declared domain")
            elif d[0] == REJECT:
                ex.check(ename == "TraitError", "a value outside the domain is rejected with TraitError")
            elif d[0] == "reject-any":
                ex.check(ename in ("TraitError", d[1]), "cast failure surfaces as TraitError or the converter's exception")
            else:
                ex.check(ename in (d[1], "TraitError") if d[1] != "OtherError" else True,
                         "only TraitError or the value's own conversion exception may surface")
            if ename == "TraitError":
                ex.check(any("'%s'" % n_ in str(err[1]) for n_ in names_ok), "the TraitError names the attribute")
            ex.check({k: v for k, v in after.items() if k != "x"} == {k: v for k, v in before.items() if k != "x"}
                     and ("x" in after) == ("x" in before) and (("x" not in after) or after["x"] is before["x"]),
                     "rejected assignment leaves every attribute exactly as it was")
            ex.check(log == [], "rejected assignment notifies nobody")
        return {"rc": rc, "err": err[0].__name__ if err else None,
                "stored": Ob(after["x"]) if (rc == 0 and "x" in after and cfgname not in ("String", "PrefixList", "PrefixMap")) else None}

    return harness


class _Null:
    def __enter__(self):
        return self

    def __exit__(self, *a):
        return False


def _cond(c, ex):
    """turn same_value's answer (bool or z3 condition) into something check() takes"""
    if c is True or c is False:
        return c
    return c if ex.sym else bool(z3.is_true(z3.simplify(c)))


# ---- dynamic Range (bounds / default named by other traits): histories with symbolic integers -----------------------------
def dynrange_harness(k, with_default):
    """The real BaseRange._get / _set / _validate / _set_value run natively on z3 Int proxies (the compiled property machinery
    only forwards the pointers); the bounds and the default come from Any traits, so they can hold proxies as well.
    Reference model (documented behaviour): an accepted assignment is what later reads return, clamped to the CURRENT bounds;
    until the first assignment or read the value follows the default expression; a rejected assignment changes nothing."""
    from traits.api import Any, TraitError

    def harness(ex):
        class Model(HasTraits):
            lo = Any(0)
            hi = Any(10)
            preset = Any(3)
            level = Range(low="lo", high="hi", value="preset") if with_default else Range(low="lo", high="hi")

        m = Model()
        events = []
        m.on_trait_change(lambda obj, n_, old, new: events.append((old, new)), "level")
        ref = {"lo": 0, "hi": 10, "preset": 3, "cache": None}
        dflt = (lambda: ref["preset"]) if with_default else (lambda: ref["lo"])
        trace = []

        def clamp(v):
            if bool(v < ref["lo"]):
                return ref["lo"]
            if bool(v > ref["hi"]):
                return ref["hi"]
            return v

        env = cenv.python_side_env() if ex.sym else _Null()
        with env, (_InfoStub() if ex.sym else _Null()):
            for step in range(k):
                op = ex.choice("op%d" % step, 5)
                if op == 0:
                    v = ex.int("v%d" % step)
                    inside = bool(ref["lo"] <= v) and bool(v <= ref["hi"])
                    del events[:]
                    before = dict(m.__dict__)
                    exc = None
                    try:
                        m.level = v
                    except TraitError as e:
                        exc = e
                    trace.append("level=")
                    if inside:
                        ex.check(exc is None, "no spurious rejection of a value inside the current bounds")
                        old = ref["cache"] if ref["cache"] is not None else dflt()
                        ref["cache"] = v
                        if exc is None:
                            ex.check(len(events) == (1 if bool(v != old) else 0), "one change notification iff the value changed")
                    else:
                        ex.check(exc is not None and "'level'" in str(exc), "a value outside the current bounds is rejected with a "
                                                                             "TraitError naming the attribute")
                        after = dict(m.__dict__)
                        # (reading the bounds for the error message may materialise their defaults: not a change)
                        ex.check(all(k_ in after and after[k_] is v_ for k_, v_ in before.items())
                                 and all(k_ in before or k_ in ("lo", "hi", "preset") for k_ in after),
                                 "rejected assignment leaves every attribute exactly as it was")
                        ex.check(events == [], "rejected assignment notifies nobody")
                elif op in (1, 2, 3):
                    name = {1: "preset", 2: "lo", 3: "hi"}[op]
                    if name == "preset" and not with_default:
                        continue
                    v = ex.int("v%d" % step)
                    new = dict(ref, **{name: v})
                    ex.assume(new["lo"] <= new["hi"])
                    if name == "preset":
                        ex.assume(new["lo"] <= v)
                        ex.assume(v <= new["hi"])
                    setattr(m, name, v)
                    ref[name] = v
                    trace.append(name + "=")
                else:
                    got = m.level
                    if ref["cache"] is None:
                        ref["cache"] = dflt()          # the default is fixed by the first read
                    want = clamp(ref["cache"])
                    ex.check(bool(got == want), "a read returns the last accepted assignment (else the default), clamped to the current bounds")
                    ex.check(bool(ref["lo"] <= got) and bool(got <= ref["hi"]), "no value outside the current bounds is ever readable")
                    trace.append("read")
            got = m.level
            if ref["cache"] is None:
                ref["cache"] = dflt()
            ex.check(bool(got == clamp(ref["cache"])), "a read returns the last accepted assignment (else the default), clamped to the current bounds")
        return {"trace": trace}

    return harness


def obligations(tier, build):
    cenv.load_program(build)
    obs = []
    K = 3 if tier == "quick" else 4
    for with_default in (True, False):
        obs.append(Obligation("DynamicRange/%s/k=%d" % ("value=name" if with_default else "default=low", K), dynrange_harness(K, with_default),
                              stubs=STUBS, bounds={"history length": K, "operations": ["assign", "change default", "change low", "change high", "read"],
                                                   "all integers": "unbounded Int", "bounds": "low <= high assumed"},
                              assumes=["low <= high after every bound change; the default-supplying trait stays inside the bounds"],
                              leverage="every assigned value, bound and default (z3 Int)", max_paths=50000, path_wall_s=120))
    for cfg, (mk, dom, kinds) in CONFIGS.items():
        for kind in kinds:
            obs.append(Obligation("%s/%s" % (cfg, kind), make_harness(cfg, kind), stubs=STUBS,
                                  bounds={"trait configuration": cfg, "value kind": kind,
                                          "numeric payloads / bounds": "unbounded Int / any Float64",
                                          "entry point": "has_traits_setattro (attribute assignment); trait_set and constructor "
                                                         "keywords only in the concrete witness replays"},
                                  leverage="numeric payloads, Range / String bounds, protocol outcomes",
                                  query_timeout_ms=30000, max_paths=5000, fast_fp=True))
    from props import _c01_array
    obs.extend(_c01_array.obligations(tier))
    return obs
