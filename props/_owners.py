"""Owner-backed containers (TraitListObject / TraitDictObject / TraitSetObject held by a real HasTraits object) for the
container properties C04-C07, with the full set of notification routes attached:

  * the legacy `<name>_items` handler (TraitListEvent / TraitDictEvent / TraitSetEvent) - it feeds the harness's event oracle,
  * a legacy whole-value handler (must stay silent for in-place operations),
  * TWO observe handlers on `<name>:items` (List/Dict/SetChangeEvent built by the observation event factories), and a THIRD one
    registered through a metadata filter (`+vt_tag:items`) before the trait has a value; the value is assigned twice (the second
    time an equal container), so every observer has had to follow a re-assignment.

The `extra` closure returned by every factory discharges the *mirror* obligations: every observe handler receives exactly
one event per content-change notification, carrying the same delta; an event object that was delivered is not modified
afterwards (handlers may keep it, deferred dispatch reads it later).
The inner traits are Python-validated trait types, so symbolic items pass through CTrait.validate (which only forwards
the pointer) into Python code.
"""
import contextlib

from vt import symx, envmodels
from vt.envmodels import ListModel

import traits.trait_list_object as tlo
import traits.trait_types as tt
from traits.api import HasTraits, List, Dict, Set, TraitType, TraitError

STUBS = ["List.full_info / TraitType.full_info -> constant string during symbolic runs (error-message formatting of symbolic bounds)",
         "trait_types.TraitListObject -> class ATLO(TraitListObject, ListModel) (MRO insertion)"]


class ATLO(tlo.TraitListObject, ListModel):
    pass


@contextlib.contextmanager
def list_env():
    import props.c05 as c05
    import traits.ctraits as ctm
    import traits.trait_set_object as tso_
    import traits.trait_dict_object as tdo_
    old_tlo = tt.TraitListObject
    old_info = tt.List.full_info
    tt.TraitListObject = ATLO
    tt.List.full_info = lambda self, object, name, value: "a list (description stubbed)"
    # the compiled default_value_for builds List defaults from the class registered with the extension
    ctm._list_classes(ATLO, tso_.TraitSetObject, tdo_.TraitDictObject)
    try:
        with c05.sym_env():
            yield
    finally:
        ctm._list_classes(tlo.TraitListObject, tso_.TraitSetObject, tdo_.TraitDictObject)
        tt.TraitListObject = old_tlo
        tt.List.full_info = old_info


@contextlib.contextmanager
def list_env_const_hash():
    """list environment plus the constant-hash discipline (items that are compared by the container code)"""
    import props.c06 as c06
    with list_env():
        with c06.sym_env():
            yield


class PyValidated(TraitType):
    """inner trait whose validate() is Python code, so proxies pass through CTrait.validate unharmed"""

    def __init__(self, fn, plain=False, **metadata):
        self.fn = fn
        self.plain = plain          # reject with a bare TraitError("message") (as hand-written trait types do) instead of error()
        super().__init__(**metadata)

    def validate(self, object, name, value):
        try:
            return self.fn(value)
        except TraitError:
            if self.plain:
                raise TraitError("not acceptable")
            self.error(object, name, value)

    def full_info(self, object, name, value):
        return "a validated value"


def _owner_class(trait, falsy):
    ns = {"c": trait} if trait is not None else {}
    if falsy:
        # an owner that is falsy (defines __len__ / __bool__): presence, not truthiness, of the owner is what matters
        ns["__bool__"] = lambda self: False
        ns["__len__"] = lambda self: 0
    return type("Owner", (HasTraits,), ns)


def _make_owner(trait_factory, falsy, added, initial, pre=None):
    """the owner object with trait 'c' (declared on the class, or ADDED to the instance with add_trait), plus - for added traits -
    foreign twins whose own items listeners must stay silent: another object with an added 'c', and a second added trait 'c2' on
    the same object (dynamically added container traits must not share their items-event machinery)"""
    foreign = []
    if not added:
        o = _owner_class(trait_factory(), falsy)()
        if pre:
            pre(o)
        o.c = initial
        o.c = type(initial)(initial)        # an EQUAL container assigned again: observers follow the new object all the same
        return o, foreign
    o = _owner_class(None, falsy)()
    if pre:
        pre(o)
    if added == "over":
        # the name held a container trait of ANOTHER kind before (its items-event trait must not survive the redefinition)
        prior = trait_factory()
        o.add_trait("c", Dict(tt.Int, tt.Int, vt_tag=True) if isinstance(prior, (List, Set)) else List(tt.Int, vt_tag=True))
        o.c = {1: 2} if isinstance(prior, (List, Set)) else [1]
        o.add_trait("c2", List(tt.Int) if isinstance(prior, (Dict, Set)) else Set(tt.Int))
    o.add_trait("c", trait_factory())
    o.add_trait("c2", trait_factory())
    twin = _owner_class(None, falsy)()
    twin.add_trait("c", trait_factory())
    o.c = initial
    o.c = type(initial)(initial)
    twin.c = type(initial)(initial)
    o.c2 = type(initial)(initial)
    twin.on_trait_change(lambda obj, name, old, new: foreign.append(("twin", name)), "c_items")
    o.on_trait_change(lambda obj, name, old, new: foreign.append(("c2", name)), "c2_items")
    o._keep_twin = twin
    return o, foreign


def _attach_legacy(o, legacy, other, route):
    """route 'named': on_trait_change(h, 'c_items'); route 'anytrait': only an object-level handler registered without a name
    (the items event reaches it through the object's own notifier list)"""
    if route == "named":
        o.on_trait_change(legacy, "c_items")
        o.on_trait_change(lambda obj, name, old, new: other.append(name), "c")
    else:
        def anyh(obj, name, old, new):
            if name == "c_items":
                legacy(obj, name, old, new)
            elif name == "c":
                other.append(name)
        o.on_trait_change(anyh)


def _same_items(a, b):
    return len(a) == len(b) and all(x is y for x, y in zip(a, b))


def _same_members(a, b):
    """the same objects, in any order (identity: no solver query, and the delta is expected to carry the very objects)"""
    a, b = list(a), list(b)
    return len(a) == len(b) and all(any(x is y for y in b) for x in a)


def _same_pairs(a, b):
    a, b = list(a), list(b)
    return len(a) == len(b) and all(any(k is k2 and v is v2 for k2, v2 in b) for k, v in a)


def list_factory(falsy=False, route="named", added=False):
    def factory(ex, items, validator, notifier):
        plain = len(items) <= 1 and ex.flag("validator_rejects_with_a_bare_TraitError")
        seen = [[], [], []]
        # a third observe handler, registered through a metadata filter BEFORE the trait has a value
        pre = lambda o_: o_.observe(lambda e: seen[2].append((e.index, list(e.removed), list(e.added))), "+vt_tag:items")
        o, foreign = _make_owner(lambda: List(PyValidated(validator, plain=plain), vt_tag=True), falsy, added, list(items), pre)
        other = []
        kept = []

        def legacy(obj, name, old, new):
            kept.append((new, new.index, list(new.removed), list(new.added)))
            notifier(obj.c, new.index, new.removed, new.added)

        _attach_legacy(o, legacy, other, route)
        o.observe(lambda e: seen[0].append((e.index, list(e.removed), list(e.added))), "c:items")
        o.observe(lambda e: seen[1].append((e.index, list(e.removed), list(e.added))), "c:items")
        xs = o.c

        def extra(ex, exc_t, tl):
            ex.check(o.c is xs, "the trait still holds the same TraitListObject")
            ex.check(other == [], "no whole-value notification for an in-place operation")
            ex.check(foreign == [], "items listeners of other dynamically added container traits stay silent")
            for lst in seen:
                ex.check(len(lst) == len(kept), "every observe handler on the items receives exactly one event per change notification")
            for i, (ev, idx, rem, add) in enumerate(kept):
                ex.check(_same_index(ev.index, idx) and _same_items(list(ev.removed), rem) and _same_items(list(ev.added), add),
                         "a delivered event is not modified after delivery")
                for lst in seen:
                    if i < len(lst):
                        oi, orem, oadd = lst[i]
                        ex.check(_same_index(oi, idx) and _same_items(orem, rem) and _same_items(oadd, add),
                                 "the observe event carries the same (index, removed, added) as the change notification")

        xs._keepalive = o
        return xs, extra
    return factory


def _same_index(a, b):
    if envmodels.is_slice(a) or envmodels.is_slice(b):
        if not (envmodels.is_slice(a) and envmodels.is_slice(b)):
            return False
        return bool(a.start == b.start) and bool(a.stop == b.stop) and bool(a.step == b.step)
    return bool(a == b)


def dict_factory(falsy=False, route="named", added=False):
    def factory(ex, keys, vals, kv, vv, notifier):
        plain = ex.flag("validator_rejects_with_a_bare_TraitError")
        seen = [[], [], []]
        pre = lambda o_: o_.observe(lambda e: seen[2].append((list(e.removed.items()), list(e.added.items()))), "+vt_tag:items")
        o, foreign = _make_owner(lambda: Dict(PyValidated(kv, plain=plain), PyValidated(vv, plain=plain), vt_tag=True), falsy, added,
                                 dict(zip(keys, vals)), pre)
        other = []
        kept = []

        def legacy(obj, name, old, new):
            kept.append((new, list(new.removed.items()), list(new.added.items()), list(new.changed.items())))
            notifier(obj.c, new.removed, new.added, new.changed)

        _attach_legacy(o, legacy, other, route)
        o.observe(lambda e: seen[0].append((list(e.removed.items()), list(e.added.items()))), "c:items")
        o.observe(lambda e: seen[1].append((list(e.removed.items()), list(e.added.items()))), "c:items")
        d = o.c

        def extra(ex, exc_t, td):
            ex.check(o.c is d, "the trait still holds the same TraitDictObject")
            ex.check(other == [], "no whole-value notification for an in-place operation")
            ex.check(foreign == [], "items listeners of other dynamically added container traits stay silent")
            for lst in seen:
                ex.check(len(lst) == len(kept), "every observe handler on the items receives exactly one event per change notification")
            for i, (ev, rem, add, chg) in enumerate(kept):
                ex.check(_same_pairs(ev.removed.items(), rem) and _same_pairs(ev.added.items(), add)
                         and _same_pairs(ev.changed.items(), chg), "a delivered event is not modified after delivery")
                want_removed = rem + chg
                want_added = add + [(k, td[k]) for k, _ in chg]
                for lst in seen:
                    if i < len(lst):
                        orem, oadd = lst[i]
                        ex.check(_same_pairs(orem, want_removed) and _same_pairs(oadd, want_added),
                                 "the observe event carries the same delta (a changed key as removed old value + added new value)")

        d._keepalive = o
        return d, extra
    return factory


def set_factory(falsy=False, route="named", added=False):
    def factory(ex, elems, val, notifier):
        plain = ex.flag("validator_rejects_with_a_bare_TraitError")
        seen = [[], [], []]
        pre = lambda o_: o_.observe(lambda e: seen[2].append((list(e.removed), list(e.added))), "+vt_tag:items")
        o, foreign = _make_owner(lambda: Set(PyValidated(val, plain=plain), vt_tag=True), falsy, added, set(elems), pre)
        other = []
        kept = []

        def legacy(obj, name, old, new):
            kept.append((new, list(new.removed), list(new.added)))
            notifier(obj.c, new.removed, new.added)

        _attach_legacy(o, legacy, other, route)
        o.observe(lambda e: seen[0].append((list(e.removed), list(e.added))), "c:items")
        o.observe(lambda e: seen[1].append((list(e.removed), list(e.added))), "c:items")
        st = o.c

        def extra(ex, exc_t, ts):
            ex.check(o.c is st, "the trait still holds the same TraitSetObject")
            ex.check(other == [], "no whole-value notification for an in-place operation")
            ex.check(foreign == [], "items listeners of other dynamically added container traits stay silent")
            for lst in seen:
                ex.check(len(lst) == len(kept), "every observe handler on the items receives exactly one event per change notification")
            for i, (ev, rem, add) in enumerate(kept):
                ex.check(_same_members(ev.removed, rem) and _same_members(ev.added, add), "a delivered event is not modified after delivery")
                for lst in seen:
                    if i < len(lst):
                        orem, oadd = lst[i]
                        ex.check(_same_members(orem, rem) and _same_members(oadd, add), "the observe event carries the same (removed, added) as the change notification")

        st._keepalive = o
        return st, extra
    return factory


# ---- one definition object used for several attributes / several instances: values are copied, never shared ----------------
SHARING_HOWS = ["a.y = a.x", "b.x = a.x", "b.trait_set(**a.trait_get('x'))", "b = a.clone_traits()", "b = copy.copy(a)",
                "b = copy.deepcopy(a)", "b.copy_traits(a)"]


def sharing_harness(kind):
    """kind: list | dict | set.  x and y are declared from ONE shared trait definition; the value of one attribute / instance is
    handed to another in every documented way; afterwards the two containers are distinct objects whose mutations and items
    events do not leak into each other"""
    import copy as _copy
    from traits.api import Int, Str

    def harness(ex):
        shared = {"list": lambda: List(Int), "dict": lambda: Dict(Str, Int), "set": lambda: Set(Int)}[kind]()
        A = type("A", (HasTraits,), {"x": shared, "y": shared})
        init = {"list": [1, 2], "dict": {"k": 1}, "set": {1, 2}}[kind]
        a, b = A(), A()
        a.x = init
        how = SHARING_HOWS[ex.choice("how", len(SHARING_HOWS))]
        log = []
        if how == "a.y = a.x":
            a.y = a.x
            tgt_owner, tgt_name = a, "y"
        elif how == "b.x = a.x":
            b.x = a.x
            tgt_owner, tgt_name = b, "x"
        elif how.startswith("b.trait_set"):
            b.trait_set(**a.trait_get("x"))
            tgt_owner, tgt_name = b, "x"
        elif how == "b = a.clone_traits()":
            b = a.clone_traits()
            tgt_owner, tgt_name = b, "x"
        elif how == "b = copy.copy(a)":
            b = _copy.copy(a)
            tgt_owner, tgt_name = b, "x"
        elif how == "b = copy.deepcopy(a)":
            b = _copy.deepcopy(a)
            tgt_owner, tgt_name = b, "x"
        else:
            b.copy_traits(a)
            tgt_owner, tgt_name = b, "x"
        a.on_trait_change(lambda: log.append("a.x_items"), "x_items")
        tgt_owner.on_trait_change(lambda: log.append("tgt_items"), tgt_name + "_items")
        src, tgt = a.x, getattr(tgt_owner, tgt_name)
        ex.check(tgt is not src, "the value handed to another attribute / instance is a copy: two distinct container objects")
        ex.check(type(tgt) is type(src) and tgt == src, "... of the same class and contents")
        add = {"list": lambda c, v: c.append(v), "dict": lambda c, v: c.__setitem__("n%d" % v, v), "set": lambda c, v: c.add(v)}[kind]
        snap = _copy.copy(list(tgt) if kind != "dict" else dict(tgt))
        add(src, 7)
        ex.check((list(tgt) if kind != "dict" else dict(tgt)) == snap, "mutating the source leaves the copy alone")
        ex.check(log == ["a.x_items"], "... and notifies the source's items listeners only, once")
        del log[:]
        snap = _copy.copy(list(src) if kind != "dict" else dict(src))
        add(tgt, 8)
        ex.check((list(src) if kind != "dict" else dict(src)) == snap, "mutating the copy leaves the source alone")
        ex.check(log == ["tgt_items"], "... and notifies the copy's own items listeners, once")
        bad = {"list": lambda c: c.append("x"), "dict": lambda c: c.__setitem__("k", "x"), "set": lambda c: c.add("x")}[kind]
        try:
            bad(tgt)
            rej = False
        except TraitError:
            rej = True
        ex.check(rej, "the copy validates")
        return {"how": how}
    return harness


# ---- containers that outlive their place in the owner ------------------------------------------------------------------------
DETACH_HOWS = ["remove_trait (added trait)", "attribute re-assigned", "attribute deleted (reset to the default)",
               "owner garbage-collected"]


def detached_harness(kind):
    """kind: list | dict | set.  A reference to the trait's container is kept while the container loses its place in the owner
    (the instance trait is removed / the attribute gets another container / is reset / the owner goes away).  The kept container
    still refines the built-in: a valid operation succeeds, raises nothing and tells the owner's items listeners nothing; an
    operation the built-in refuses raises the same exception class and changes nothing."""
    import gc
    from traits.api import Int

    def harness(ex):
        mk = {"list": lambda: List(Int), "dict": lambda: Dict(Int, Int), "set": lambda: Set(Int)}[kind]
        init = {"list": [1, 2], "dict": {1: 1, 2: 2}, "set": {1, 2}}[kind]
        how = DETACH_HOWS[ex.choice("how", len(DETACH_HOWS))]
        declared = how in ("attribute re-assigned", "attribute deleted (reset to the default)", "owner garbage-collected") and ex.flag("declared")
        log = []
        if declared:
            o = type("Owner", (HasTraits,), {"c": mk()})()
        else:
            o = type("Owner", (HasTraits,), {})()
            o.add_trait("c", mk())
        o.c = init
        o.on_trait_change(lambda obj, name, old, new: log.append(name), "c_items")
        o.observe(lambda e: log.append("observe"), "c:items")
        kept = o.c
        if how.startswith("remove_trait"):
            o.remove_trait("c")
        elif how == "attribute re-assigned":
            # the new value is what the kept container will EQUAL after the first valid operation below (append 7 / key 7 / add 7):
            # holding the attribute is a matter of identity, not of equality
            o.c = {"list": [1, 2, 7], "dict": {1: 1, 2: 2, 7: 7}, "set": {1, 2, 7}}[kind]
        elif how.startswith("attribute deleted"):
            del o.c
        elif how == "owner garbage-collected":
            del o
            gc.collect()
        del log[:]
        ref = type(init)(init)
        ops = {"list": [lambda c: c.append(7), lambda c: c.__setitem__(0, 8), lambda c: c.pop(), lambda c: c.pop(10), lambda c: c.remove(99)],
               "dict": [lambda c: c.__setitem__(7, 7), lambda c: c.update({1: 5}), lambda c: c.pop(1), lambda c: c.pop(99), lambda c: c.__delitem__(99)],
               "set": [lambda c: c.add(7), lambda c: c.update({8, 9}), lambda c: c.discard(1), lambda c: c.remove(99), lambda c: c.pop()]}[kind]
        op = ops[ex.choice("op", len(ops))]
        exc_t = exc_r = None
        before = type(init)(kept)
        try:
            op(kept)
        except Exception as e:
            exc_t = type(e).__name__
        try:
            op(ref)
        except Exception as e:
            exc_r = type(e).__name__
        ex.check(exc_t == exc_r, "a container that lost its place in the owner still raises exactly where the built-in raises")
        if exc_t is not None:
            ex.check(type(init)(kept) == before, "failing operation changes nothing")
        elif kind != "set" or exc_r is None:
            ex.check(type(init)(kept) == ref or kind == "set" and len(kept) == len(ref), "contents equal the built-in's after the same operation")
        ex.check([n_ for n_ in log if n_ != "observe"] == [], "the owner's items listeners hear nothing from a container the attribute no longer holds")
        return {"how": how}
    return harness


# ---- the items event of a container trait declared in a BASE class: statically named handlers of subclasses, listener objects
# ---- that compare equal, and the Undefined marker as an item ------------------------------------------------------------------
def class_routes_harness(kind):
    """kind: list | dict | set.  One in-place change of the container of ONE object reaches exactly the handlers that belong to
    that object: the `_c_items_changed` method of its own class (not of a sibling subclass, not for a base-class instance), and
    each of two listener objects that compare EQUAL (separate registrations); Undefined is an item like any other: validated,
    hence rejected"""
    from traits.api import Int, Str, Undefined

    def harness(ex):
        decl = {"list": lambda: List(Int), "dict": lambda: Dict(Str, Int), "set": lambda: Set(Int)}[kind]
        calls = []
        Base = type("Base", (HasTraits,), {"c": decl()})

        def mk_sub(tag):
            def _c_items_changed(self, event):
                calls.append(("static", tag, self.tag))
            return type("Sub" + tag, (Base,), {"_c_items_changed": _c_items_changed, "tag": tag})
        SubA, SubB = mk_sub("A"), mk_sub("B")
        init = {"list": [1], "dict": {"k": 1}, "set": {1}}[kind]
        objs = {"base": Base(c=type(init)(init)), "A": SubA(c=type(init)(init)), "B": SubB(c=type(init)(init)), "A2": SubA(c=type(init)(init))}
        objs["base"].tag = "base"

        class Listener:
            def __init__(self, tag):
                self.tag = tag

            def __eq__(self, other):
                return isinstance(other, Listener)

            def __hash__(self):
                return 3

            def on_items(self, event):
                calls.append(("listener", self.tag))

        who = ["base", "A", "B", "A2"][ex.choice("mutated", 4)]
        l1, l2 = Listener("l1"), Listener("l2")
        listened = ["base", "A"][ex.choice("listened", 2)]
        objs[listened].on_trait_change(l1.on_items, "c_items")
        objs[listened].on_trait_change(l2.on_items, "c_items")
        del calls[:]
        c = objs[who].c
        {"list": lambda: c.append(5), "dict": lambda: c.__setitem__("n", 5), "set": lambda: c.add(5)}[kind]()
        want = []
        if who in ("A", "B", "A2"):
            want.append(("static", who[0], who[0]))
        if who == listened:
            want += [("listener", "l1"), ("listener", "l2")]
        ex.check(sorted(calls) == sorted(want), "one in-place change reaches exactly the items handlers of the object that owns the container "
                                                "(its class's static handler, every listener object registered on it) - once each")
        objs[listened].on_trait_change(l2.on_items, "c_items", remove=True)
        del calls[:]
        c2 = objs[listened].c
        {"list": lambda: c2.append(6), "dict": lambda: c2.__setitem__("m", 6), "set": lambda: c2.add(6)}[kind]()
        ex.check(("listener", "l1") in calls and ("listener", "l2") not in calls,
                 "removing one of two equal listener objects removes that one")
        # Undefined as an item / key / value
        before = type(init)(objs["A"].c)
        exc = None
        try:
            cu = objs["A"].c
            hows = {"list": [lambda: cu.append(Undefined), lambda: cu.__setitem__(0, Undefined), lambda: cu.extend([2, Undefined])],
                    "dict": [lambda: cu.__setitem__("u", Undefined), lambda: cu.update({"u": Undefined}), lambda: cu.setdefault("u", Undefined),
                             lambda: cu.__setitem__(Undefined, 1)],
                    "set": [lambda: cu.add(Undefined), lambda: cu.update([2, Undefined]), lambda: cu.__ior__({Undefined})]}[kind]
            hows[ex.choice("undefined_how", len(hows))]()
        except TraitError:
            exc = "TraitError"
        ex.check(exc == "TraitError" and type(init)(objs["A"].c) == before, "Undefined is validated like any other item: rejected, nothing changes")
        return {"who": who}
    return harness
