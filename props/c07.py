"""C07 - TraitSet refines set; change events are faithful deltas; copies still validate.

Real TraitSet methods on a real `set` of constant-hash z3 Int proxies: membership and overlap between the
stored elements and the argument elements are decided by z3 through __eq__ forks.  One-step obligations from
an arbitrary valid state of s pairwise-distinct symbolic elements (no hidden state: asserted).
"""
import contextlib
import copy
import pickle

import z3

from vt import symx
from vt.symx import SymInt
from vt.oblig import Obligation
from props.c06 import V, mk, sym_env, v_ident, v_reject, v_coerce, VALIDATORS, BadEq

import traits.trait_set_object as tso
from traits.api import HasTraits, Set, Int
from traits.trait_errors import TraitError

LEVEL = "model_checking"
ENCODED = [("traits/trait_set_object.py",
            ["TraitSet.__init__", "TraitSet.notify", "TraitSet.__iand__", "TraitSet.__ior__", "TraitSet.__isub__",
             "TraitSet.__ixor__", "TraitSet.add", "TraitSet.clear", "TraitSet.discard", "TraitSet.difference_update",
             "TraitSet.intersection_update", "TraitSet.pop", "TraitSet.remove", "TraitSet.symmetric_difference_update",
             "TraitSet.update", "TraitSet.__deepcopy__", "TraitSet.__getstate__", "TraitSet.__setstate__"])]
EXPLANATION = ("Symbolic execution of the real TraitSet methods; elements are unbounded z3 Ints (constant-hash proxies in a "
               "real set); overlap patterns between stored and argument elements are decided by z3. Copy/pickle obligations "
               "run concretely (pickle/copy are C boundaries) and are enumerations, labelled as such.")
STUBS = ["hash(int proxy) == 0 for every element (constant-hash discipline), so the real set decides membership only "
         "through __eq__, which forks on a z3 equality"]

EXC = (KeyError, TraitError, TypeError, ValueError, AttributeError, LookupError, RuntimeError, NameError, ArithmeticError)

OPS1 = ["add", "discard", "remove"]                    # one element argument
OPS0 = ["pop", "clear"]
OPSN = ["update", "difference_update", "intersection_update"]   # *iterables
OPSI = ["ior", "iand", "isub", "ixor"]                 # operator with one operand (set / frozenset / list)
OPSS = ["symmetric_difference_update"]                 # one iterable


def build_arg(kind, items):
    if kind == "set":
        return set(items)
    if kind == "frozenset":
        return frozenset(items)
    if kind == "list":
        return list(items)
    if kind == "tuple":
        return tuple(items)
    if kind == "iter":
        return iter(list(items))        # a one-shot iterable (generator, map, ...): can be walked once
    if kind == "badtail":
        return list(items) + [[]]       # ends with an unhashable item: the built-in raises TypeError when it gets there
    if kind == "noniterable":
        return 5
    raise AssertionError(kind)


def apply_op(op, st, args):
    if op == "add":
        st.add(args[0])
    elif op == "discard":
        st.discard(args[0])
    elif op == "remove":
        st.remove(args[0])
    elif op == "pop":
        return st.pop()
    elif op == "clear":
        st.clear()
    elif op == "update":
        st.update(*args)
    elif op == "difference_update":
        st.difference_update(*args)
    elif op == "intersection_update":
        st.intersection_update(*args)
    elif op == "symmetric_difference_update":
        st.symmetric_difference_update(args[0])
    elif op == "ior":
        st |= args[0]
    elif op == "iand":
        st &= args[0]
    elif op == "isub":
        st -= args[0]
    elif op == "ixor":
        st ^= args[0]
    else:
        raise AssertionError(op)
    return None


def plain_factory(ex, elems, val, notifier):
    return tso.TraitSet(elems, item_validator=val, notifiers=[notifier]), None


def make_harness(op, s, shape, kinds, vname, factory=plain_factory):
    """shape: tuple of argument sizes; kinds: container kind per argument"""
    val = VALIDATORS[vname]

    def harness(ex):
        events = []

        def notifier(st, removed, added):
            events.append((set(removed), set(added)))

        elems = [mk(ex, "e%d" % i) for i in range(s)]
        if ex.sym:
            for i in range(s):
                for j in range(i):
                    ex.assume(elems[i] != elems[j])
                if vname != "ident":
                    ex.assume(elems[i] >= 0)
        else:
            ex.assume(len(set(elems)) == s and (vname == "ident" or all(e >= 0 for e in elems)))
        ts, extra = factory(ex, elems, val, notifier)
        before = set(ts)
        vars_before = sorted(vars(ts))
        raw = []
        badeq = False
        if op in OPS1:
            x = mk(ex, "x")
            if vname == "typed" and ex.flag("x_wrongtype"):
                x = BadEq(x)
                badeq = True
            raw = [[x]]
            args = [x]
        elif op in OPS0:
            args = []
        else:
            raw = [[mk(ex, "a%d_%d" % (j, i)) for i in range(n)] for j, n in enumerate(shape)]
            if vname == "typed" and raw and raw[0] and ex.flag("a0_0_wrongtype"):
                raw[0][0] = BadEq(raw[0][0])      # the very first argument item: never shadowed by an equal earlier one
                badeq = True
            args = [build_arg(k, items) for k, items in zip(kinds, raw)] if kinds != ("self",) else [ts]
        flat = [x for grp in raw for x in grp]
        oneshot = "iter" in kinds
        fresh_args = (lambda: [build_arg(k, items) for k, items in zip(kinds, raw)]) if oneshot else (lambda: args)
        self_operand = kinds == ("self",)
        # ---- the operation on the TraitSet ----
        exc_t = None
        ret_t = None
        try:
            ret_t = apply_op(op, ts, args)
        except EXC as e:
            exc_t = type(e).__name__
        after = set(ts)
        # ---- reference: the built-in on validated items (validated == raw for ident/reject) ----
        refine = vname in ("ident", "reject") and op != "pop"
        exc_r = None
        ref = set(before)
        if refine:
            try:
                apply_op(op, ref, [ref] if self_operand else fresh_args())      # the set itself as the operand
            except EXC as e:
                exc_r = type(e).__name__
                ref = set(before)
        elif vname == "typed":
            # type-based validity: the wrong-typed item is invalid even when it EQUALS a member.  Operations that add
            # (add, update, |=) validate every argument item; ^= / symmetric_difference_update validate the items that are
            # not members (members are removed, not validated); removing operations validate nothing.
            refine = True
            setlike = op not in ("ior", "ixor") or kinds[0] in ("set", "frozenset")     # else: TypeError from set itself
            must_raise = badeq and setlike and (op in ("add", "update", "ior")
                                                or (op in ("ixor", "symmetric_difference_update") and raw[0][0] not in before))
            if must_raise:
                exc_r = "TraitError"
            else:
                try:
                    apply_op(op, ref, fresh_args())
                except EXC as e:
                    exc_r = type(e).__name__
                    ref = set(before)
        elif vname == "coerce" and op in ("add", "update") or (op == "ior" and kinds[0] in ("set", "frozenset")):
            refine = True
            try:
                apply_op(op, ref, [abs(a) for a in args] if op == "add" else [build_arg(k, [abs(i) for i in it])
                                                                             for k, it in zip(kinds, raw)])
            except EXC as e:
                exc_r = type(e).__name__
                ref = set(before)
        if vname == "typed":
            members_valid = all(not isinstance(e, BadEq) for e in after)
        else:
            members_valid = all(bool(e >= 0) for e in after) if vname != "ident" else True
        ex.check(members_valid, "every member is valid after the operation")
        ex.check(sorted(vars(ts)) == vars_before, "no hidden state (vars unchanged)")
        if vname == "typed":
            ex.check(exc_t == exc_r, "same exception class as set (TraitError exactly when an item that gets validated is invalid)")
            ex.check(after == ref, "contents equal the built-in set's after the same operation on validated items")
        elif exc_t == "TraitError":
            if vname == "ident":
                ex.check(False, "TraitError although every item is valid")
            elif vname == "reject":
                inv = z3.Or([symx._z(x) < 0 for x in flat]) if ex.sym else any(x < 0 for x in flat)
                ex.check(inv if flat else False, "TraitError only if some argument item is invalid")
        elif refine:
            ex.check(exc_t == exc_r, "same exception class as set")
            ex.check(after == ref, "contents equal the built-in set's after the same operation on validated items")
        if op == "pop" and exc_t is None:
            ex.check(ret_t in before and ret_t not in after and len(after) == len(before) - 1,
                     "pop returns a former member and removes exactly it")
        if op == "pop" and exc_t is not None:
            ex.check(exc_t == "KeyError" and s == 0, "pop raises KeyError exactly on the empty set")
        if exc_t is not None:
            ex.check(after == before, "failing operation changes nothing")
            ex.check(events == [], "failing operation is silent")
        if extra is not None:
            extra(ex, exc_t, ts)
        if after != before:
            ex.check(len(events) == 1, "exactly one event for a content change")
        else:
            ex.check(events == [], "operation that changes nothing is silent")
        for removed, added in events:
            ex.check(removed <= before, "removed is a subset of the previous contents")
            ex.check(not (added & before), "added is disjoint from the previous contents")
            ex.check((before - removed) | added == after, "(previous - removed) | added == new contents")
        # the model of the path decides the concrete order; compare order-free in the witness
        if op == "pop":   # which element is popped is unspecified: only sizes are comparable
            return {"exc": exc_t, "n_after": len(after), "nevents": len(events)}
        return {"exc": exc_t, "after": SortedEval(after), "events": [(SortedEval(r), SortedEval(a)) for r, a in events]}

    return harness


class SortedEval:
    """observation leaf: a set of (possibly symbolic) ints, compared as a sorted list of model values"""

    def __init__(self, items):
        self.items = list(items)

    def __sym_eval__(self, model):
        return sorted(symx.evaluate([i.x if isinstance(i, BadEq) else i for i in self.items], model))

    def __conc__(self):
        return sorted(int(i.x if isinstance(i, BadEq) else i) for i in self.items)


def conc_sorted(obs):
    return obs


# ---- copies (concrete; enumeration) ---------------------------------------------------------------
COPIERS = ["copy", "deepcopy", "pickle2", "pickle3", "pickle4", "pickle5"]


def do_copy(how, obj):
    if how == "copy":
        return copy.copy(obj)
    if how == "deepcopy":
        return copy.deepcopy(obj)
    return pickle.loads(pickle.dumps(obj, protocol=int(how[-1])))


def copy_harness(vname, s):
    val = VALIDATORS[vname]

    def harness(ex):
        calls = []
        how = COPIERS[ex.choice("copier", len(COPIERS))]
        premut = ex.choice("premut", 3)     # history before the copy: nothing / add / remove
        ts = tso.TraitSet(range(s), item_validator=val, notifiers=[])
        if premut == 1:
            ts.add(10)
        elif premut == 2 and s:
            ts.remove(0)
        exc = None
        cp = None
        try:
            cp = do_copy(how, ts)
        except Exception as e:
            exc = type(e).__name__
        ex.check(exc is None, "copy operation succeeds (%s)" % "copy/deepcopy/pickle")
        if cp is not None:
            ex.check(type(cp) is tso.TraitSet, "copy has the same class")
            ex.check(set(cp) == set(ts), "copy is equal")
            ex.check(cp is not ts, "copy is a distinct object")
            if vname == "reject":
                try:
                    cp.add(-5)
                    rejected = False
                except TraitError:
                    rejected = True
                ex.check(rejected and -5 not in cp, "copy still validates (invalid item rejected)")
            if vname == "coerce":
                cp.add(-7)
                ex.check(7 in cp and -7 not in cp, "copy still validates (item coerced)")
            cp.add(50)
            ex.check(50 not in ts, "mutating the copy leaves the original alone")
        return {"exc": exc, "how": how}

    return harness


class IdSet(set):
    """a mutable set that is hashable (by identity): a legal member of a set"""
    __hash__ = object.__hash__


def frozen_members_harness(ex):
    """sets of frozensets: like the built-in set, a mutable set is accepted as the spelling of an equal frozenset member by the
    element operations (membership, remove, discard) - same result, same event discipline"""
    events = []
    g = IdSet({3})
    members = [frozenset({1}), frozenset({1, 2}), frozenset(), 5, g]
    ts = tso.TraitSet(members, notifiers=[lambda s_, removed, added: events.append((set(removed), set(added)))])
    ref = set(members)
    arg = [{1}, {1, 2}, set(), {9}, frozenset({1}), 5, 7, g, IdSet({3}), {3}, IdSet({1})][ex.choice("argument", 11)]
    op = ["remove", "discard", "add"][ex.choice("op", 3)]
    before = set(ts)
    exc_t = exc_r = None
    try:
        getattr(ts, op)(arg)
    except EXC as e:
        exc_t = type(e).__name__
    try:
        getattr(ref, op)(arg)
    except EXC as e:
        exc_r = type(e).__name__
    ex.check(exc_t == exc_r, "same exception class as set")
    ex.check(set(ts) == ref, "contents equal the built-in set's after the same operation on validated items")
    if exc_t is not None:
        ex.check(set(ts) == before and events == [], "failing operation changes nothing")
    if set(ts) != before:
        ex.check(len(events) == 1 and (before - events[0][0]) | events[0][1] == set(ts), "exactly one event for a content change")
        ex.check(len(events) == 1 and events[0][0] <= before and not (events[0][1] & before),
                 "removed is a subset of the previous contents and added is disjoint from them")
    else:
        ex.check(events == [], "operation that changes nothing is silent")
    return {"op": op}


class SetOwner(HasTraits):
    """module level: picklable"""
    s = Set(Int)


OWNED_COPIERS = ["copy(set)", "deepcopy(set)", "deepcopy(owner).s", "pickle(owner).s", "clone_traits(owner).s", "copy_traits(owner).s",
                 "owner2.s = owner.s", "owner2.s = copy(set)", "owner2.s = deepcopy(set)", "owner2.s = pickle(set)"]


def owned_copy_harness(s):
    """copies of a Set trait value taken at any point still validate.  (A TraitSetObject pickled on its own comes back
    detached by design - trait None - and is re-validated when it is assigned to a trait: that is the route checked.)"""
    def harness(ex):
        how = OWNED_COPIERS[ex.choice("copier", len(OWNED_COPIERS))]
        premut = ex.choice("premut", 3)
        o = SetOwner(s=set(range(s)))
        if premut == 1:
            o.s.add(10)
        elif premut == 2 and s:
            o.s.remove(0)
        exc = None
        cp = None
        try:
            if how == "copy(set)":
                cp = copy.copy(o.s)
            elif how == "deepcopy(set)":
                cp = copy.deepcopy(o.s)
            elif how == "deepcopy(owner).s":
                cp = copy.deepcopy(o).s
            elif how == "pickle(owner).s":
                cp = pickle.loads(pickle.dumps(o)).s
            elif how == "clone_traits(owner).s":
                cp = o.clone_traits().s
            elif how == "copy_traits(owner).s":
                o2 = SetOwner()
                o2.copy_traits(o)
                cp = o2.s
            else:
                src = {"owner2.s = owner.s": lambda: o.s, "owner2.s = copy(set)": lambda: copy.copy(o.s),
                       "owner2.s = deepcopy(set)": lambda: copy.deepcopy(o.s),
                       "owner2.s = pickle(set)": lambda: pickle.loads(pickle.dumps(o.s))}[how]()
                smuggle = ex.flag("smuggled_invalid_member")
                if smuggle:
                    set.add(src, "bad") if src is not o.s else None     # through the base class: no validation on the way in
                o2 = SetOwner()
                if smuggle and src is not o.s:
                    try:
                        o2.s = src
                        took = True
                    except TraitError:
                        took = False
                    ex.check(not took and "bad" not in o2.s, "assigning a set object that holds an invalid member is rejected")
                    return {"how": how, "smuggled": True}
                o2.s = src
                cp = o2.s
        except Exception as e:
            exc = type(e).__name__
        ex.check(exc is None, "copy operation succeeds")
        if cp is not None:
            ex.check(isinstance(cp, tso.TraitSet), "the copy is a TraitSet")
            ex.check(set(cp) == set(o.s), "copy is equal")
            ex.check(cp is not o.s, "copy is a distinct object")
            for label, bad in (("add", lambda c: c.add("x")), ("update", lambda c: c.update([5, "y"])),
                               ("|=", lambda c: c.__ior__({2.5})), ("^=", lambda c: c.__ixor__({1000, None}))):
                before = set(cp)
                try:
                    bad(cp)
                    rejected = False
                except TraitError:
                    rejected = True
                ex.check(rejected and set(cp) == before, "the copy still validates: an invalid item is rejected and nothing changes")
            cp.add(50)
            ex.check(50 not in o.s, "mutating the copy leaves the original alone")
            try:
                o.s.add("z")
                orig_ok = False
            except TraitError:
                orig_ok = True
            ex.check(orig_ok, "the original keeps validating")
        return {"exc": exc, "how": how}

    return harness


def obligations(tier, build):
    obs = []
    S = 2 if tier == "quick" else 3
    common = dict(env=sym_env, stubs=STUBS,
                  assumes=["pre-state elements pairwise distinct and valid (representation invariant, re-established "
                           "by the 'every member is valid' check of every obligation)"])
    shapes_n = [(1,), (2,), (1, 1)] if tier == "quick" else [(0,), (1,), (2,), (3,), (1, 1), (2, 1), (2, 2)]
    shapes_1 = [(1,), (2,)] if tier == "quick" else [(0,), (1,), (2,), (3,)]
    for vname in ("ident", "reject", "coerce"):
        for s in range(S + 1):
            for op in OPS1 + OPS0:
                if op in OPS0 and vname != "ident":
                    continue
                obs.append(Obligation("%s/s=%d/%s" % (op, s, vname), make_harness(op, s, (), (), vname),
                                      bounds={"stored elements s": s, "elements": "unbounded Int", "validator": vname},
                                      leverage="membership / overlap of symbolic elements", **common))
            for op in OPSN:
                for shape in shapes_n:
                    kindsets = [("list",) * len(shape)]
                    if len(shape) == 1:
                        kindsets.append(("set",))
                        kindsets.append(("iter",))
                        if vname == "ident":
                            kindsets.append(("badtail",))
                    elif vname == "ident":
                        kindsets.append(("iter",) * len(shape))
                        kindsets.append(("list",) * (len(shape) - 1) + ("noniterable",))
                        kindsets.append(("list",) * (len(shape) - 1) + ("badtail",))
                    for kinds in kindsets:
                        obs.append(Obligation("%s/s=%d/%s/%s/%s" % (op, s, "+".join(map(str, shape)), "+".join(kinds), vname),
                                              make_harness(op, s, shape, kinds, vname),
                                              bounds={"stored elements s": s, "argument iterables (sizes)": list(shape),
                                                      "elements": "unbounded Int", "validator": vname},
                                              leverage="membership / overlap of symbolic elements", **common))
            for op in OPSI + OPSS:
                for shape in shapes_1:
                    for kind in (("set", "frozenset", "list") if op in OPSI else ("list", "set", "iter")):
                        if tier == "quick" and kind == "frozenset" and shape != (1,):
                            continue
                        obs.append(Obligation("%s/s=%d/%d/%s/%s" % (op, s, shape[0], kind, vname),
                                              make_harness(op, s, shape, (kind,), vname),
                                              bounds={"stored elements s": s, "operand size": shape[0], "operand kind": kind,
                                                      "elements": "unbounded Int", "validator": vname},
                                              leverage="membership / overlap of symbolic elements", **common))
    # ---- type-based validity (an invalid item may EQUAL a member), and everything again on an owner-backed TraitSetObject
    import props._owners as owners
    fac = owners.set_factory()
    SO = 2 if tier == "quick" else 3
    variants = [("typed", None, "typed")] + [("owned-" + v, fac, v) for v in ("ident", "reject", "coerce", "typed")]
    for label, factory, vname in variants:
        kw = {} if factory is None else {"factory": factory}
        cont = "bare TraitSet" if factory is None else "TraitSetObject owned by a HasTraits object; 1 legacy + 2 observe handlers"
        for s in range(SO + 1):
            for op in OPS1 + (OPS0 if vname == "ident" else []):
                obs.append(Obligation("%s/%s/s=%d" % (label, op, s), make_harness(op, s, (), (), vname, **kw),
                                      bounds={"stored elements s": s, "elements": "unbounded Int", "validator": vname, "container": cont},
                                      leverage="membership / overlap of symbolic elements", **common))
            for op in OPSN:
                for shape in ([(1,), (2,)] if tier == "quick" else [(1,), (2,), (1, 1), (2, 1)]):
                    obs.append(Obligation("%s/%s/s=%d/%s" % (label, op, s, "+".join(map(str, shape))),
                                          make_harness(op, s, shape, ("list",) * len(shape), vname, **kw),
                                          bounds={"stored elements s": s, "argument iterables (sizes)": list(shape),
                                                  "validator": vname, "container": cont},
                                          leverage="membership / overlap of symbolic elements", **common))
            for op in OPSI + OPSS:
                for shape in ([(1,), (2,)] if tier == "quick" else [(1,), (2,), (3,)]):
                    for kind in (("set", "list") if op in OPSI else ("list", "set")):
                        if tier == "quick" and kind == "list" and shape != (1,):
                            continue
                        obs.append(Obligation("%s/%s/s=%d/%d/%s" % (label, op, s, shape[0], kind),
                                              make_harness(op, s, shape, (kind,), vname, **kw),
                                              bounds={"stored elements s": s, "operand size": shape[0], "operand kind": kind,
                                                      "validator": vname, "container": cont},
                                              leverage="membership / overlap of symbolic elements", **common))
    for label, fac_ in (("owned-anytrait", owners.set_factory(route="anytrait")), ("owned-added", owners.set_factory(added=True)),
                        ("owned-added-anytrait", owners.set_factory(route="anytrait", added=True)),
                        ("owned-added-over", owners.set_factory(added="over"))):
        for s in (0, 1, 2):
            for op in OPS1 + OPS0:
                obs.append(Obligation("%s/%s/s=%d" % (label, op, s), make_harness(op, s, (), (), "ident", factory=fac_),
                                      bounds={"stored elements s": s, "container": "TraitSetObject; " + label},
                                      leverage="membership / overlap of symbolic elements", **common))
            for op in ("update", "ior", "isub", "ixor", "iand", "difference_update"):
                obs.append(Obligation("%s/%s/s=%d/1/set" % (label, op, s), make_harness(op, s, (1,), ("set",), "ident", factory=fac_),
                                      bounds={"stored elements s": s, "container": "TraitSetObject; " + label},
                                      leverage="membership / overlap of symbolic elements", **common))
    for label, kw_ in (("self-operand", {}), ("owned-self-operand", {"factory": fac})):
        for s in range(0, SO + 1):
            for op in OPSN + OPSI + OPSS:
                obs.append(Obligation("%s/%s/s=%d" % (label, op, s), make_harness(op, s, (0,), ("self",), "ident", **kw_),
                                      bounds={"stored elements s": s, "operand": "the set itself (s |= s, s -= s, s.update(s), ...)"},
                                      leverage="membership of symbolic elements", **common))
    falsy = owners.set_factory(falsy=True)
    for op in ("add", "update", "ior"):
        for s in (0, 1):
            obs.append(Obligation("owned-falsy/%s/s=%d/reject" % (op, s),
                                  make_harness(op, s, (1,), ("set",), "reject", factory=falsy),
                                  bounds={"stored elements s": s, "owner": "falsy (defines __bool__ / __len__)"},
                                  leverage="validity of symbolic elements", **common))
    obs.append(Obligation("frozenset-members", frozen_members_harness,
                          bounds={"members": "frozensets, an int and a set subclass hashable by identity", "arguments": "mutable sets equal / unequal to members, frozenset, ints, the hashable set member itself and equal sets",
                                  "operations": ["remove", "discard", "add"]}, leverage="choice feasibility only", stubs=[]))
    for s in (0, 2):
        obs.append(Obligation("owned-copy/s=%d" % s, owned_copy_harness(s),
                              bounds={"stored elements": s, "copiers": OWNED_COPIERS, "history before the copy": "none/add/remove"},
                              leverage="choice feasibility only (copy/pickle are C boundaries, elements concrete)", stubs=[]))
    for vname in ("ident", "reject", "coerce"):
        for s in (0, 2):
            obs.append(Obligation("copy/s=%d/%s" % (s, vname), copy_harness(vname, s),
                                  bounds={"stored elements": s, "copiers": COPIERS, "history before the copy": "none/add/remove"},
                                  leverage="choice feasibility only (copy/pickle are C boundaries, elements concrete)",
                                  stubs=[]))
    import props._owners as owners_
    obs.append(Obligation("class-routes/set", owners_.class_routes_harness("set"),
                          bounds={"objects": "base-class instance, two subclasses with their own _c_items_changed, a second instance",
                                  "listeners": "two listener objects that compare equal", "Undefined": "as item / key / value"},
                          leverage="choice feasibility only"))
    obs.append(Obligation("detached/set", owners_.detached_harness("set"), bounds={"how the container lost its place": owners_.DETACH_HOWS,
                                                                                      "operations": "3 valid, 2 refused by the built-in"},
                          leverage="choice feasibility only"))
    obs.append(Obligation("sharing/set", owners_.sharing_harness("set"),
                          bounds={"ways of handing a value on": owners_.SHARING_HOWS, "declarations": "x and y from ONE shared definition object"},
                          leverage="choice feasibility only", stubs=[]))
    return obs
