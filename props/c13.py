"""C13 - every attribute name is governed by the right trait and its access policy.

(a) HasTraits.__prefix_trait__ (the wildcard resolution) runs natively on a *symbolic attribute name* (z3 String of
    unbounded length over [A-Za-z0-9_]); z3 decides, per path, that the returned trait is the template of the LONGEST
    prefix in the class's real prefix table that is a prefix of the name (table built by the real metaclass), dunder
    names are handled as documented.  Fixture classes override _trait (a C call) with a model that forks over the
    class's concrete trait names.
(b) has_traits_getattro / has_traits_setattro / get_prefix_trait / setattr_readonly / setattr_constant /
    setattr_disallow / setattr_event / getattr_event / getattr_disallow / setattr_python are interpreted by csym on real
    objects; histories (k<=3) of read / write / delete / add_trait / remove_trait over a pool of names matching zero,
    one or several wildcard prefixes; oracle: independent specification of the governing rule and of each policy.
"""
NEED_AST = True

import z3

from vt import symx, csym, cenv, pymodel
from vt.symx import SymStr
from vt.csym import NULL
from vt.oblig import Obligation
import props.c03 as c03

from traits.api import (HasTraits, HasStrictTraits, HasPrivateTraits, Int, Str, Float, Any, ReadOnly, Constant, Event,
                        Disallow, Python, TraitError, Undefined, DelegatesTo, Instance)
import traits.has_traits as ht

LEVEL = "model_checking"
ENCODED = [("traits/has_traits.py", ["HasTraits.__prefix_trait__", "update_traits_class_dict"]),
           ("traits/ctraits.c", ["has_traits_getattro", "has_traits_setattro", "get_prefix_trait", "get_trait", "setattr_readonly",
                                 "setattr_constant", "setattr_disallow", "setattr_event", "getattr_event", "getattr_disallow",
                                 "setattr_python", "getattr_python", "getattr_generic", "setattr_generic", "getattr_trait",
                                 "setattr_trait"])]
EXPLANATION = ("(a) symbolic execution of __prefix_trait__ on an unbounded symbolic name with z3 strings against an independent "
               "'longest matching prefix' formula; (b) bounded histories through the interpreted C attribute access path.")
STUBS = c03.STUBS + ["fixture classes override HasTraits._trait (a C call) with a model forking over the class's trait names",
                     "'_%s_changed' % name formats to a placeholder: assumes the name has no statically named handler"]
ASSUMPTIONS = ["attribute names over the alphabet [A-Za-z0-9_]", "names in (a) do not coincide with statically named "
               "_<name>_changed/_fired handlers (none is defined in the fixtures)"]


def _trait_model(self, name, instance):
    """model of CHasTraits._trait for a symbolic name: fork over the concrete names of explicit traits"""
    if isinstance(name, SymStr):
        for n in sorted(self._class_traits()):
            if name == n:
                return HasTraits._trait(self, n, instance)
        return None
    return HasTraits._trait(self, name, instance)


class P1(HasTraits):
    foo_ = Int
    foo_bar_ = Str
    x = Float


class P2(P1):
    foo_bar_baz_ = Float      # subclass adds a longer prefix
    fo_ = Any                 # ... and a shorter one


class P3(HasTraits):
    opt_size_ = Int


class P4(P3):
    opt_ = Str                # shorter wildcard declared in the subclass (base has the longer one)
    _ = Disallow


class P5(HasStrictTraits):
    a = Int
    tmp_ = Any


class P6(HasPrivateTraits):
    a = Int
    __ = Str


class P7(HasTraits):
    a = Int
    d = Instance(P1, ())
    val = DelegatesTo("d", prefix="x")


class P8(HasTraits):
    """wildcards added AFTER the class was created, in an order and with lengths that exercise the ordering of the table:
    one character shorter than / a prefix of an existing one, longer than all, in between"""
    value__ = Int             # prefix 'value_'


P8.add_class_trait("value_", Str())          # prefix 'value': one character shorter than, and a prefix of, 'value_'
P8.add_class_trait("va_", Float())           # prefix 'va'
P8.add_class_trait("value_x_y_", Any())      # prefix 'value_x_y': longer than all
P8.add_class_trait("valu_", Str())           # prefix 'valu': in between


FIXTURES = [P1, P2, P3, P4, P5, P6, P7, P8]
ALPHABET = z3.Star(z3.Union(z3.Range("a", "z"), z3.Range("A", "Z"), z3.Range("0", "9"), z3.Re("_")))


_MODELLED = {}
MAXLEN = 16          # longest declared prefix is 12 characters


def modelled(cls):
    """subclass of the fixture whose _trait (a C call) is the model; declares nothing, so the prefix table is the base's"""
    if cls not in _MODELLED:
        _MODELLED[cls] = type(cls.__name__ + "M", (cls,), {"_trait": _trait_model})
        # the subclass gets a re-derived (re-sorted) copy of the table: look at the fixture's OWN table, as built by the code
        # that declared / added its wildcards
        _MODELLED[cls].__prefix_traits__ = cls.__prefix_traits__
    return _MODELLED[cls]


def prefix_harness(cls, is_set, first):
    """is_set and the class of the first character are obligation parameters only to spread the work over the pool"""
    def harness(ex):
        name = ex.str("name")
        if ex.sym:
            c0 = name[:1]
            under = z3.PrefixOf(z3.StringVal("_"), name.e)
            ex.assume(under if first == "_" else z3.Not(under))
        if ex.sym:
            o = modelled(cls)()
            ex.assume(z3.InRe(name.e, ALPHABET))
            ex.assume(z3.Length(name.e) <= MAXLEN)
            # explicit traits never reach __prefix_trait__ (the C look-up finds them first)
            for n in o._class_traits():
                ex.assume(name != n)
        else:
            o = cls()
            import re
            ex.assume(re.fullmatch("[A-Za-z0-9_]*", name) is not None and name not in o._class_traits())
        table = type(o).__prefix_traits__
        exc = None
        res = None
        try:
            res = o.__prefix_trait__(name, 1 if is_set else 0)
        except (AttributeError, SystemError) as e:
            exc = type(e).__name__
        prefixes = list(table["*"])
        # ---- independent specification ----
        if ex.sym:
            n = name.e
            is_dunder = z3.And(z3.PrefixOf(z3.StringVal("__"), n), z3.SuffixOf(z3.StringVal("__"), n))
            dunder = ex.decide(is_dunder)
        else:
            dunder = name[:2] == "__" and name[-2:] == "__"
        if dunder:
            if bool(name == "__class__"):
                ex.check(res is ht.generic_trait, "__class__ is governed by the generic trait")
            elif is_set:
                ex.check(res is ht.any_trait, "dunder names can be set freely (any_trait)")
            else:
                ex.check(exc == "AttributeError", "reading an undefined dunder name raises AttributeError")
            return {"exc": exc, "which": "dunder"}
        # delegate special case: name_ where name is a delegate
        if cls is P7 and bool(name == "val_"):
            ex.check(res is not None and res.type == "delegate", "name_ of a delegate is governed by a clone of the delegate")
            return {"exc": exc, "which": "delegate_"}
        # longest matching prefix
        matching = [p for p in prefixes if bool(name[: len(p)] == p)] if not ex.sym else None
        if ex.sym:
            # decide, for every prefix in the table, whether it is a prefix of the name (forks); then take the longest
            matching = [p for p in prefixes if ex.decide(z3.PrefixOf(z3.StringVal(p), name.e))]
        ex.check(exc is None and res is not None, "every non-dunder name is governed by some trait ('' matches everything)")
        if res is not None and matching:
            want = max(matching, key=len)
            base = table[want]
            same_template = (res is base) or (res.handler is base.handler and res.type == base.type
                                              and res.default_value() == base.default_value())
            ex.check(same_template, "the governing wildcard trait is the one with the longest matching prefix")
            which = want
        else:
            which = None
        ex.check(prefixes == sorted(prefixes, key=len, reverse=True), "prefix table is ordered longest first")
        return {"exc": exc, "which": which}
    return harness


# ---- (b) policies through the interpreted C access path -----------------------------------------------------------
def mk_Q():
    class Q(HasTraits):
        ro = ReadOnly
        ro_d = ReadOnly(5)
        ro_dyn = ReadOnly
        k = Constant(42)
        ev = Event(Int)
        n = Int(1)
        foo_ = Int
        foo_bar_ = Str

        def _ro_dyn_default(self):
            return 9
    return Q


def mk_QS():
    class QS(HasStrictTraits):
        n = Int(1)
        tmp_ = Any
        ro = ReadOnly
    return QS


def mk_QP():
    class QP(HasPrivateTraits):
        n = Int(1)
    return QP


NAMES = {"Q": ["ro", "ro_d", "ro_dyn", "k", "ev", "n", "foo_1", "foo_bar_2", "plain", "_priv"],
         "QS": ["n", "ro", "tmp_1", "undeclared", "_x"],
         "QP": ["n", "_priv", "pub"]}
CLASSES = {"Q": mk_Q, "QS": mk_QS, "QP": mk_QP}   # fresh class per run: resolved wildcard names are cached per class


def spec_governing(cls, o, name, inst_added):
    """independent statement of the rule: instance trait, else class trait, else longest wildcard, else class default"""
    if name in inst_added:
        return ("instance", inst_added[name])
    ct = cls.__class_traits__ if hasattr(cls, "__class_traits__") else {}
    cts = o._class_traits()
    if name in cts and not name.endswith("_items"):
        tr = cts[name]
        return ("class", tr)
    best = max((p for p in cls.__prefix_traits__["*"] if name.startswith(p)), key=len)
    return ("prefix", cls.__prefix_traits__[best])


def kind_of(tr):
    """policy of a trait definition, read from documented introspection only"""
    h = tr.handler
    t = tr.type
    if t == "event":
        return "event"
    if t == "constant":
        return "constant"
    hn = type(h).__name__ if h is not None else ""
    if hn == "ReadOnly" or (hn == "TraitType" and False):
        return "readonly"
    if hn == "Disallow":
        return "disallow"
    if hn == "Python":
        return "python"
    if hn == "Constant":
        return "constant"
    return "trait"


def access(ex, it, o, op, name, value):
    """perform read / write / delete; returns ('ok', result) or ('raised', class name)"""
    if ex.sym:
        os_ = cenv.hastraits_struct(it, o)
        with cenv.python_side_env():
            if op == "read":
                r = it.call("has_traits_getattro", [os_, name])
                failed = r is NULL
            else:
                rc = it.call("has_traits_setattro", [os_, name, value if op == "write" else NULL])
                r, failed = None, rc != 0
        if failed:
            e = it.st.err
            it.st.err = None
            return ("raised", e[0].__name__)
        return ("ok", r)
    try:
        if op == "read":
            return ("ok", getattr(o, name))
        if op == "write":
            setattr(o, name, value)
        else:
            delattr(o, name)
        return ("ok", None)
    except Exception as e:
        return ("raised", type(e).__name__)


def policy_harness(cname, k, first=None):
    """first = (operation index, name index) of the first step, fixed per obligation instance only to spread the work over the pool"""
    names = NAMES[cname]

    def harness(ex):
        cls = CLASSES[cname]()
        o = cls()
        it = cenv.new_interp() if ex.sym else None
        inst = {}
        written = {}       # name -> last value successfully stored (our model of the object's state)
        trace = []
        auto = set()
        if cname == "Q" and ex.flag("trait_added_listener"):
            # a trait_added listener that gives the freshly resolved name an instance trait
            auto = {"plain", "foo_1"}

            def on_added(new):
                if new in auto and new not in inst:
                    o.add_trait(new, Str("inst"))
                    inst[new] = o._instance_traits()[new]
            o.on_trait_change(on_added, "trait_added")
        for step in range(k):
            if step == 0 and first is not None:
                op, name = ["read", "write", "delete", "add_trait", "remove_trait", "write_bad"][first[0]], names[first[1]]
            else:
                op = ["read", "write", "delete", "add_trait", "remove_trait", "write_bad"][ex.choice("op%d" % step, 6)]
                name = names[ex.choice("name%d" % step, len(names))]
            if op == "add_trait":
                if name in o._class_traits() and kind_of(o._class_traits()[name]) not in ("trait", "event"):
                    continue
                o.add_trait(name, Str("inst"))          # real (compiled) call: concrete
                inst[name] = o._instance_traits()[name]
                if it is not None:
                    it.__dict__.pop("_ht_cache", None)
                trace.append("add:" + name)
                continue
            if op == "remove_trait":
                if name not in inst:
                    continue
                removed = o.remove_trait(name)
                ex.check(removed is True and name not in o._instance_traits(),
                         "remove_trait removes the instance trait (whether or not a value was ever stored) and says so")
                ex.check(name not in o.__dict__, "remove_trait takes the value away as well")
                inst.pop(name, None)
                written.pop(name, None)
                if it is not None:
                    it.__dict__.pop("_ht_cache", None)
                trace.append("rm:" + name)
                continue
            if name in auto and name not in inst and name not in o._class_traits():
                # first access resolves the name, the listener adds an instance trait: that one governs from now on
                rule, tr = "instance", None
                pol = "trait"
                value = "s%d" % step
                before = dict(o.__dict__)
                res = access(ex, it, o, op, name, value)
                after = dict(o.__dict__)
                trace.append("%s:%s:%s" % (op, name, res[0]))
                if op == "write":
                    ex.check(res[0] == "ok" and after.get(name) == value, "first write is governed by the instance trait added on trait_added")
                elif op == "read":
                    ex.check(res == ("ok", "inst"), "first read is governed by the instance trait added on trait_added")
                continue
            rule, tr = spec_governing(cls, o, name, inst)
            pol = kind_of(tr)
            value = "s%d" % step if (rule == "instance" or (pol == "trait" and isinstance(tr.handler, Str))) else 7 + step
            if op == "write_bad":
                # a value of the wrong type for a TYPED governing trait (Int / Str, also as the type of an Event): rejected
                # whether or not anybody listens, and nothing changes
                typed = tr.handler if pol == "trait" else (getattr(tr.handler, "trait", None) if pol == "event" else None)
                typed = getattr(typed, "handler", typed)
                if isinstance(typed, Str):
                    bad = 5
                elif isinstance(typed, Int):
                    bad = "not-an-int"
                else:
                    continue
                before = dict(o.__dict__)
                res = access(ex, it, o, "write", name, bad)
                trace.append("write_bad:%s:%s" % (name, res[0]))
                ex.check(res == ("raised", "TraitError") and dict(o.__dict__) == before,
                         "a value invalid for the governing trait is rejected with TraitError")
                continue
            before = dict(o.__dict__)
            res = access(ex, it, o, op, name, value)
            trace.append("%s:%s:%s" % (op, name, res[0] if res[0] == "raised" else "ok"))
            after = dict(o.__dict__)
            if pol == "event":
                if op == "read":
                    ex.check(res == ("raised", "AttributeError"), "an Event cannot be read")
                elif op == "write":
                    ex.check(res[0] == "ok" and name not in after, "an Event can be written and stores nothing")
            elif pol == "constant":
                if op == "read":
                    ex.check(res == ("ok", 42), "a Constant reads as its value")
                else:
                    ex.check(res == ("raised", "TraitError") and after == before, "a Constant never changes")
            elif pol == "readonly":
                has_default = tr.default_value()[1] is not Undefined
                defined = name in before and before[name] is not Undefined
                if op == "write":
                    if has_default or defined:
                        ex.check(res == ("raised", "TraitError") and after == before,
                                 "a ReadOnly attribute accepts no second defining assignment")
                    else:
                        ex.check(res[0] == "ok" and after.get(name) == value, "a ReadOnly attribute accepts exactly one defining assignment")
                elif op == "delete":
                    ex.check(res == ("raised", "TraitError") and after == before, "a ReadOnly attribute cannot be deleted")
            elif pol == "disallow":
                if op == "read":
                    ex.check(res == ("raised", "AttributeError"), "undeclared names on a strict class cannot be read")
                elif op == "write":
                    ex.check(res == ("raised", "TraitError") and after == before, "undeclared names on a strict class cannot be written")
            elif pol == "python":
                if op == "write":
                    ex.check(res[0] == "ok" and after.get(name) == value, "plain Python attribute: stored as is")
                elif op == "read":
                    ex.check((res == ("ok", before[name])) if name in before else res == ("raised", "AttributeError"),
                             "plain Python attribute: reads what was stored, else AttributeError")
            else:
                h = tr.handler
                if op == "write":
                    ok_val = isinstance(value, str) if isinstance(h, Str) else (isinstance(value, int) if isinstance(h, (Int,)) else True)
                    if ok_val:
                        ex.check(res[0] == "ok" and after.get(name) == value, "a value valid for the governing trait is stored")
                    else:
                        ex.check(res == ("raised", "TraitError") and after == before,
                                 "a value invalid for the governing trait is rejected with TraitError")
                elif op == "read" and name in before:
                    ex.check(res == ("ok", before[name]), "reads return the stored value")
                elif op == "read":
                    dv = tr.default_value()[1]
                    ex.check(res[0] == "ok" and (res[1] == dv or tr.default_value()[0] != 0), "first read returns the governing trait's default")
        return {"trace": trace}
    return harness


DELEG = [("_scratch", "scratch"), ("cache", "_cache"), ("tmp_alias", "other"), ("other", "tmp_9"), ("_n", "n"), ("m", "n"),
         ("_p", "_q"), ("tmp_1", "tmp_2")]


def delegated_write_harness(cname):
    """a write that reaches an object through a RENAMING delegation is governed by the rule of the target name on the delegate
    (not by the name used on the deferring object): strict / private / wildcard rules of the delegate's class"""
    def harness(ex):
        cls = CLASSES[cname]()
        store = cls()
        which = ex.choice("delegation", len(DELEG))
        fa, target = DELEG[which]
        Front = type("Front", (HasTraits,), {"store": Instance(cls), fa: DelegatesTo("store", prefix=target, listenable=False)})
        front = Front(store=store)
        it = cenv.new_interp() if ex.sym else None
        rule, tr = spec_governing(cls, store, target, {})
        pol = kind_of(tr)
        for step in range(2):
            value = [7, "text", None][ex.choice("value%d" % step, 3)]
            before = dict(store.__dict__)
            res = access(ex, it, front, "write", fa, value)
            after = dict(store.__dict__)
            ex.check(fa not in front.__dict__ or fa == "store", "a delegated write stores nothing on the deferring object")
            if pol == "disallow":
                ex.check(res[0] == "raised" and after == before,
                         "a delegated write to a name the delegate's class does not allow is rejected and stores nothing")
            elif pol == "python":
                ex.check(res[0] == "ok" and target in after and after[target] is value and
                         {k_: v_ for k_, v_ in after.items() if k_ != target} == {k_: v_ for k_, v_ in before.items() if k_ != target},
                         "a delegated write to a plain attribute of the delegate stores the value there, under the target name only")
            elif pol == "readonly":
                pass
            else:
                h = tr.handler
                ok_val = isinstance(value, int) if isinstance(h, Int) else True
                if ok_val:
                    ex.check(res[0] == "ok" and after.get(target) == value and set(after) - set(before) <= {target},
                             "a delegated write valid for the target's trait is stored under the target name only")
                else:
                    ex.check(res[0] == "raised" and after == before, "a delegated write invalid for the target's trait is rejected")
        return {"delegation": [fa, target], "policy": pol}
    return harness


def transplanted_definition_harness(ex):
    """a trait definition taken from one class (as is, or through copy / deepcopy / pickle) and added to another object with
    add_trait keeps its policy; remove_trait takes the definition AND the value away, and the class's own rule is back"""
    import copy
    import pickle

    class Template(HasTraits):
        serial = ReadOnly
        fixed = Constant(42)
        ev = Event(Int)
        num = Int(3)

    kind = ["serial", "fixed", "ev", "num"][ex.choice("definition", 4)]
    how = ["as-is", "copy", "deepcopy", "pickle2", "pickle4"][ex.choice("transplant", 5)]
    strict = ex.flag("strict_target")
    d = Template().trait(kind)
    if how == "copy":
        d = copy.copy(d)
    elif how == "deepcopy":
        d = copy.deepcopy(d)
    elif how.startswith("pickle"):
        if kind == "serial":
            return {"skipped": "the ReadOnly definition cannot be pickled at all (trait_types rebinds the class name to an "
                               "instance): recorded under C14 as a known finding"}
        d = pickle.loads(pickle.dumps(d, protocol=int(how[-1])))

    class Open(HasTraits):
        pass

    class Strict(HasStrictTraits):
        pass
    o = (Strict if strict else Open)()
    name = "thing"
    o.add_trait(name, d)

    def attempt(op, value=None):
        try:
            if op == "read":
                return ("ok", getattr(o, name))
            if op == "write":
                setattr(o, name, value)
            else:
                delattr(o, name)
            return ("ok", None)
        except Exception as e:
            return ("raised", type(e).__name__)

    if kind == "serial":
        ex.check(attempt("read") == ("ok", Undefined), "a transplanted ReadOnly reads as Undefined before it is defined")
        ex.check(attempt("write", 11)[0] == "ok" and o.__dict__.get(name) == 11, "... accepts exactly one defining assignment")
        ex.check(attempt("write", 12) == ("raised", "TraitError") and o.__dict__.get(name) == 11, "... and no second one")
        ex.check(attempt("delete") == ("raised", "TraitError") and o.__dict__.get(name) == 11, "... and cannot be deleted")
    elif kind == "fixed":
        ex.check(attempt("read") == ("ok", 42), "a transplanted Constant reads as its value")
        ex.check(attempt("write", 43) == ("raised", "TraitError") and attempt("read") == ("ok", 42), "... and never changes")
        ex.check(attempt("delete")[0] == "raised" and attempt("read") == ("ok", 42), "... nor can it be deleted")
    elif kind == "ev":
        ex.check(attempt("write", 5)[0] == "ok" and name not in o.__dict__, "a transplanted Event can be written and stores nothing")
        ex.check(attempt("read") == ("raised", "AttributeError"), "... and cannot be read")
        ex.check(attempt("write", "x") == ("raised", "TraitError"), "... and validates what is fired")
    else:
        ex.check(attempt("read") == ("ok", 3), "a transplanted Int reads as its default")
        ex.check(attempt("write", "x") == ("raised", "TraitError") and o.__dict__.get(name, 3) == 3, "... rejects invalid values")
        ex.check(attempt("write", 8)[0] == "ok" and o.__dict__.get(name) == 8, "... and stores valid ones")
    removed = o.remove_trait(name)
    ex.check(removed is True and name not in o._instance_traits(), "remove_trait removes the instance trait and says so")
    ex.check(name not in o.__dict__, "remove_trait takes the value away as well")
    res = attempt("read")
    ex.check(res == ("raised", "AttributeError"), "after remove_trait the class's own rule governs the name again: nothing to read")
    if strict:
        ex.check(attempt("write", 1) == ("raised", "TraitError") and name not in o.__dict__,
                 "... and on a strict class nothing to write")
    else:
        ex.check(attempt("write", "anything")[0] == "ok" and o.__dict__.get(name) == "anything", "... and a plain attribute to write")
    return {"definition": kind, "how": how}


def dunder_harness(cname):
    """names of the form __xxx__ that no trait declares follow the class default rule of EVERY HasTraits class: they cannot be read
    before they exist (AttributeError), the first write creates a plain attribute, later reads return it - through attribute
    assignment (has_traits_setattro interpreted from the source) and through a constructor keyword"""
    def harness(ex):
        cls = CLASSES[cname]()
        o = cls()
        it = cenv.new_interp() if ex.sym else None
        name = ["__vt_meta__", "__x__", "__vt_a_b__"][ex.choice("name", 3)]
        used = ex.flag("another_instance_used_the_name_before")
        if used:
            try:
                setattr(cls(), name, 0)     # (the resolved name is then cached by the class and reads as None: by design)
            except Exception:
                ex.check(False, "the first write of an undeclared __xxx__ name creates the attribute (class default rule)")
                return {"class": cname}
        res = access(ex, it, o, "read", name, None)
        if not used:
            ex.check(res == ("raised", "AttributeError"), "an undeclared __xxx__ name cannot be read before it exists")
        res = access(ex, it, o, "write", name, 5)
        ex.check(res[0] == "ok" and o.__dict__.get(name) == 5, "the first write of an undeclared __xxx__ name creates the attribute (class default rule)")
        res = access(ex, it, o, "read", name, None)
        ex.check(res == ("ok", 5), "... which then reads as written")
        res = access(ex, it, o, "write", name, "text")
        ex.check(res[0] == "ok" and o.__dict__.get(name) == "text", "... and is untyped")
        try:
            o2 = cls(**{"__vt_ctor__": 3})
            got = o2.__dict__.get("__vt_ctor__")
        except Exception as e:
            got = type(e).__name__
        ex.check(got == 3, "a constructor keyword follows the same rule")
        return {"class": cname}
    return harness


def companions_harness(cname):
    """add_trait(name, <container or mapped trait>) also defines companion names (<name>_items, <name>_); remove_trait(name) takes
    them away again: afterwards EVERY name is governed as before the trait was added"""
    from traits.api import List, Dict, Set, Map

    def harness(ex):
        cls = CLASSES[cname]()
        o = cls()
        kind = ex.choice("added", 4)
        mk = [lambda: List(Int), lambda: Dict(Str, Int), lambda: Set(Int), lambda: Map({"a": 1, "b": 2})][kind]
        before = sorted(n_ for n_ in o._instance_traits() if n_ != "trait_added")
        o.add_trait("extra", mk())
        if ex.flag("value_assigned"):
            o.extra = [[1], {"k": 1}, {1}, "b"][kind]
        companion = "extra_" if kind == 3 else "extra_items"
        ex.check(companion in o._instance_traits(), "(fixture) the companion name is defined with the trait")
        removed = o.remove_trait("extra")
        ex.check(removed is True and sorted(n_ for n_ in o._instance_traits() if n_ != "trait_added") == before,
                 "remove_trait takes the trait AND its companion names away")
        ex.check("extra" not in o.__dict__ and companion not in o.__dict__, "... with their values")
        strict = cname in ("QS", "QP")          # undeclared public names are rejected by HasStrictTraits and HasPrivateTraits alike
        for name in ("extra", companion):
            try:
                setattr(o, name, 5)
                res = "ok"
            except TraitError:
                res = "TraitError"
            if strict:
                ex.check(res == "TraitError", "after the removal the class rule governs the name again: an undeclared name of a strict class cannot be written")
            else:
                ex.check(res == "ok" and o.__dict__.get(name) == 5, "after the removal the class rule governs the name again: a plain, untyped attribute")
        return {"class": cname, "kind": kind}
    return harness


def obligations(tier, build):
    cenv.load_program(build)
    obs = []
    for cname in CLASSES:
        obs.append(Obligation("dunder-names/%s" % cname, dunder_harness(cname), stubs=STUBS,
                              bounds={"class": cname, "names": "three __xxx__ names", "entry points": ["attribute access (interpreted)", "constructor keyword"]},
                              leverage="choice feasibility only"))
        obs.append(Obligation("companions/%s" % cname, companions_harness(cname), stubs=[],
                              bounds={"class": cname, "added": ["List", "Dict", "Set", "Map"]}, leverage="choice feasibility only"))
    for cls in FIXTURES:
      if tier == "quick" and cls in (P3, P6):
          continue
      for is_set in (False, True):
        for first in ("_", "other"):
          obs.append(Obligation("prefix_trait/%s/%s/first=%s" % (cls.__name__, "set" if is_set else "get", first),
                              prefix_harness(cls, is_set, first), stubs=STUBS,
                              bounds={"name": "any string over [A-Za-z0-9_] of length <= %d" % MAXLEN,
                                      "class": cls.__name__, "prefix table": list(cls.__prefix_traits__["*"])},
                              leverage="the attribute name (z3 strings)", max_paths=5000, query_timeout_ms=60000, path_wall_s=180))
    obs.append(Obligation("transplanted-definitions", transplanted_definition_harness,
                          bounds={"definitions": ["ReadOnly", "Constant", "Event(Int)", "Int"],
                                  "transplant": ["as is", "copy.copy", "copy.deepcopy", "pickle 2", "pickle 4"], "target class": ["HasTraits", "HasStrictTraits"]},
                          leverage="choice feasibility only (compiled code runs concretely)"))
    for cname in ("QS", "QP", "Q"):
        obs.append(Obligation("delegated-write/%s" % cname, delegated_write_harness(cname), stubs=STUBS,
                              bounds={"delegations (name on the deferring object -> target name)": ["%s -> %s" % d_ for d_ in DELEG],
                                      "writes": 2, "values": [7, "text", None]},
                              leverage="choice feasibility only; has_traits_setattro / setattr_delegate interpreted from the C source"))
    K = 2 if tier == "quick" else 3
    for cname in CLASSES:
        # partitioned by the first step (operation, name) in both tiers: one process per first step
        firsts = [(a, b) for a in range(6) for b in range(len(NAMES[cname]))]
        for first in firsts:
            obs.append(Obligation("policy/%s/k=%d%s" % (cname, K, "" if first is None else "/first=%d-%d" % first),
                                  policy_harness(cname, K, first), stubs=STUBS,
                                  bounds={"history length": K, "operations": ["read", "write", "delete", "add_trait", "remove_trait", "write_bad"],
                                          "names": NAMES[cname]},
                                  leverage="choice feasibility only (concrete names)", max_paths=600000))
    return obs
