"""C05 - TraitList refines list and its change events are faithful normalised deltas.

Real code executed symbolically: every TraitList mutator, _normalize_slice_or_index, _removed_items
(traits/trait_list_object.py), on `class ATL(TraitList, ListModel)`; module globals `slice` and
`operator` of trait_list_object are shadowed by MSlice / OpModel for the duration of a symbolic run.
One-step obligations from an arbitrary state (contents of length n): TraitList keeps no state besides
the list contents, the validator and the notifier list (asserted: vars() unchanged), so the one-step
result is inductive over histories.
"""
import contextlib

import z3

from vt import symx, envmodels
from vt.symx import SymInt, SymBool
from vt.envmodels import MSlice, ListModel, OpModel, classify, positions, is_slice
from vt.oblig import Obligation

import traits.trait_list_object as tlo
from traits.trait_errors import TraitError

LEVEL = "model_checking"
ENCODED = [("traits/trait_list_object.py",
            ["_normalize_slice_or_index", "_removed_items", "TraitList.__init__", "TraitList.notify",
             "TraitList.__delitem__", "TraitList.__iadd__", "TraitList.__imul__", "TraitList.__setitem__",
             "TraitList.append", "TraitList.clear", "TraitList.extend", "TraitList.insert", "TraitList.pop",
             "TraitList.remove", "TraitList.reverse", "TraitList.sort"])]
EXPLANATION = ("Bounded symbolic execution of the real TraitList methods on z3 Int proxies: every integer index, "
               "slice field, insert/pop position and *= factor is an unbounded mathematical integer (or None); "
               "list length n, replacement length m and item identities are concrete per obligation instance. "
               "Path tree exhausted per obligation; each check is a z3 unsat verdict under the path condition.")
STUBS = ["builtin slice -> vt.envmodels.MSlice (indices() after PySlice_AdjustIndices; differential self-test vs slice)",
         "operator.index -> identity on int proxies",
         "list.__getitem__/__setitem__/__delitem__/insert/pop/__imul__ -> vt.envmodels.ListModel (classification "
         "of a symbolic index against the concrete length, then the real list operation on concrete positions; "
         "differential self-test vs list)"]


class ATL(tlo.TraitList, ListModel):
    pass


@contextlib.contextmanager
def sym_env():
    import sys
    import traits.observation._list_change_event    # noqa: F401
    had_slice = "slice" in tlo.__dict__
    old_slice = tlo.__dict__.get("slice")
    old_op = tlo.operator
    tlo.slice = envmodels.SliceShadow
    tlo.operator = OpModel()
    # the event factories / observers of traits.observation receive the (model) slice objects as well: a type test on them there
    # must answer as it does for built-in slices
    obs_mods = [m for n_, m in list(sys.modules.items()) if n_.startswith("traits.observation.") and m is not None
                and "slice" not in m.__dict__]
    for m in obs_mods:
        m.slice = envmodels.SliceShadow
    try:
        yield
    finally:
        for m in obs_mods:
            del m.slice
        tlo.operator = old_op
        if had_slice:
            tlo.slice = old_slice
        else:
            del tlo.slice


def selftest(tier):
    return envmodels.selftest(maxlen=4 if tier == "quick" else 6, span=6 if tier == "quick" else 8)


BAD = "bad-item"


def validator(item):
    """transforming + rejecting item validator (items are ints or the BAD marker)"""
    if item == BAD:
        raise TraitError("invalid item")
    if isinstance(item, int) and 200 <= item < 300:
        return item + 1000          # 'validated items' differ from the raw ones
    return item


class K:
    """list item with a (symbolic) sort key and a concrete identity: ties are distinguishable"""
    __slots__ = ("ident", "key")

    def __init__(self, ident, key):
        self.ident, self.key = ident, key

    def __lt__(self, o): return self.key < o.key
    def __gt__(self, o): return self.key > o.key
    def __le__(self, o): return self.key <= o.key
    def __ge__(self, o): return self.key >= o.key
    def __eq__(self, o): return isinstance(o, K) and self.key == o.key
    def __ne__(self, o): return not isinstance(o, K) or self.key != o.key
    __hash__ = None
    def __repr__(self): return "K%d" % self.ident
    def __sym_eval__(self, model): return "K%d" % self.ident


def ids(lst):
    return [x.ident if isinstance(x, K) else x for x in lst]


def negkey(item):
    return -item.key


def slice_parts():
    """all (none-mask, sign-class) instances of a slice obligation, encoded in one int"""
    out = []
    for mask in range(8):
        for signs in range(8):
            if any((mask >> i) & 1 and (signs >> i) & 1 for i in range(3)):
                continue      # a None field has no sign class
            out.append(mask | (signs << 3))
    return out


def part_name(p):
    f = lambda i: "N" if (p >> i) & 1 else ("-" if (p >> (3 + i)) & 1 else "+")
    return "part=%s%s%s" % (f(0), f(1), f(2))


def mk_key(ex, kind, mask=None):
    """mask: None -> each slice field is a symbolic Optional[int]; else a 3-bit number fixing which fields are None
    (the obligation is split into 8 instances only to balance the process pool)"""
    if kind == "int":
        i = ex.int("i")
        if not ex.sym and (getattr(ex, "index_objects", False) or ex.values.get("__index_objects__")):
            return symx.IndexObj(i)
        return i
    if mask is None:
        start, stop, step = ex.opt_int("start"), ex.opt_int("stop"), ex.opt_int("step")
    else:
        signs = mask >> 3       # bits 3..5: sign class of start/stop/step (1: negative, 0: non-negative)
        start = None if mask & 1 else ex.int("start")
        stop = None if mask & 2 else ex.int("stop")
        step = None if mask & 4 else ex.int("step")
        if ex.sym:
            for i, f in enumerate((start, stop, step)):
                if f is not None:
                    ex.assume(f < 0 if (signs >> i) & 1 else f >= 0)
    return MSlice(start, stop, step) if ex.sym else slice(start, stop, step)


def new_items(ex, m):
    """m replacement items; a symbolic selector puts the invalid item at one position (or nowhere)"""
    items = [200 + j for j in range(m)]
    if m:
        bad = ex.choice("badpos", m + 1)   # m == no bad item
        if bad < m:
            items[bad] = BAD
    return items


def apply(op, lst, key, new, k, is_ref):
    """apply operation `op` to lst; for the reference list the items are validated first"""
    if is_ref:
        if op in ("set_int", "insert", "append"):
            new = validator(new)
        elif op in ("set_slice", "extend", "iadd"):
            new = [validator(x) for x in new]
    if op == "set_int" or op == "set_slice":
        lst[key] = new
    elif op == "del_int" or op == "del_slice":
        del lst[key]
    elif op == "insert":
        lst.insert(key, new)
    elif op == "pop":
        return lst.pop(key)
    elif op == "pop_default":
        return lst.pop()
    elif op == "imul":
        lst *= k
    elif op == "append":
        lst.append(new)
    elif op == "extend":
        lst.extend(new)
    elif op == "iadd":
        lst += new
    elif op == "iadd_self":
        lst += lst
    elif op == "extend_self":
        lst.extend(lst)
    elif op == "setslice_self":
        lst[key] = lst
    elif op == "clear":
        lst.clear()
    elif op == "reverse":
        lst.reverse()
    elif op == "sort":
        lst.sort(reverse=k[0], key=negkey if k[1] else None)
    elif op == "remove":
        lst.remove(new)
    else:
        raise AssertionError(op)
    return None


def check_event(ex, ev, before, after_expected_from_replay, n, op):
    """the replay law for one event; index facts are discharged as formulas over the symbolic index"""
    idx, removed, added = ev
    if is_slice(idx):
        s, e, st = idx.start, idx.stop, idx.step
        ok = ex.check(all(isinstance(x, (int, SymInt)) and not isinstance(x, bool) for x in (s, e, st)),
                      "event slice fields are integers")
        if not ok:
            return None
        nf = ex.check(z3.And(symx._z(s) >= 0, symx._z(s) < symx._z(e), symx._z(e) <= n, symx._z(st) >= 2)
                      if ex.sym else (0 <= s < e <= n and st >= 2), "event slice normal form 0<=start<stop<=n, step>=2")
        if not nf:
            return None
        pos, _ = positions(idx, n) if ex.sym else (list(range(s, e, st)), None)
        ex.check([before[p] for p in pos] == removed, "event slice selects exactly the removed items")
        replay = list(before)
        if added:
            if not ex.check(len(added) == len(pos), "extended-slice event: len(added) == len(removed)"):
                return None
            for p, v in zip(pos, added):
                replay[p] = v
        else:
            for p in sorted(pos, reverse=True):
                del replay[p]
        return replay
    ok = ex.check(isinstance(idx, (int, SymInt)) and not isinstance(idx, bool), "event index is an integer")
    if not ok:
        return None
    inr = ex.check(z3.And(symx._z(idx) >= 0, symx._z(idx) <= n) if ex.sym else 0 <= idx <= n,
                   "event index within 0..old length")
    if not inr:
        return None
    ci = classify(idx, 0, n) if ex.sym else idx
    ex.check(before[ci:ci + len(removed)] == removed, "event removed == old items at index")
    return before[:ci] + added + before[ci + len(removed):]


def make_harness(op, n, m=0, use_validator=True, mask=None, factory=None, twins=False):
    """factory: None -> a bare TraitList; else an owner-backed TraitListObject with every notification route attached
    (props/_owners.list_factory).  twins: every item, old or new, is a distinct object that compares EQUAL to all others, so
    'the contents changed' is a matter of identity and a replacement by an equal object still has to be announced."""
    keykind = {"set_int": "int", "del_int": "int", "insert": "int", "pop": "int",
               "set_slice": "slice", "del_slice": "slice", "setslice_self": "slice"}.get(op)

    def harness(ex):
        events = []

        def notifier(lst, index, removed, added):
            events.append((index, list(removed), list(added), list(lst)))

        items = [100 + i for i in range(n)]
        if op in ("sort", "remove", "reverse"):
            # symbolic sort keys, concrete identities: every weak ordering (incl. ties) is a path class
            items = [K(i, ex.int("key%d" % i)) for i in range(n)]
        elif twins:
            items = [K(i, 0) for i in range(n)]
        extra = None
        if factory is None:
            TL = ATL if ex.sym else tlo.TraitList
            kw = {"item_validator": validator} if use_validator else {}
            tl = TL(items, notifiers=[notifier], **kw)
        else:
            tl, extra = factory(ex, items, validator, notifier)
        ref = ListModel(items) if ex.sym else list(items)
        vars_before = sorted(vars(tl))
        before = list(tl)
        key = mk_key(ex, keykind, mask) if keykind else None
        k = None
        new = None
        if op == "imul":
            k = ex.int("k")
            if n > 0:
                ex.assume(k <= ListModel.IMUL_MAX)
        if op in ("set_int", "insert", "append"):
            new = BAD if ex.flag("bad") else (K(900, 0) if twins else 200)
        elif op in ("set_slice", "extend", "iadd"):
            new = new_items(ex, m)
            if twins:
                new = [x if x == BAD else K(900 + j, 0) for j, x in enumerate(new)]
        elif op == "remove":
            new = K(99, ex.int("needle"))
        elif op == "sort":
            k = (ex.flag("reverse"), ex.flag("usekey"))
        exc_t = exc_r = None
        ret_t = ret_r = None
        try:
            ret_t = apply(op, tl, key, new, k, False)
        except (IndexError, ValueError, TypeError, TraitError, AttributeError, LookupError, RuntimeError, NameError, ArithmeticError) as e:
            exc_t = type(e).__name__
        try:
            ret_r = apply(op, ref, key, new, k, True)
        except (IndexError, ValueError, TypeError, TraitError, AttributeError, LookupError, RuntimeError, NameError, ArithmeticError) as e:
            exc_r = type(e).__name__
        after = ids(tl)
        before = ids(before)
        events = [(e[0], ids(e[1]), ids(e[2]), ids(e[3])) for e in events]
        ref = ids(ref)
        # when the operation is invalid for list AND an item is invalid, either class may surface first
        exc_l = exc_r
        if exc_r == "TraitError":
            good = 200 if not isinstance(new, list) else [200 + j for j in range(len(new))]
            try:
                apply(op, ListModel(before) if ex.sym else list(before), key, good, k, True)
                exc_l = None
            except (IndexError, ValueError, TypeError, OverflowError) as e:
                exc_l = type(e).__name__
        ex.check(exc_t == exc_r or (exc_r == "TraitError" and exc_l is not None and exc_t == exc_l),
                 "same exception class as list (TraitError for an invalid item)")
        ex.check(after == ref, "contents equal the built-in list's after the same operation")
        ex.check(ret_t == ret_r, "same return value as list")
        ex.check(sorted(vars(tl)) == vars_before, "no hidden state (vars unchanged)")
        if exc_t is not None:
            ex.check(after == before, "failing operation leaves the list untouched")
            ex.check(events == [], "failing operation is silent")
        if extra is not None:
            extra(ex, exc_t, tl)
        if after != before:
            ex.check(len(events) == 1, "exactly one event for a content change")
        else:
            ex.check(len(events) <= 1, "at most one event when nothing changes")
        for ev in events:
            replay = check_event(ex, ev[:3], before, after, n, op)
            if replay is not None:
                ex.check(replay == after, "replaying (index, removed, added) on the snapshot yields the contents after")
        return {"exc": exc_t, "after": after, "ret": ret_t,
                "events": [(e[0], e[1], e[2]) for e in events]}

    return harness


def norm_harness(ex):
    """Length-unbounded obligation on _normalize_slice_or_index alone: for symbolic n >= 0 (unbounded) and
    |step| <= 8 the normalised index/slice selects the same position set as the clamped triple."""
    n = ex.int("n", lo=0)
    start, stop = ex.opt_int("start"), ex.opt_int("stop")
    step = ex.choice("stepsel", 18)          # 0..16 -> -8..8 without 0 ; 17 -> None
    stepv = None if step == 17 else (step - 8 if step < 8 else step - 7)
    key = (MSlice if ex.sym else slice)(start, stop, stepv)
    s, e, st = key.indices(n)
    rev, idx = tlo._normalize_slice_or_index(key, n)
    Z = symx._z
    s, e, n_ = Z(s), Z(e), Z(n)
    a = abs(st)
    # reference: position set of the clamped triple = {first + j*a : 0 <= j < count} in ascending order
    if st > 0:
        count = z3.If(e > s, (e - s + (a - 1)) / a, 0)
        first = s
    else:
        count = z3.If(s > e, (s - e + (a - 1)) / a, 0)
        first = s - (count - 1) * a      # smallest selected position
    if ex.sym:
        count = z3.simplify(count)
    else:
        count = z3.simplify(count).as_long()
        first = z3.simplify(first).as_long() if z3.is_expr(first) else first
    ex.check(rev == (st < 0), "reversed flag iff negative step")
    if is_slice(idx):
        s2, e2, st2 = Z(idx.start), Z(idx.stop), Z(idx.step)
        cond = z3.And(s2 >= 0, s2 < e2, e2 <= n_, st2 >= 2, s2 + st2 < e2,
                      st2 == a, s2 == first, count >= 2, e2 == first + (count - 1) * a + 1)
        ex.check(cond if ex.sym else z3.is_true(z3.simplify(cond)),
                 "normalised slice: normal form and same position set (first, stride, count)")
        kind = "slice"
    else:
        i2 = Z(idx)
        # an integer result stands for: empty selection (unused), a single element, or a contiguous run (|step| == 1)
        cond = z3.And(i2 >= 0, i2 <= n_, z3.Or(count == 0, z3.And(i2 == first, z3.Or(count == 1, a == 1))))
        ex.check(cond if ex.sym else z3.is_true(z3.simplify(cond)),
                 "normalised integer: 0<=index<=n and (empty | single element | contiguous run from index)")
        kind = "int"
    return {"kind": kind, "rev": bool(rev), "idx": idx}


def wildcard_list_harness(ex):
    """a list trait that comes into being through a WILDCARD declaration (xs_ = List(Int)): the value refines list, and its items
    event reaches a listener of `<name>_items` - whether the listener was registered before or after the first in-place change"""
    from traits.api import HasTraits, Int, List, TraitError

    class W(HasTraits):
        xs_ = List(Int)

    o = W()
    o.xs_b = [1, 2]
    events = []
    early = ex.flag("items_listener_registered_before_the_first_mutation")
    handler = lambda obj, name, old, new: events.append((name, new.index, list(new.removed), list(new.added)))
    if early:
        o.on_trait_change(handler, "xs_b_items")
    op = ex.choice("op", 3)
    before = list(o.xs_b)
    exc = None
    try:
        if op == 0:
            o.xs_b.append(4)
        elif op == 1:
            o.xs_b[0] = 7
        else:
            del o.xs_b[0]
    except Exception as e:
        exc = type(e).__name__
    ref = list(before)
    [lambda: ref.append(4), lambda: ref.__setitem__(0, 7), lambda: ref.__delitem__(0)][op]()
    ex.check(exc is None, "a valid operation on a wildcard-declared list raises nothing")
    if exc is not None:
        ex.check(list(o.xs_b) == before, "failing operation changes nothing")
    else:
        ex.check(list(o.xs_b) == ref, "contents equal the built-in list's after the same operation")
        if early:
            ex.check(len(events) == 1 and events[0][0] == "xs_b_items", "exactly one items event reaches the listener")
    if not early:
        o.on_trait_change(handler, "xs_b_items")
        o.xs_b.append(9)
        ex.check(len(events) == 1 and events[0][3] == [9], "a listener registered after the first mutation hears the next one")
    try:
        o.xs_b.append("x")
        rej = False
    except TraitError:
        rej = True
    ex.check(rej, "the wildcard's item type is enforced")
    return {"early": early}


def notifiers_copied_harness(ex):
    """TraitList(items, notifiers=lst) takes the notifiers it is given at construction: what the caller does with ITS list
    afterwards, and what another TraitList built from the same list does, changes nothing"""
    got = {"a": [], "b": []}
    shared = [lambda tl, index, removed, added: got["a"].append((index, list(removed), list(added)))]
    a = tlo.TraitList([1, 2], notifiers=shared)
    b = tlo.TraitList([5], notifiers=shared)
    what = ex.choice("caller_then", 3)
    if what == 0:
        del shared[:]
    elif what == 1:
        shared.append(lambda tl, index, removed, added: got["b"].append("late"))
    else:
        b.notifiers.append(lambda tl, index, removed, added: got["b"].append("b only"))
    a.append(3)
    ex.check(got["a"] == [(2, [], [3])] and got["b"] == [], "a content change emits exactly one notification to the notifiers given at construction, "
                                                            "whatever became of the caller's list or of another TraitList's notifiers")
    ex.check(list(a) == [1, 2, 3] and list(b) == [5], "contents equal the built-in list's after the same operation")
    return {"what": what}


def obligations(tier, build):
    obs = []
    N = 4 if tier == "quick" else 6
    M = 2 if tier == "quick" else 4
    NS = 3 if tier == "quick" else 6      # slice obligations are the expensive ones
    common = dict(env=sym_env, stubs=STUBS)
    for n in range(N + 1):
        for op in ("set_int", "del_int", "insert", "pop", "imul", "del_slice", "pop_default", "append", "clear",
                   "reverse", "sort", "remove"):
            if op in ("sort", "reverse", "remove") and n > 4:
                continue
            if op == "del_slice" and n > NS:
                continue
            sym = op in ("set_int", "del_int", "insert", "pop", "imul", "del_slice", "sort", "remove")
            for mask in (slice_parts() if op == "del_slice" else [None]):
              obs.append(Obligation(
                "%s/n=%d%s" % (op, n, "" if mask is None else "/" + part_name(mask)), make_harness(op, n, mask=mask),
                bounds={"list length n": n, "index / slice fields / factor": "unbounded Int (or None)" if sym else "n/a",
                        "*= factor": "<= %d when n > 0" % ListModel.IMUL_MAX if op == "imul" else "n/a"},
                leverage="all integer arguments" if sym else "choice feasibility only (no integer argument)",
                assumes=(["list *= k: k <= %d for non-empty lists (result length bound)" % ListModel.IMUL_MAX]
                         if op == "imul" else []),
                **common))
        for m in range(M + 1):
            if n > NS:
                continue
            for mask in slice_parts():
              obs.append(Obligation(
                "set_slice/n=%d/m=%d/%s" % (n, m, part_name(mask)), make_harness("set_slice", n, m, mask=mask),
                bounds={"list length n": n, "replacement length m": m, "start/stop/step": "unbounded Int or None",
                        "invalid item": "at any one position or nowhere"},
                leverage="all slice fields", max_paths=60000, **common))
            if n <= 2:
                for op in ("extend", "iadd"):
                    obs.append(Obligation("%s/n=%d/m=%d" % (op, n, m), make_harness(op, n, m),
                                          bounds={"n": n, "m": m}, leverage="choice feasibility only", **common))
    # ---- the same one-step obligations on an owner-backed TraitListObject (List trait value) with the legacy items handler
    # and two observe handlers attached; items are equal-but-distinct twins, so a replacement by an equal object counts
    import props._owners as owners
    ocommon = dict(env=owners.list_env, stubs=STUBS + owners.STUBS)
    NO = 2 if tier == "quick" else 4
    MO = 2 if tier == "quick" else 3
    fac = owners.list_factory()
    for n in range(NO + 1):
        for op in ("set_int", "del_int", "insert", "pop", "imul", "del_slice", "pop_default", "append", "clear",
                   "reverse", "sort", "remove"):
            for mask in (slice_parts() if op == "del_slice" else [None]):
                obs.append(Obligation(
                    "owned/%s/n=%d%s" % (op, n, "" if mask is None else "/" + part_name(mask)),
                    make_harness(op, n, mask=mask, factory=fac, twins=True),
                    bounds={"list length n": n, "index / slice fields / factor": "unbounded Int (or None)",
                            "container": "TraitListObject owned by a HasTraits object; 1 legacy + 2 observe handlers",
                            "items": "pairwise equal, distinct objects"},
                    leverage="all integer arguments", **ocommon))
        for m in range(MO + 1):
            for mask in slice_parts():
                obs.append(Obligation(
                    "owned/set_slice/n=%d/m=%d/%s" % (n, m, part_name(mask)),
                    make_harness("set_slice", n, m, mask=mask, factory=fac, twins=True),
                    bounds={"list length n": n, "replacement length m": m, "start/stop/step": "unbounded Int or None",
                            "container": "TraitListObject owned by a HasTraits object; 1 legacy + 2 observe handlers"},
                    leverage="all slice fields", max_paths=60000, **ocommon))
            if n <= 1:
                for op in ("extend", "iadd"):
                    obs.append(Obligation("owned/%s/n=%d/m=%d" % (op, n, m), make_harness(op, n, m, factory=fac, twins=True),
                                          bounds={"n": n, "m": m}, leverage="choice feasibility only", **ocommon))
    if tier == "quick":
        # extended slices that select two or more items need a list of three (the event factories of observe see a slice index)
        for mask in slice_parts():
            obs.append(Obligation("owned/del_slice/n=3/" + part_name(mask), make_harness("del_slice", 3, mask=mask, factory=fac, twins=True),
                                  bounds={"list length n": 3, "index / slice fields / factor": "unbounded Int (or None)",
                                          "container": "TraitListObject owned by a HasTraits object; 1 legacy + 2 observe handlers"},
                                  leverage="all integer arguments", **ocommon))
        for mask in [p_ for p_ in slice_parts() if (p_ & 7) in (4, 7)]:
            obs.append(Obligation("owned/set_slice/n=3/m=2/" + part_name(mask), make_harness("set_slice", 3, 2, mask=mask, factory=fac, twins=True),
                                  bounds={"list length n": 3, "replacement length m": 2, "start/stop/step": "unbounded Int or None",
                                          "container": "TraitListObject owned by a HasTraits object; 1 legacy + 2 observe handlers"},
                                  leverage="all slice fields", max_paths=60000, **ocommon))
    for label, fac_ in (("owned-anytrait", owners.list_factory(route="anytrait")), ("owned-added", owners.list_factory(added=True)),
                        ("owned-added-anytrait", owners.list_factory(route="anytrait", added=True)),
                        ("owned-added-over", owners.list_factory(added="over"))):
        for n in (0, 1, 2):
            for op in ("set_int", "del_int", "insert", "pop", "append", "clear", "reverse", "imul"):
                obs.append(Obligation("%s/%s/n=%d" % (label, op, n), make_harness(op, n, factory=fac_, twins=True),
                                      bounds={"list length n": n, "container": "TraitListObject; " + label},
                                      leverage="all integer arguments", **ocommon))
    # the list itself as the operand
    for label, kw_ in (("self-operand", dict(env=sym_env, stubs=STUBS)), ("owned-self-operand", dict(factory=fac, twins=True, **ocommon))):
        hk = {k_: v_ for k_, v_ in kw_.items() if k_ in ("factory", "twins")}
        ok = {k_: v_ for k_, v_ in kw_.items() if k_ not in ("factory", "twins")}
        for n in range(0, 4):
            for op in ("iadd_self", "extend_self"):
                obs.append(Obligation("%s/%s/n=%d" % (label, op, n), make_harness(op, n, **hk),
                                      bounds={"list length n": n, "operand": "the list itself"}, leverage="choice feasibility only", **ok))
            if n <= 2:
                for mask in [p_ for p_ in slice_parts() if (p_ & 7) in (0, 3, 7)]:
                    obs.append(Obligation("%s/setslice_self/n=%d/%s" % (label, n, part_name(mask)), make_harness("setslice_self", n, mask=mask, **hk),
                                          bounds={"list length n": n, "operand": "the list itself", "start/stop/step": "unbounded Int or None"},
                                          leverage="all slice fields", max_paths=60000, **ok))
    falsy = owners.list_factory(falsy=True)
    for op in ("set_int", "append", "insert", "del_int"):
        obs.append(Obligation("owned-falsy/%s/n=1" % op, make_harness(op, 1, factory=falsy, twins=True),
                              bounds={"list length n": 1, "owner": "falsy (defines __bool__ / __len__)"},
                              leverage="all integer arguments", **ocommon))
    obs.append(Obligation("normalize/unbounded-length", norm_harness,
                          bounds={"list length n": "unbounded Int >= 0", "start, stop": "unbounded Int or None",
                                  "step": "-8..8 or None (constant divisor in the count closed form)"},
                          leverage="all of start/stop/length", max_paths=60000, **common))
    obs.append(Obligation("notifiers-copied", notifiers_copied_harness, bounds={"afterwards the caller": ["clears its list", "appends to it", "another TraitList gets a notifier"]},
                          leverage="choice feasibility only", stubs=[]))
    obs.append(Obligation("owned-wildcard", wildcard_list_harness, bounds={"declaration": "xs_ = List(Int); attribute xs_b",
                                                                          "operations": ["append", "item assignment", "item deletion"]},
                          leverage="choice feasibility only", stubs=[]))
    import props._owners as owners_
    obs.append(Obligation("class-routes/list", owners_.class_routes_harness("list"),
                          bounds={"objects": "base-class instance, two subclasses with their own _c_items_changed, a second instance",
                                  "listeners": "two listener objects that compare equal", "Undefined": "as item / key / value"},
                          leverage="choice feasibility only"))
    obs.append(Obligation("detached/list", owners_.detached_harness("list"), bounds={"how the container lost its place": owners_.DETACH_HOWS,
                                                                                      "operations": "3 valid, 2 refused by the built-in"},
                          leverage="choice feasibility only"))
    obs.append(Obligation("sharing/list", owners_.sharing_harness("list"),
                          bounds={"ways of handing a value on": owners_.SHARING_HOWS, "declarations": "x and y from ONE shared definition object"},
                          leverage="choice feasibility only", stubs=[]))
    return obs
