"""Shared bounded-history machinery for the observer-graph properties (C08, C12, C16).

A pool of interlinked HasTraits nodes, a set of mutations (list mutations take a SYMBOLIC index through the ListModel
environment model, everything else is a choice), and an independent reachability evaluator for observe expressions.
These properties live in callback graphs over heap objects: apart from the list indices the solver contributes choice
feasibility only, i.e. the result is an exhaustive bounded enumeration - labelled so in the evidence.
"""
import contextlib

from vt import symx, envmodels
from vt.symx import SymInt
import props.c04 as c04
import props.c05 as c05

from traits.api import HasTraits, Int, Str, List, Dict, Set, Instance, Any, Property, cached_property, observe


class N(HasTraits):
    """pool node (module level: Instance("N") resolves the name in this module)"""
    name = Str()
    value = Int(0)
    tagged = Int(0, tag=True)
    child = Instance("N")
    children = List(Instance("N"))
    mapping = Dict(Str, Instance("N"))
    entries = Dict(Str, Instance("N"))         # a Dict trait whose NAME ends in characters of the suffix '_items'
    group = Set(Instance("N"))
    w_ = Int                      # wildcard: names w_... are resolved on first use
    anybox = Instance(HasTraits)              # links that also admit objects WITHOUT the observed traits (hook-up fails)
    anykids = List(Instance(HasTraits))
    tkids = List(Instance("N"), tracked=True)  # matched by the metadata filter "+tracked"
    tchild = Instance("N", tracked2=True)      # matched by "+tracked2"
    tv_a = Int(0, mtag=True)                   # final attributes selected by metadata ("+mtag"): defined and true,
    tv_f = Int(0, mtag=False)                  # defined but false (still defined: selected),
    tv_n = Int(0)                              # not defined (not selected)

    eqkey = Str("")                # nodes with the same non-empty key compare EQUAL (value-based __eq__, identity-based hash)

    def __eq__(self, other):
        if not isinstance(other, N):
            return NotImplemented
        k = self.__dict__.get("eqkey", "")
        return self is other or (k != "" and k == other.__dict__.get("eqkey", ""))

    def __ne__(self, other):
        r = self.__eq__(other)
        return r if r is NotImplemented else not r

    __hash__ = object.__hash__

    def __repr__(self):
        return "<%s>" % self.name


class Alien(HasTraits):
    """has no trait `value`: hooking it up under '...value' fails"""
    name = Str("alien")


SHARED = N(name="shared")
N.add_class_trait("dchild", Any(SHARED))      # a CONSTANT default that is itself an observable object

# per-run side tables (keyed by id(root)): boxes whose hook-up failed, objects detached on purpose that must stay silent
FAILED = {}
DETACHED = {}
STASH = {}


def mk_node_class(extra=None):
    return N


env = c04.list_env        # ATLO (ListModel) behind every TraitListObject + MSlice/operator shadows

MUTATIONS = ["slice_subset", "remove_first", "map_same", "child=", "child=None", "append", "insert", "del", "setitem", "insert_dup", "imul", "map_set", "map_del",
             "set_add", "set_remove", "cycle", "read_default", "grandchild=", "clear"]


def apply_mutation(ex, step, root, pool, mut, fresh):
    """apply one mutation to the graph under root; list positions are symbolic integers; `fresh()` makes a new node"""
    n = len(root.children)
    if mut == "child=":
        root.child = pool[ex.choice("pick%d" % step, len(pool))]
    elif mut == "child=None":
        root.child = None
    elif mut == "append":
        root.children.append(fresh())
    elif mut == "insert":
        try:
            root.children.insert(ex.int("i%d" % step), fresh())
        except OverflowError:
            pass                    # beyond a C ssize_t: refused, as by the built-in list
    elif mut == "del":
        i = ex.int("i%d" % step)
        try:
            del root.children[i]
        except IndexError:
            pass
    elif mut == "setitem":
        i = ex.int("i%d" % step)
        try:
            root.children[i] = fresh()
        except IndexError:
            pass
    elif mut == "insert_dup":
        if n:
            try:
                root.children.insert(ex.int("i%d" % step), root.children[0])       # the same object twice
            except OverflowError:
                pass
        else:
            x = fresh()
            root.children.extend([x, x])
    elif mut == "imul":
        k = ex.int("k%d" % step)
        if n:
            ex.assume(k <= 2)
        root.children *= k
    elif mut == "map_set":
        root.mapping[["a", "b"][ex.choice("key%d" % step, 2)]] = fresh()
    elif mut == "map_del":
        root.mapping.pop("a", None)
    elif mut == "set_add":
        root.group.add(fresh())
    elif mut == "set_remove":
        if root.group:
            root.group.discard(sorted(root.group, key=lambda x: x.name)[0])
    elif mut == "cycle":
        root.child = root
    elif mut == "read_default":
        root.children, root.mapping, root.group, root.child
    elif mut == "grandchild=":
        if root.child is not None and root.child is not root:
            root.child.child = fresh()
    elif mut == "clear":
        root.children.clear()
    elif mut == "slice_subset":      # the same objects moved: duplicates collapse
        uniq = []
        for c in root.children:
            if not any(c is u for u in uniq):
                uniq.append(c)
        root.children[:] = uniq
    elif mut == "remove_first":
        if n:
            root.children.remove(root.children[0])
    elif mut == "map_twin":          # replace the value under its key by an EQUAL but distinct object (value-based __eq__)
        if "a" in root.mapping:
            old = root.mapping["a"]
            old.eqkey = "tw"
            x = fresh()
            x.eqkey = "tw"
            root.mapping["a"] = x
    elif mut == "map_same":          # re-assign the identical object under its key
        if "a" in root.mapping:
            root.mapping["a"] = root.mapping["a"]
    elif mut == "anybox=good":
        b = fresh()
        b.anykids = [fresh()]
        root.anybox = b
    elif mut == "anybox=broken":     # the second item cannot be hooked up: the assignment raises half way through
        b = fresh()
        b.anykids = [fresh(), Alien()]
        try:
            root.anybox = b
        except Exception:
            FAILED.setdefault(id(root), []).append(b)
    elif mut == "anybox=None":
        root.anybox = None
    elif mut == "box_append":
        if root.anybox is not None:
            root.anybox.anykids.append(fresh())
    elif mut == "box_append_alien":
        if root.anybox is not None:
            try:
                root.anybox.anykids.append(Alien())
            except Exception:
                FAILED.setdefault(id(root), []).append(root.anybox)
    elif mut == "anykids_mixed":     # on the root itself
        try:
            root.anykids = [fresh(), Alien()]
        except Exception:
            FAILED.setdefault(id(root), []).append(root)
    elif mut == "anykids_good":
        root.anykids = [fresh()]
    elif mut in ("tkids=equal", "children=equal"):      # a NEW container object that compares equal to the old one
        attr = mut.split("=")[0]
        old = getattr(root, attr)
        setattr(root, attr, list(old))
        STASH[id(root)] = old
    elif mut in ("tkids_append", "children_append"):
        getattr(root, mut.split("_")[0]).append(fresh())
    elif mut == "stale_append":      # the container object that was replaced earlier is detached: so is what goes into it
        old = STASH.get(id(root))
        if old is not None:
            x = fresh()
            old.append(x)
            DETACHED.setdefault(id(root), []).append(x)
    elif mut == "tchild=":
        root.tchild = fresh()
    elif mut == "add_tracked2":      # another trait matched by the same metadata filter appears later (trait_added), with a value
        name = "late%d" % step
        root.add_trait(name, Instance(N, tracked2=True))
        setattr(root, name, fresh())
    elif mut == "add_untracked":     # ... and one that the filter does not match
        name = "plain%d" % step
        root.add_trait(name, Instance(N))
        setattr(root, name, fresh())
    elif mut == "dchild=":
        root.dchild = pool[ex.choice("pick%d" % step, len(pool))]
    elif mut == "dchild=shared":
        root.dchild = SHARED
    elif mut in ("del_child", "del_children", "del_mapping", "del_group", "del_tkids"):
        # back to the default (None / a fresh empty container): a change like any other, announced once
        try:
            delattr(root, mut[4:])
        except Exception:
            pass
    elif mut == "del_dchild":
        try:
            del root.dchild          # back to the (constant, shared) default
        except Exception:
            pass
    else:
        raise AssertionError(mut)


def reachable(root, expr):
    """independent evaluator: objects whose `value` (or tagged / any trait) is observed by expr from root.
    expr is a tuple of steps; each step in {'child','children','mapping','group'} ; returns list of objects (set by identity)"""
    cur = [root]
    for st in expr:
        nxt = []
        for o in cur:
            if o is None:
                continue
            if st == "child":
                v = o.child
                if v is not None:
                    nxt.append(v)
            elif st == "children":
                nxt.extend(o.children)
            elif st == "mapping":
                nxt.extend(o.mapping.values())
            elif st == "entries":
                nxt.extend(o.entries.values())
            elif st == "group":
                nxt.extend(o.group)
            elif st in ("anybox", "tchild", "dchild"):
                v = getattr(o, st, None) if isinstance(o, N) else None
                if v is not None:
                    nxt.append(v)
                if st == "tchild" and isinstance(o, N):      # "+tracked2": every trait carrying the metadata, also ones added later
                    for n_ in o.trait_names(tracked2=True):
                        if n_ != "tchild":
                            v = getattr(o, n_, None)
                            if v is not None:
                                nxt.append(v)
            elif st in ("anykids", "tkids"):
                if isinstance(o, N):
                    nxt.extend(getattr(o, st))
        cur = nxt
    out = []
    for o in cur:
        if not any(o is x for x in out):
            out.append(o)
    return out


def all_nodes(root, pool):
    seen = []

    def add(o):
        if o is not None and isinstance(o, N) and not any(o is x for x in seen):
            seen.append(o)
            add(o.child)
            add(o.anybox)
            add(o.tchild)
            add(o.__dict__.get("dchild"))
            for n_, v_ in list(o.__dict__.items()):
                if (n_.startswith("late") or n_.startswith("plain")) and isinstance(v_, N):
                    add(v_)
            for c in list(o.anykids) + list(o.tkids):
                add(c)
            for c in o.children:
                add(c)
            for c in o.mapping.values():
                add(c)
            for c in o.entries.values():
                add(c)
            for n_, v_ in list(o.__dict__.items()):
                if n_.startswith("tv_added") and isinstance(v_, N):
                    add(v_)
            for c in o.group:
                add(c)
    add(root)
    for p in pool:
        add(p)
    return seen
