"""Shared bounded-history machinery for the observer-graph properties (C08, C12, C16).

A pool of interlinked HasTraits nodes, a set of mutations (list mutations take a SYMBOLIC index through the ListModel
environment model, everything else is a choice), and an independent reachability evaluator for observe expressions.
These properties live in callback graphs over heap objects: apart from the list indices the solver contributes choice
feasibility only, i.e. the result is an exhaustive bounded enumeration - labelled so in the evidence.
"""
import contextlib

from vt import symx, envmodels
from vt.symx import SymInt
import props.c04 as c04
import props.c05 as c05

from traits.api import HasTraits, Int, Str, List, Dict, Set, Instance, Any, Property, cached_property, observe


class N(HasTraits):
    """pool node (module level: Instance("N") resolves the name in this module)"""
    name = Str()
    value = Int(0)
    tagged = Int(0, tag=True)
    child = Instance("N")
    children = List(Instance("N"))
    mapping = Dict(Str, Instance("N"))
    group = Set(Instance("N"))
    w_ = Int                      # wildcard: names w_... are resolved on first use

    def __repr__(self):
        return "<%s>" % self.name


def mk_node_class(extra=None):
    return N


env = c04.list_env        # ATLO (ListModel) behind every TraitListObject + MSlice/operator shadows

MUTATIONS = ["slice_subset", "remove_first", "map_same", "child=", "child=None", "append", "insert", "del", "setitem", "insert_dup", "imul", "map_set", "map_del",
             "set_add", "set_remove", "cycle", "read_default", "grandchild=", "clear"]


def apply_mutation(ex, step, root, pool, mut, fresh):
    """apply one mutation to the graph under root; list positions are symbolic integers; `fresh()` makes a new node"""
    n = len(root.children)
    if mut == "child=":
        root.child = pool[ex.choice("pick%d" % step, len(pool))]
    elif mut == "child=None":
        root.child = None
    elif mut == "append":
        root.children.append(fresh())
    elif mut == "insert":
        root.children.insert(ex.int("i%d" % step), fresh())
    elif mut == "del":
        i = ex.int("i%d" % step)
        try:
            del root.children[i]
        except IndexError:
            pass
    elif mut == "setitem":
        i = ex.int("i%d" % step)
        try:
            root.children[i] = fresh()
        except IndexError:
            pass
    elif mut == "insert_dup":
        if n:
            root.children.insert(ex.int("i%d" % step), root.children[0])       # the same object twice
        else:
            x = fresh()
            root.children.extend([x, x])
    elif mut == "imul":
        k = ex.int("k%d" % step)
        if n:
            ex.assume(k <= 2)
        root.children *= k
    elif mut == "map_set":
        root.mapping[["a", "b"][ex.choice("key%d" % step, 2)]] = fresh()
    elif mut == "map_del":
        root.mapping.pop("a", None)
    elif mut == "set_add":
        root.group.add(fresh())
    elif mut == "set_remove":
        if root.group:
            root.group.discard(sorted(root.group, key=lambda x: x.name)[0])
    elif mut == "cycle":
        root.child = root
    elif mut == "read_default":
        root.children, root.mapping, root.group, root.child
    elif mut == "grandchild=":
        if root.child is not None and root.child is not root:
            root.child.child = fresh()
    elif mut == "clear":
        root.children.clear()
    elif mut == "slice_subset":      # the same objects moved: duplicates collapse
        uniq = []
        for c in root.children:
            if not any(c is u for u in uniq):
                uniq.append(c)
        root.children[:] = uniq
    elif mut == "remove_first":
        if n:
            root.children.remove(root.children[0])
    elif mut == "map_same":          # re-assign the identical object under its key
        if "a" in root.mapping:
            root.mapping["a"] = root.mapping["a"]
    else:
        raise AssertionError(mut)


def reachable(root, expr):
    """independent evaluator: objects whose `value` (or tagged / any trait) is observed by expr from root.
    expr is a tuple of steps; each step in {'child','children','mapping','group'} ; returns list of objects (set by identity)"""
    cur = [root]
    for st in expr:
        nxt = []
        for o in cur:
            if o is None:
                continue
            if st == "child":
                v = o.child
                if v is not None:
                    nxt.append(v)
            elif st == "children":
                nxt.extend(o.children)
            elif st == "mapping":
                nxt.extend(o.mapping.values())
            elif st == "group":
                nxt.extend(o.group)
        cur = nxt
    out = []
    for o in cur:
        if not any(o is x for x in out):
            out.append(o)
    return out


def all_nodes(root, pool):
    seen = []

    def add(o):
        if o is not None and not any(o is x for x in seen):
            seen.append(o)
            add(o.child)
            for c in o.children:
                add(c)
            for c in o.mapping.values():
                add(c)
            for c in o.group:
                add(c)
    add(root)
    for p in pool:
        add(p)
    return seen
