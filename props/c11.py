"""C11 - deferred traits mirror their target: delegation and prototyping.

(a) Solver-decided: Delegate.__init__'s classification of the prefix runs natively on a SYMBOLIC prefix string (z3 String,
    unbounded): prefix_type and the stored prefix agree with the documented rule for every string ('' -> same name;
    no trailing '*' -> explicit name; 'p*' -> prefix + name; '*' -> class __prefix__ + name), and for a symbolic attribute
    name the target attribute name each style denotes is the documented concatenation (z3 string formulas), compared with
    what the real object reads through for witness strings.
(b) Bounded histories on real objects through the compiled code (the solver contributes choice feasibility only): assign via
    the deferring object, assign on the delegate, swap the delegate, delete the local value, invalid assignment; four prefix
    styles; DelegatesTo and PrototypedFrom; chains of deferral of depth 2; delegation cycles end with DelegationError.
"""
NEED_AST = True

NEED_AST = True

import z3

from vt import symx
from vt.symx import SymStr
from vt.oblig import Obligation

from traits.api import (ComparisonMode, HasTraits, Int, Str, Instance, DelegatesTo, PrototypedFrom, TraitError, Range,
                        push_exception_handler, pop_exception_handler)
from traits.trait_errors import DelegationError
from traits.trait_types import Delegate

LEVEL = "model_checking"
ENCODED = [("traits/trait_types.py", ["Delegate.__init__", "Delegate.as_ctrait"]),
           ("traits/has_traits.py", ["get_delegate_pattern", "HasTraits._init_trait_delegate_listener",
                                     "HasTraits._remove_trait_delegate_listener", "HasTraits._trait_delegate_name"]),
           ("traits/ctraits.c", ["getattr_delegate", "setattr_delegate", "delegate_attr_name_name", "delegate_attr_name_prefix",
                                 "delegate_attr_name_prefix_name", "delegate_attr_name_class_name", "_trait_delegate", "_has_traits_trait"])]
EXPLANATION = ("(a) symbolic execution of the prefix classification on an unbounded symbolic prefix (z3 strings); (b) bounded history "
               "exploration on real objects through the compiled extension (choice feasibility only).")
STUBS = []
ASSUMPTIONS = ["(b) runs the compiled extension concretely: bounded exhaustive enumeration of histories, not a solver claim"]


def classify_harness(ex):
    prefix = ex.str("prefix")
    if ex.sym:
        ex.assume(z3.Length(prefix.e) <= 6)       # stated bound (code that asks len(prefix) gets an exhaustive fork)
    d = Delegate("target", prefix=prefix)
    pt = d.prefix_type
    stored = d.prefix
    if ex.sym:
        p = prefix.e
        empty = p == z3.StringVal("")
        star = z3.SuffixOf(z3.StringVal("*"), p)
        only_star = p == z3.StringVal("*")
        want = z3.If(empty, 0, z3.If(z3.Not(star), 1, z3.If(only_star, 3, 2)))
        ex.check(want == pt, "prefix style is classified as documented ('' / name / 'p*' / '*')")
        st = stored.e if isinstance(stored, SymStr) else z3.StringVal(stored)
        ex.check(z3.If(z3.And(star, z3.Not(empty)), z3.Concat(st, z3.StringVal("*")) == p, st == p),
                 "the stored prefix is the given one without a trailing '*'")
    else:
        want = 0 if prefix == "" else (1 if not prefix.endswith("*") else (3 if prefix == "*" else 2))
        ex.check(want == pt, "prefix style is classified as documented ('' / name / 'p*' / '*')")
        ex.check(stored == (prefix[:-1] if prefix.endswith("*") else prefix), "the stored prefix is the given one without a trailing '*'")
        # the classified definition reads through to the documented target attribute on a real object
        import re
        if re.fullmatch("[A-Za-z_][A-Za-z0-9_]*\\*?|\\*|", prefix):
            tname = {0: "attr", 1: prefix, 2: prefix[:-1] + "attr", 3: "cp_attr"}[want]

            class T(HasTraits):
                pass
            t = T()
            t.add_trait(tname, Int(41))

            class D(HasTraits):
                __prefix__ = "cp_"
                target = Instance(T)
                attr = Delegate("target", prefix=prefix)
            dd = D(target=t)
            ex.check(dd.attr == 41, "the deferring attribute reads the documented target attribute")
    return {"prefix_type": pt}


STYLES = {"same": dict(prefix=""), "explicit": dict(prefix="other"), "prefixstar": dict(prefix="p_*"), "star": dict(prefix="*")}
TARGET_NAME = {"same": "x", "explicit": "other", "prefixstar": "p_x", "star": "cp_x"}


TOP_PREFIX = "zz_"
TOP_NAME = {"same": "x", "explicit": "other", "prefixstar": "p_x", "star": TOP_PREFIX + "x"}


def target_name(style, dn):
    return {"same": dn, "explicit": "other", "prefixstar": "p_" + dn, "star": "cp_" + dn}[style]


def mk_classes(style, proto, topstyle=None, subclassing="none", flavour=0, listenable=True):
    """T <- D (deferring attribute `dn`, prefix style `style`, class prefix 'cp_') [<- DD (attribute x, prefix style `topstyle`,
    class prefix 'zz_')].  T carries every name any (mis)resolution could produce, each with a distinct default."""
    kind0 = PrototypedFrom if proto else DelegatesTo
    kind = kind0 if listenable else (lambda *a, **kw: kind0(*a, listenable=False, **kw))
    dn = TOP_NAME[topstyle] if topstyle else "x"
    tn = target_name(style, dn)
    names = []
    for base in TOP_NAME.values():
        for cand in (base, "other", "p_" + base, "cp_" + base, TOP_PREFIX + base):
            if cand not in names:
                names.append(cand)
    # flavour 1: delegate objects are value-style - every T compares equal to every other T (the link is a matter of identity);
    # flavour 2: the target traits announce every assignment (comparison_mode none), also of the identical object
    extra = {}
    if flavour == 1:
        extra = {"__eq__": lambda self, other: isinstance(other, HasTraits) and type(other).__name__ == "T",
                 "__ne__": lambda self, other: not (isinstance(other, HasTraits) and type(other).__name__ == "T"),
                 "__hash__": lambda self: 11}
    md = {"comparison_mode": ComparisonMode.none} if flavour == 2 else {}
    T = type("T", (HasTraits,), dict({n_: Range(0, 100, 60 + i, **md) for i, n_ in enumerate(names)}, **extra))
    if subclassing == "redefine":
        # the base class declares the deferring attribute differently (explicit name, another target attribute); the subclass
        # in use redefines it in the style under test: nothing of the base declaration may survive
        base_decl = kind("t", prefix="other" if tn != "other" else "x")
        Dbase = type("Dbase", (HasTraits,), {"__prefix__": "cp_", "t": Instance(T), dn: base_decl})
        D = type("D", (Dbase,), {dn: kind("t", **STYLES[style])})
    else:
        D = type("D", (HasTraits,), {"__prefix__": "cp_", "t": Instance(T), dn: kind("t", **STYLES[style])})
        if subclassing == "inherit":
            D = type("Dsub", (D,), {})          # declares nothing itself: __prefix__ and the deferring trait are inherited
    DD = type("DD", (HasTraits,), {"__prefix__": TOP_PREFIX, "d": Instance(D), "x": kind("d", **STYLES[topstyle or "same"])})
    if subclassing == "inherit":
        DD = type("DDsub", (DD,), {})
    return T, D, DD, tn


def history_harness(style, proto, k, chain, subclassing="none", listenable=True):
    """chain: None (depth 1) or the prefix style of the upper level of a depth-2 chain"""
    def harness(ex):
        errors = []
        push_exception_handler(lambda *a: errors.append(a), reraise_exceptions=False)
        try:
            return body(ex, errors)
        finally:
            pop_exception_handler()

    def body(ex, errors):
        flavour = ex.choice("flavour", 3) if listenable else 0
        T, D, DD, tn = mk_classes(style, proto, chain, subclassing, flavour, listenable)
        decoy = "other" if tn != "other" else "x"          # another attribute of the delegate: never the target
        t1, t2 = T(), T()
        setattr(t2, tn, 50)
        d = D(t=t1)
        top = DD(d=d) if chain else d
        calls = []
        top.on_trait_change(lambda obj, name, old, new: calls.append(new), "x")
        obs_calls = []
        top.observe(lambda e: obs_calls.append(e.new), "x")
        local = False            # PrototypedFrom: the deferring object holds its own value
        local_val = None
        cur = t1
        trace = []
        val = 10
        for step in range(k):
            op = ex.choice("op%d" % step, 9)
            val += 1
            calls.clear()
            obs_calls.clear()
            if op == 8:                                   # the target's current value is assigned to it again (identical object)
                same = getattr(cur, tn)
                tcalls = []
                h_ = lambda new: tcalls.append(new)
                cur.on_trait_change(h_, tn)
                setattr(cur, tn, same)
                cur.on_trait_change(h_, tn, remove=True)
                trace.append("target=same")
                if not listenable:
                    ex.check(calls == [] and obs_calls == [], "a deferring attribute declared not listenable does not mirror the target's changes")
                elif not local:
                    ex.check(len(calls) == len(tcalls), "while linked, the deferring attribute's handlers hear exactly the change "
                                                        "notifications the target's own handlers hear (also of an identical value)")
                else:
                    ex.check(calls == [] and obs_calls == [], "after the link is broken, changes of the prototype do not notify")
            elif op == 0:                                   # assign via the deferring object
                top.x = val
                trace.append("top=%d" % val)
                if proto:
                    local, local_val = True, val
                    ex.check(getattr(cur, tn) != val, "PrototypedFrom: assigning the deferring attribute leaves the prototype alone")
                else:
                    ex.check(getattr(cur, tn) == val, "DelegatesTo: assigning the deferring attribute stores into the delegate")
                    ex.check("x" not in top.__dict__, "... and only into the delegate")
            elif op == 1:                                 # assign on the current delegate
                setattr(cur, tn, val)
                trace.append("target=%d" % val)
                if not listenable:
                    ex.check(calls == [] and obs_calls == [], "a deferring attribute declared not listenable does not mirror the target's changes")
                elif not local:
                    ex.check(calls == [val], "while linked, a change of the target notifies on_trait_change handlers of the deferring attribute with the new value")
                    ex.check(obs_calls == [val], "while linked, a change of the target notifies observe handlers of the deferring attribute with the new value")
                else:
                    ex.check(calls == [] and obs_calls == [], "after the link is broken, changes of the prototype do not notify")
            elif op == 2:                                 # swap the delegate object
                cur = t2 if cur is t1 else t1
                d.t = cur
                trace.append("swap")
            elif op == 3:                                 # delete the local value
                if proto and local:
                    exc_ = None
                    try:
                        del top.x
                    except Exception as e:
                        exc_ = type(e).__name__
                    ex.check(exc_ is None, "deleting the local value of a PrototypedFrom attribute raises nothing")
                    local = False
                    trace.append("del")
                else:
                    continue
            elif op == 4:                                 # invalid assignment
                before_t = getattr(cur, tn)
                try:
                    top.x = 1000
                    rej = False
                except TraitError:
                    rej = True
                ex.check(rej, "an assignment invalid for the target's trait is rejected")
                ex.check(getattr(cur, tn) == before_t and (not proto or local or "x" not in top.__dict__), "a rejected assignment changes nothing")
                trace.append("invalid")
            elif op == 6:                                 # assign, via the deferring object, the target's CURRENT value (same object)
                same = getattr(cur, tn)
                top.x = same
                trace.append("top=current")
                if proto:
                    local, local_val = True, same      # a local value all the same: from now on independent of the prototype
                    ex.check("x" in top.__dict__ and top.__dict__["x"] is same,
                             "PrototypedFrom: an assignment is stored locally also when it equals the prototype's current value")
            elif op == 7:                                 # another attribute of the current delegate changes: not the target
                setattr(cur, decoy, val)
                ex.check(calls == [] and obs_calls == [], "a change of another attribute of the delegate does not notify")
                trace.append("decoy=%d" % val)
            else:                                         # change on the delegate that is NOT current: no effect
                otherd = t2 if cur is t1 else t1
                setattr(otherd, tn, val)
                ex.check(calls == [] and obs_calls == [], "a change on an object that is not the current delegate does not notify")
                trace.append("other=%d" % val)
            if step == 0:
                bt = top.base_trait("x")
                ex.check(bt.default_value()[1] == T.class_traits()[tn].default_value()[1] and bt.handler is T.class_traits()[tn].handler,
                         "base_trait() of the deferring attribute is the definition of the target attribute at the end of the chain")
                try:
                    top.validate_trait("x", 1000)
                    vrej = False
                except TraitError:
                    vrej = True
                ex.check(vrej and top.validate_trait("x", 50) == 50, "validate_trait() of the deferring attribute validates as the target's definition does")
            expect = local_val if (proto and local) else getattr(cur, tn)
            ex.check(top.x == expect, "the deferring attribute reads the current value of the target on the current delegate "
                                      "(or its own value once assigned locally)")
            ex.check(errors == [], "no handler raised")
        return {"trace": trace}
    return harness


def container_harness(ckind, dn, proto, k):
    """the target attribute holds a container (List / Dict / Set): while linked, an in-place mutation of the current delegate's
    container reaches the `<deferring name>_items` handlers of the deferring object exactly as it reaches the delegate's own
    `<target>_items` handlers (same event, announced under the deferring attribute's name); deferring names shorter than, as long
    as and longer than the target name (the forwarding listener cuts the target name off the notified name)"""
    from traits.api import List, Dict, Set

    def harness(ex):
        errors = []
        push_exception_handler(lambda *a: errors.append(a), reraise_exceptions=False)
        try:
            return body(ex, errors)
        finally:
            pop_exception_handler()

    def body(ex, errors):
        decl = {"list": lambda: List(Int), "dict": lambda: Dict(Int, Int), "set": lambda: Set(Int)}[ckind]
        Model = type("Model", (HasTraits,), {"data": decl(), "dat": decl(), "data_": decl()})
        kind = PrototypedFrom if proto else DelegatesTo
        Proxy = type("Proxy", (HasTraits,), {"model": Instance(Model), dn: kind("model") if dn == "data" else kind("model", prefix="data")})
        mk = {"list": lambda b: [b, b + 1], "dict": lambda b: {b: 1, b + 1: 2}, "set": lambda b: {b, b + 1}}[ckind]
        m1, m2 = Model(data=mk(10), dat=mk(30), data_=mk(40)), Model(data=mk(20), dat=mk(50), data_=mk(60))
        p = Proxy(model=m1)
        items, whole, anyn, titems = [], [], [], []
        p.on_trait_change(lambda obj, name, old, new: items.append((name, new)), dn + "_items")
        p.on_trait_change(lambda obj, name, old, new: whole.append(new), dn)
        p.on_trait_change(lambda obj, name, old, new: anyn.append(name))
        for m in (m1, m2):
            m.on_trait_change(lambda obj, name, old, new: titems.append(new), "data_items")
        cur = m1
        trace = []
        val = 100
        stale = None

        def mutate(c, v, how):
            if ckind == "list":
                [lambda: c.append(v), lambda: c.insert(0, v), lambda: c.__setitem__(0, v), lambda: c.pop()][how]()
            elif ckind == "dict":
                [lambda: c.__setitem__(v, 1), lambda: c.__setitem__(next(iter(c)), v), lambda: c.update({v: 2, v + 1000: 3}), lambda: c.popitem()][how]()
            else:
                [lambda: c.add(v), lambda: c.symmetric_difference_update({v, next(iter(c))}), lambda: c.update({v, v + 1000}), lambda: c.pop()][how]()

        for step in range(k):
            op = ex.choice("op%d" % step, 6)
            val += 1
            del items[:], whole[:], anyn[:], titems[:]
            if op == 0:                     # mutate the current delegate's container in place
                how = ex.choice("how%d" % step, 4)
                if len(cur.data) == 0 and how != 0:
                    continue
                mutate(cur.data, val + 5000, how)
                trace.append("mutate%d" % how)
                ex.check(len(titems) == 1, "(fixture) the delegate's own items handler hears the mutation once")
                ex.check(len(items) == len(titems), "while linked, an in-place change of the target container notifies the items handlers "
                                                     "of the deferring attribute exactly once")
                ex.check(all(n_ == dn + "_items" for n_, _e in items), "... under the deferring attribute's items name")
                ex.check(all(e is titems[0] for _n, e in items), "... with the event the delegate's own handlers receive")
                ex.check(whole == [], "an in-place change is no whole-value change of the deferring attribute")
                ex.check(all(n_ == dn + "_items" for n_ in anyn), "object-level handlers of the deferring object see it under the deferring "
                                                                  "attribute's items name only")
            elif op == 1:                   # the delegate's attribute gets a new container
                stale = cur.data
                cur.data = mk(val)
                trace.append("assign")
                ex.check(len(whole) == 1 and whole[0] is cur.data, "while linked, a new target container notifies handlers of the deferring attribute")
                ex.check(all(n_ == dn for n_ in anyn), "object-level handlers see the change under the deferring attribute's name only")
            elif op == 2:                   # swap the delegate object
                cur = m2 if cur is m1 else m1
                p.model = cur
                trace.append("swap")
            elif op == 3:                   # mutate the container of the object that is not the delegate
                other = m2 if cur is m1 else m1
                mutate(other.data, val, 0)
                trace.append("other")
                ex.check(items == [] and whole == [] and anyn == [], "a change on an object that is not the current delegate does not notify")
            elif op == 4:                   # mutate a container the target attribute no longer holds
                if stale is None or any(stale is m.data for m in (m1, m2)):
                    continue
                mutate(stale, val, 0)
                trace.append("stale")
                ex.check(items == [] and whole == [] and anyn == [], "a container the target no longer holds does not notify")
            else:                           # similarly named attributes of the delegate change: not the target
                mutate(cur.dat, val, 0)
                mutate(cur.data_, val, 0)
                cur.dat = mk(val)
                trace.append("decoys")
                ex.check(items == [] and whole == [] and anyn == [], "a change of another attribute of the delegate does not notify")
            got = getattr(p, dn)
            ex.check(got is cur.data, "the deferring attribute reads the current container of the current delegate")
            ex.check(errors == [], "no handler raised")
        return {"trace": trace}
    return harness


class _Pattern:
    """environment model of the listener pattern ' <delegate>:<target>' that get_delegate_pattern builds with %-formatting (a C
    boundary for a symbolic string): answers the two questions the code under test asks of it - its last character, and what
    follows the ':' - for a SYMBOLIC target name"""

    def __init__(self, delegate, target):
        self.delegate, self.target = delegate, target

    def __getitem__(self, i):
        if i != -1:
            raise symx.HarnessError("the pattern model only knows its last character")
        return self.target[-1:]

    def split(self, sep):
        if sep != ":":
            raise symx.HarnessError("the pattern model only splits at ':'")
        return [" " + self.delegate, self.target]


def listener_name_harness(ex):
    """HasTraits._init_trait_delegate_listener / _trait_delegate_name (the real functions) on SYMBOLIC names: the forwarding listener
    re-emits a notification for '<target><suffix>' on the delegate as '<deferring name><suffix>' - for every deferring name, every
    target name and every suffix ('' for the value, '_items' for in-place changes of a container), whatever their lengths"""
    import weakref as _wr
    from traits.has_traits import HasTraits as _HT
    name, target, suffix = ex.str("name"), ex.str("target"), ex.str("suffix")
    if ex.sym:
        for v in (name, target):
            ex.assume(z3.And(z3.Length(v.e) >= 1, z3.Length(v.e) <= 8))
        ex.assume(z3.Length(suffix.e) <= 6)
        ex.assume(z3.Not(z3.SuffixOf(z3.StringVal("*"), target.e)))       # (the wildcard styles are the recorded finding)
    else:
        if not (1 <= len(name) <= 8 and 1 <= len(target) <= 8 and len(suffix) <= 6 and not target.endswith("*")):
            raise symx.PathAbort("outside the stated bound")
    registered, emitted = [], []

    class _Keys:
        """stands in for the instance dictionary entry that remembers the listener per deferring name (a dict keyed by the name:
        hashing a symbolic string is a C boundary)"""

        def __init__(self):
            self.entries = []

        def setdefault(self, key, default):
            return self

        def __setitem__(self, key, value):
            self.entries.append((key, value))

    keys = _Keys()

    class Stub:
        __slots__ = ("__weakref__",)
        __prefix__ = ""
        __dict__ = property(lambda self: keys)

        _trait_delegate_name = _HT._trait_delegate_name

        def on_trait_change(self, handler, pattern, target=None):
            registered.append((handler, pattern))

        def trait_property_changed(self, nm, old, new):
            emitted.append(nm)

    stub = Stub()
    pattern = _Pattern("deleg", target) if ex.sym else " deleg:" + target
    _HT._init_trait_delegate_listener(stub, name, 0, pattern)
    ex.check(len(registered) == 1, "exactly one forwarding listener is registered")
    if len(registered) != 1:
        return {"n": len(registered)}
    handler = registered[0][0]
    handler(object(), target + suffix, 1, 2)
    ex.check(len(emitted) == 1, "a notification of the delegate is re-emitted once")
    if emitted:
        got, want = emitted[0], name + suffix
        if ex.sym:
            ge = got.e if isinstance(got, SymStr) else z3.StringVal(got)
            ex.check(ge == want.e, "... under the deferring attribute's name followed by the same suffix")
        else:
            ex.check(got == want, "... under the deferring attribute's name followed by the same suffix")
    return {"ok": True}


def c_name_harness(ex):
    """the compiled side of the same rule, interpreted from the C source on SYMBOLIC strings: _trait_delegate installs the name
    function of the prefix style, and that function maps the deferring attribute's name to the documented target name
    (0: the name itself, 1: the explicit name, 2: prefix + name, 3: the class's __prefix__ + name) for every name and prefix"""
    from vt import cenv
    from vt.csym import NULL
    style = ex.choice("prefix_type", 4)
    name, prefix = ex.str("name"), ex.str("prefix")
    modify = ex.flag("modify")
    if ex.sym:
        ident = z3.Plus(z3.Union(z3.Range("a", "z"), z3.Re("_")))
        for v in (name, prefix):
            ex.assume(z3.Length(v.e) <= 8)
            ex.assume(z3.InRe(v.e, ident))        # attribute names (the concrete replay goes through getattr)
    else:
        import re
        if not (re.fullmatch("[a-z_]{1,8}", name) and re.fullmatch("[a-z_]{1,8}", prefix)):
            raise symx.PathAbort("outside the stated bound")
        # the real build: a CTrait made by the compiled delegate() and read through on a real object
        from traits.ctrait import CTrait
        bare = style == 3 and ex.flag("class_without_a_prefix")
        want = {0: name, 1: prefix, 2: prefix + name, 3: name if bare else "cp_" + name}[style]
        ct = CTrait(3)
        ct.delegate("deleg", prefix, style, modify)

        class T(HasTraits):
            pass

        class OwnerC(HasTraits):
            deleg = Instance(T, ())
        if not bare:
            OwnerC.__prefix__ = "cp_"
        if style == 3 and not bare and ex.flag("prefix_inherited"):
            OwnerC = type("OwnerCSub", (OwnerC,), {})
        o = OwnerC()
        setattr(o.deleg, want, 41)
        o.add_trait(name, ct)
        try:
            got = getattr(o, name)
        except Exception as e:
            got = type(e).__name__
        ex.check(got == 41, "the target attribute name is the documented function of the prefix style, the prefix and the deferring name")
        return {"style": style}
    it = cenv.new_interp()
    trait = cenv.new_trait(handler=NULL)
    r = it.call("_trait_delegate", [trait, ("deleg", prefix, style, modify)])
    ex.check(r is not NULL, "_trait_delegate accepts every documented prefix style")
    if r is NULL:
        return {"style": style}

    class Owner(HasTraits):
        __prefix__ = "cp_"

    class Bare(HasTraits):
        pass

    bare = style == 3 and ex.flag("class_without_a_prefix")
    if style == 3 and not bare and ex.flag("prefix_inherited"):
        Owner = type("OwnerSub", (Owner,), {})          # declares nothing itself
    obj = cenv.hastraits_struct(it, (Bare if bare else Owner)())
    got = it.call(trait.delegate_attr_name, [trait, obj, name])
    ex.check(got is not NULL, "the name function returns a name")
    if got is NULL:
        return {"style": style}
    want = {0: name, 1: prefix, 2: prefix + name, 3: name if bare else "cp_" + name}[style]
    if ex.sym:
        ge = got.e if isinstance(got, SymStr) else z3.StringVal(got)
        we = want.e if isinstance(want, SymStr) else z3.StringVal(want)
        ex.check(ge == we, "the target attribute name is the documented function of the prefix style, the prefix and the deferring name")
    else:
        ex.check(got == want, "the target attribute name is the documented function of the prefix style, the prefix and the deferring name")
    return {"style": style}


def identity_target_harness(ex):
    """the target attribute compares by IDENTITY (or not at all): every new object is a change, equal or not - and the deferring
    attribute's handlers (on_trait_change and observe) hear exactly the changes the target's own handlers hear"""
    errors = []
    push_exception_handler(lambda *a: errors.append(a), reraise_exceptions=False)
    try:
        from traits.api import Any
        mode = [ComparisonMode.identity, ComparisonMode.none, ComparisonMode.equality][ex.choice("target_comparison_mode", 3)]
        proto = ex.flag("prototyped")

        class T(HasTraits):
            x = Any(1, comparison_mode=mode)

        class D(HasTraits):
            t = Instance(T, ())
            x = (PrototypedFrom if proto else DelegatesTo)("t")

        d = D()
        heard = {"t.otc": 0, "t.obs": 0, "d.otc": 0, "d.obs": 0}
        d.t.on_trait_change(lambda: heard.__setitem__("t.otc", heard["t.otc"] + 1), "x")
        d.t.observe(lambda e: heard.__setitem__("t.obs", heard["t.obs"] + 1), "x")
        d.on_trait_change(lambda: heard.__setitem__("d.otc", heard["d.otc"] + 1), "x")
        d.observe(lambda e: heard.__setitem__("d.obs", heard["d.obs"] + 1), "x")
        values = [1.0, 1, True, 1.0, 2, [2], [2]]        # equal-but-distinct neighbours, then really different ones
        for step in range(3):
            v = values[ex.choice("value%d" % step, len(values))]
            if isinstance(v, list):
                v = list(v)
            for k_ in heard:
                heard[k_] = 0
            d.t.x = v
            ex.check(heard["d.otc"] == heard["t.otc"] and heard["d.obs"] == heard["t.obs"],
                     "while linked, the deferring attribute's handlers hear exactly the changes the target's own handlers hear "
                     "(whatever the target's comparison mode)")
            ex.check(d.x is d.t.x or d.x == d.t.x, "the deferring attribute reads the current value of the target")
        ex.check(errors == [], "no handler raised")
        return {"mode": mode.name}
    finally:
        pop_exception_handler()


def lazy_chain_harness(ex):
    """chain of deferral whose intermediate delegates are *defaults that were never materialised* (not in __dict__)"""
    class T(HasTraits):
        x = Range(0, 100, 1)

    class D2(HasTraits):
        t = Instance(T, ())
        x = DelegatesTo("t", listenable=False)

    class DD2(HasTraits):
        d = Instance(D2, ())
        x = DelegatesTo("d", listenable=False)

    top = DD2()
    first = ex.choice("first", 3)
    if first == 1:
        top.x              # read first (materialises the defaults)
    elif first == 2:
        top.d              # materialise only the outer delegate
    exc = None
    try:
        top.x = 42
    except Exception as e:
        exc = type(e).__name__
    ex.check(exc is None, "assignment through a chain with defaulted delegates succeeds")
    ex.check(top.d.t.x == 42 and top.x == 42, "... and stores into the final delegate only")
    ex.check("x" not in top.__dict__ and "x" not in top.d.__dict__, "... nothing is stored on the deferring objects")
    try:
        top.x = 1000
        rej = False
    except TraitError:
        rej = True
    ex.check(rej and top.d.t.x == 42, "an invalid value is rejected by the final delegate's trait")
    return {"first": first}


def cycle_harness(ex):
    class A(HasTraits):
        other = Instance(HasTraits)
        v = DelegatesTo("other")

    a, b = A(), A()
    a.other, b.other = b, a
    res = []
    for op in ("read", "write"):
        try:
            if op == "read":
                a.v
            else:
                a.v = 1
            res.append("ok")
        except DelegationError:
            res.append("DelegationError")
        except RecursionError:
            res.append("RecursionError")
        except Exception as e:
            res.append(type(e).__name__)
    ex.check(res[1] == "DelegationError", "assignment through a delegation cycle terminates with DelegationError")
    ex.check(res[0] in ("DelegationError", "RecursionError", "AttributeError"), "a read through a delegation cycle terminates with an exception")
    return {"res": res}


def obligations(tier, build):
    from vt import cenv
    cenv.load_program(build)
    obs = [Obligation("classify/prefix", classify_harness, bounds={"prefix": "any string of length <= 6 (z3 String)"},
                      leverage="the prefix string", query_timeout_ms=30000),
           Obligation("listener-name-arithmetic", listener_name_harness,
                      bounds={"deferring name, target name": "any strings of length 1..8 (z3 String)", "suffix": "any string of length <= 6",
                              "pattern": "' <delegate>:<target>' through a model of its two queries (the real code builds it with %-formatting)"},
                      stubs=["_Pattern: the listener pattern string answers pattern[-1] and pattern.split(':') for a symbolic target",
                             "the per-name listener table of the instance dictionary records (key, value) without hashing the symbolic name",
                             "stub object: on_trait_change / trait_property_changed record their arguments"],
                      leverage="the three strings (z3 String): len(), slicing and concatenation in the real functions", query_timeout_ms=60000),
           Obligation("c-name-functions", c_name_harness, kind="csym",
                      bounds={"deferring name, prefix": "any strings of length <= 8 (z3 String)", "prefix style": "0-3", "class": "with / without __prefix__"},
                      leverage="both strings (z3 String) through the interpreted _trait_delegate / delegate_attr_name_* functions", query_timeout_ms=60000),
           Obligation("identity-target", identity_target_harness, bounds={"target comparison modes": "identity / none / equality",
                                                                          "values": "1.0, 1, True (equal, distinct), 2, equal lists", "history length": 3},
                      leverage="choice feasibility only"),
           Obligation("lazy-chain", lazy_chain_harness, leverage="choice feasibility only"),
           Obligation("cycle", cycle_harness, leverage="none",
                      crash_is_violation="access through a delegation cycle terminates with a Python exception, not a crash")]
    K = 3 if tier == "quick" else 4
    for style in STYLES:
        for proto in (False, True):
            for chain, sub in [(c, "none") for c in (None,) + tuple(STYLES)] + [(c, sb) for c in (None, "same") for sb in ("inherit", "redefine")]:
                obs.append(Obligation("history/%s/%s%s%s/k=%d" % (style, "PrototypedFrom" if proto else "DelegatesTo",
                                                                  "/chain-under-%s" % chain if chain else "",
                                                                  "" if sub == "none" else "/subclass-" + sub, K),
                                      history_harness(style, proto, K, chain, sub),
                                      bounds={"history length": K, "prefix style": style, "chain depth": 2 if chain else 1,
                                              "prefix style of the upper level": chain, "declaring classes": sub},
                                      leverage="choice feasibility only (compiled code runs concretely)", max_paths=100000))
    for style in ("same", "explicit"):
        for proto in (False, True):
            for chain in (None, "same"):
                obs.append(Obligation("unlistenable/%s/%s%s/k=%d" % (style, "PrototypedFrom" if proto else "DelegatesTo", "/chain" if chain else "", K),
                                      history_harness(style, proto, K, chain, "none", listenable=False),
                                      bounds={"history length": K, "prefix style": style, "chain depth": 2 if chain else 1,
                                              "deferral": "declared with listenable=False"},
                                      leverage="choice feasibility only (compiled code runs concretely)", max_paths=100000))
    KC = 2 if tier == "quick" else 3
    for ckind in ("list", "dict", "set"):
        for dn in ("v", "rows", "values", "data"):
            for proto in (False, True):
                obs.append(Obligation("containers/%s/%s/%s/k=%d" % (ckind, dn, "PrototypedFrom" if proto else "DelegatesTo", KC),
                                      container_harness(ckind, dn, proto, KC),
                                      bounds={"history length": KC, "target attribute": "data (a %s trait)" % ckind, "deferring attribute": dn,
                                              "operations": ["mutate in place (4 ways)", "assign a new container", "swap the delegate",
                                                             "mutate the other object's container", "mutate a replaced container",
                                                             "change similarly named attributes"]},
                                      leverage="choice feasibility only (compiled code runs concretely)", max_paths=100000))
    return obs
