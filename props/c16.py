"""C16 - legacy on_trait_change extended names agree with observe on unshared graphs.

Bounded differential exploration (through the symbolic explorer, list positions symbolic): the same handler is registered
through on_trait_change with an extended name and through observe with the corresponding expression on ONE tree-shaped object
graph (every insertion uses a fresh object, so no object is referenced twice); after every mutation every node is probed.
Oracle: for a change of the final attribute the legacy handler is called iff the node is currently reachable along the name,
exactly as the observe handler (and as an independent reachability evaluator); removing the registration stops all calls;
changes of intermediate links are reported for '.' links and not for ':' links.
No arithmetic in the code under test: the solver contributes list indices and choice feasibility only.
"""
from vt import symx
from traits.api import Int
from vt.oblig import Obligation
import props._graphs as G

from traits.api import push_exception_handler, pop_exception_handler, on_trait_change, observe
from traits.observation import exception_handling as _eh

LEVEL = "model_checking"
ENCODED = [("traits/traits_listener.py", ["ListenerItem.register", "ListenerItem.unregister", "ListenerItem.handle_simple",
                                          "ListenerItem.handle_dst", "ListenerItem.handle_list", "ListenerItem.handle_list_items",
                                          "ListenerItem.handle_dict", "ListenerItem.handle_dict_items", "ListenerParser.parse"]),
           ("traits/has_traits.py", ["HasTraits.on_trait_change", "HasTraits._on_trait_change", "_get_instance_handlers",
                                     "HasTraits._list_items_changed_handler"])]
EXPLANATION = ("Differential bounded exploration: legacy extended names vs observe expressions on tree-shaped graphs, list indices "
               "symbolic; independent reachability evaluator as third party.")
STUBS = G.c04.STUBS
ASSUMPTIONS = ["tree-shaped graphs only (fresh object at every insertion), as the property states"]

# legacy name -> (observe expression, steps, first link notifies)
NAMES = {
    "child.value": ("child.value", ("child",), True),
    "child:value": ("child:value", ("child",), False),
    "children.value": ("children.items.value", ("children",), True),
    "children:value": ("children:items:value", ("children",), False),
    "mapping.value": ("mapping.items.value", ("mapping",), True),
    "child.child.value": ("child.child.value", ("child", "child"), True),
    "child.children.value": ("child.children.items.value", ("child", "children"), True),
    "entries.value": ("entries.items.value", ("entries",), True),
}
# names whose last element is not the plain attribute 'value': the attributes selected by metadata, and containers in terminal
# position (the legacy handler hears whole-value changes and in-place changes of the container alike)
FINALS = {
    "child:+mtag": ("child:+mtag", ("child",), False, "+mtag"),
    "child.mapping": ("child.mapping.items", ("child",), True, "mapping"),
    "child.children": ("child.children.items", ("child",), True, "children"),
    "child.group": ("child.group.items", ("child",), True, "group"),
}
MUTS = {
    "child": ["child=", "child=None", "grandchild=", "child_children_append", "bad_registration", "del_child"],
    "children": ["append", "insert", "del", "setitem", "reverse", "sort", "clear", "assign_list", "bad_registration", "del_children"],
    "mapping": ["map_set", "map_del", "map_update_mixed", "map_assign", "bad_registration", "del_mapping"],
    "entries": ["map_set", "map_del", "map_update_mixed", "map_replace", "map_assign"],
}


def mutate(ex, step, root, mut, fresh, dattr="mapping"):
    n = len(root.children)
    if mut.startswith("map_") and dattr != "mapping":
        d = getattr(root, dattr)
        if mut == "map_set":
            d["k%d" % step] = fresh()
        elif mut == "map_del":
            if d:
                d.pop(sorted(d)[0])
        elif mut == "map_replace":
            if d:
                d[sorted(d)[0]] = fresh()          # the value under an existing key is replaced
        elif mut == "map_update_mixed":
            upd = {"new%d" % step: fresh()}
            if d:
                upd[sorted(d)[0]] = fresh()
            d.update(upd)
        else:
            setattr(root, dattr, {"z": fresh()})
        return
    if mut == "add_mtag_trait":
        # a trait carrying the metadata is ADDED to the object currently reachable along the link, after the registration
        tgt = root.child
        if tgt is not None and "tv_added" not in tgt.trait_names():
            tgt.add_trait("tv_added", Int(0, mtag=True))
        return
    if mut == "child=":
        root.child = fresh()
    elif mut == "child=None":
        root.child = None
    elif mut == "grandchild=":
        if root.child is not None:
            root.child.child = fresh()
    elif mut == "child_children_append":
        if root.child is not None:
            root.child.children.append(fresh())
    elif mut == "append":
        root.children.append(fresh())
    elif mut == "insert":
        try:
            root.children.insert(ex.int("i%d" % step), fresh())
        except OverflowError:
            pass                    # beyond a C ssize_t: refused, as by the built-in list
    elif mut == "del":
        try:
            del root.children[ex.int("i%d" % step)]
        except IndexError:
            pass
    elif mut == "setitem":
        try:
            root.children[ex.int("i%d" % step)] = fresh()
        except IndexError:
            pass
    elif mut == "reverse":
        root.children.reverse()
    elif mut == "sort":
        root.children.sort(key=lambda x: x.name, reverse=True)
    elif mut == "clear":
        root.children.clear()
    elif mut == "assign_list":
        root.children = [fresh(), fresh()]
    elif mut == "map_set":
        root.mapping["k%d" % step] = fresh()
    elif mut == "map_del":
        if root.mapping:
            root.mapping.pop(sorted(root.mapping)[0])
    elif mut == "map_update_mixed":
        upd = {"new%d" % step: fresh()}
        if root.mapping:
            upd[sorted(root.mapping)[0]] = fresh()      # replaces an existing key AND adds a new one in one update
        root.mapping.update(upd)
    elif mut == "map_assign":
        root.mapping = {"z": fresh()}
    elif mut in ("del_child", "del_children", "del_mapping"):
        try:
            delattr(root, mut[4:])          # back to the default: a change of the link like any other
        except Exception:
            pass
    else:
        raise AssertionError(mut)


class _Recorder:
    """listener objects that compare EQUAL to each other (value-based __eq__) while being distinct: a registration belongs to
    the object whose bound method was given"""

    def __init__(self, legacy, modern):
        self.legacy, self.modern = legacy, modern

    def __eq__(self, other):
        return isinstance(other, _Recorder)

    def __hash__(self):
        return 7

    def on_legacy(self, obj, name, old, new):
        self.legacy.append((name, new))

    def on_modern(self, e):
        if type(e).__name__ == "TraitChangeEvent" and e.name == "value":
            self.modern.append((e.name, e.new))


def _swap_links(name):
    return name.replace(".", "\0").replace(":", ".").replace("\0", ":")


def harness_factory(lname, k, nargs, twins=False, form="lambda"):
    """twins: every object the mutations put into the graph compares EQUAL to every other one (value-based __eq__) while
    being a distinct object - reachability is a matter of identity"""
    final = "value"
    if lname in FINALS:
        oexpr, steps, first_notifies, final = FINALS[lname]
    else:
        oexpr, steps, first_notifies = NAMES[lname]
    muts = MUTS[steps[0]] + (["add_mtag_trait"] if final == "+mtag" else [])

    def harness(ex):
        errors = []
        _eh.push_exception_handler(handler=lambda e: errors.append(e), reraise_exceptions=False)
        push_exception_handler(lambda *a: errors.append(a), reraise_exceptions=False)
        try:
            return body(ex, errors)
        finally:
            pop_exception_handler()
            _eh.pop_exception_handler()

    def body(ex, errors):
        N = G.mk_node_class()
        counter = [0]

        def fresh():
            counter[0] += 1
            return N(name="f%02d" % counter[0], eqkey="twin") if twins else N(name="f%02d" % counter[0])

        legacy, modern, legacy2, modern2 = [], [], [], []
        Root = N
        ctor = {}
        if form in ("decorated", "overridden"):
            # the same registration declared on the class: decorated handlers, optionally postponed until after the constructor
            # arguments (post_init), optionally re-declared by a subclass under another extended name
            post = ex.flag("post_init")

            def declare(base, ln, oe):
                class Declared(base):
                    @on_trait_change(ln, post_init=post)
                    def _legacy_handler(self, obj, name, old, new):
                        legacy.append((name, new))

                    @observe(oe, post_init=post)
                    def _modern_handler(self, e):
                        if type(e).__name__ == "TraitChangeEvent" and e.name == "value":
                            modern.append((e.name, e.new))
                return Declared
            if form == "overridden":
                Base = declare(N, _swap_links(lname), _swap_links(oexpr))
                Root = declare(Base, lname, oexpr)
            else:
                Root = declare(N, lname, oexpr)
        if form == "static_for":
            # the oldest spelling of an extended listener: a method named _<attribute>_changed_for_<link> on the class
            def _static(self, obj, name, old, new):
                legacy.append((name, new))
            _static.__name__ = "_value_changed_for_" + steps[0]
            Root = type("DeclaredFor", (N,), {_static.__name__: _static})
        start_none = ex.flag("child_starts_none")
        if form == "static_for" and ex.flag("constructor_arguments"):
            if not start_none:
                ctor["child"] = fresh()
            ctor["children"] = [fresh(), fresh()]
            root = Root(name="root", **ctor)
            root.mapping = {"a": fresh()}
        elif form in ("decorated", "overridden") and ex.flag("constructor_arguments"):
            if not start_none:
                ctor["child"] = fresh()
            ctor["children"] = [fresh(), fresh()]
            ctor["mapping"] = {"a": fresh()}
            root = Root(name="root", **ctor)
        else:
            root = Root() if form in ("decorated", "overridden") else Root(name="root")
            if not start_none:
                root.child = fresh()
            root.children = [fresh(), fresh()]
            root.mapping = {"a": fresh()}
        root.entries = {"e": fresh()}
        if form == "methods":
            r1, r2 = _Recorder(legacy, modern), _Recorder(legacy2, modern2)
        if nargs == 0:
            lh = lambda: legacy.append(("?", "value"))
        elif nargs == 1:
            lh = lambda new: legacy.append(("?", new))
        elif nargs == 2:
            lh = lambda name, new: legacy.append((name, new))
        else:
            lh = lambda obj, name, old, new: legacy.append((name, new))
        oh = lambda e: modern.append((e.name, e.new)) if type(e).__name__ == "TraitChangeEvent" and e.name == "value" else None
        if final == "+mtag":
            oh = lambda e: modern.append((e.name, e.new)) if e.name.startswith("tv_") else None
        elif final != "value":
            oh = lambda e: modern.append(type(e).__name__) if type(e).__name__ in ("ListChangeEvent", "DictChangeEvent", "SetChangeEvent") else None
        if form == "lambda":
            root.on_trait_change(lh, lname)
            root.observe(oh, oexpr)
        elif form == "static_for":
            root.observe(oh, oexpr)
        elif form == "methods":
            lh = r1.on_legacy
            for r in (r1, r2):
                root.on_trait_change(r.on_legacy, lname)
                root.observe(r.on_modern, oexpr)
        else:
            lh = root._legacy_handler
        keep = []
        trace = []
        for step in range(k):
            mut = muts[ex.choice("mut%d" % step, len(muts))]
            keep.extend(x for x in G.all_nodes(root, keep) if not any(x is y for y in keep))
            legacy.clear()
            modern.clear()
            old_first = getattr(root, steps[0])
            nerr = len(errors)
            if mut == "bad_registration":
                # another registration under the SAME extended name fails: the one made earlier is none of its business
                bogus = lambda: None
                try:
                    root.on_trait_change(bogus, lname, dispatch="no-such-dispatch")
                except Exception:
                    pass
                else:
                    # nothing along the name to hook yet, so nothing looked at the dispatch: take it back
                    try:
                        root.on_trait_change(bogus, lname, remove=True)
                    except Exception:
                        pass
            else:
                try:
                    mutate(ex, step, root, mut, fresh, dattr=steps[0] if steps[0] == "entries" else "mapping")
                except symx.PathAbort:
                    raise
                except Exception as e:
                    ex.check(False, "a mutation of the graph raises nothing (%s)" % type(e).__name__)
                    return {"trace": trace + [mut]}
            trace.append(mut)
            new_first = getattr(root, steps[0])
            # intermediate link changed (first link): '.' reports, ':' does not
            first_link_changed = (steps[0] == "child" and mut in ("child=", "child=None", "del_child")) or \
                (steps[0] == "children" and mut in ("assign_list", "del_children")) or (steps[0] == "mapping" and mut in ("map_assign", "del_mapping"))
            if first_link_changed and len(steps) == 1:
                changed = new_first is not old_first
                if changed and old_first is not None and new_first is not None:
                    try:
                        if bool(old_first == new_first):
                            changed = False      # an EQUAL value is no change for a user handler under the default comparison mode
                    except Exception:
                        pass
                if not first_notifies:
                    ex.check(legacy == [], "a change of a ':' link is not reported to the legacy handler")
                elif changed and (nargs in (0, 3, 4) or old_first is None) and not (twins and old_first is not None and new_first is not None
                                                                                   and bool(old_first == new_first)):
                    # (an equal value is no change for a USER handler under the default comparison mode; the hooks move all the same)
                    ex.check(len(legacy) >= 1, "a change of a '.' link is reported to the legacy handler")
                if first_notifies and nargs in (1, 2) and old_first is not None:
                    # documented legacy restriction: 1- and 2-argument handlers are 'incompatible with a change to an
                    # intermediate trait' (a TraitError is logged); not part of the property
                    del errors[nerr:]
            # probe every node ever seen: final-attribute changes
            nodes = G.all_nodes(root, keep)
            reach = G.reachable(root, steps)
            probes = [("value", True)]
            if final == "+mtag":
                probes = [("tv_a", True), ("tv_f", True), ("tv_n", False), ("tv_added", True)]
            elif final != "value":
                probes = [(final, True)]
            for node, (attr, selected) in [(n_, p_) for n_ in nodes for p_ in probes]:
                legacy.clear()
                modern.clear()
                legacy2.clear()
                modern2.clear()
                if attr == "tv_added" and "tv_added" not in node.trait_names():
                    continue
                if attr == "mapping":
                    node.mapping["probe%d" % step] = fresh()          # in place
                elif attr == "children":
                    node.children.append(fresh())
                elif attr == "group":
                    node.group.add(fresh())
                else:
                    setattr(node, attr, getattr(node, attr) + 1)
                want = 1 if (selected and any(node is r for r in reach)) else 0
                if form == "methods":
                    ex.check(len(modern2) == want and len(legacy2) == want,
                             "a second listener object that compares equal to the first has its own registration")
                ex.check(len(modern) == want, "observe handler called iff the node is reachable (reference behaviour)")
                ex.check(len(legacy) == want, "the legacy handler is called for a change of the final attribute iff the changed object is "
                                              "currently reachable along the name, exactly as the observe handler")
        if form == "static_for":
            ex.note("errors", [repr(e)[:300] for e in errors])
            ex.check(errors == [], "no listener raised")
            return {"trace": trace}
        # removal stops all calls
        root.on_trait_change(lh, lname, remove=True)
        reach = G.reachable(root, steps)
        for node in G.all_nodes(root, keep):
            legacy.clear()
            legacy2.clear()
            node.value += 1
            if final == "+mtag":
                node.tv_a += 1
                node.tv_f += 1
            elif final == "mapping":
                node.mapping["gone"] = fresh()
            elif final == "children":
                node.children.append(fresh())
            elif final == "group":
                node.group.add(fresh())
            ex.check(legacy == [], "removing the registration stops all calls")
            if form == "methods":
                ex.check(len(legacy2) == (1 if any(node is r for r in reach) else 0),
                         "... and only the calls of the listener object whose registration was removed")
        ex.note("errors", [repr(e)[:300] for e in errors])
        ex.check(errors == [], "no listener raised")
        return {"trace": trace}

    return harness


def group_harness(ex):
    """a bracketed group of links in an extended name - '[child,tchild]:value' / '[child,tchild].value': the connector after the
    group applies to every member, exactly as in the observe expression of the same spelling"""
    errors = []
    _eh.push_exception_handler(handler=lambda e: errors.append(e), reraise_exceptions=False)
    push_exception_handler(lambda *a: errors.append(a), reraise_exceptions=False)
    try:
        N = G.mk_node_class()
        conn = [":", "."][ex.choice("connector", 2)]
        name = "[child,tchild]" + conn + "value"
        counter = [0]

        def fresh():
            counter[0] += 1
            return N(name="g%02d" % counter[0])
        root = N(name="root")
        root.child, root.tchild = fresh(), fresh()
        legacy, modern = [], []
        root.on_trait_change(lambda obj, n_, old, new: legacy.append(n_), name)
        root.observe(lambda e: modern.append(e.name), name)
        detached = []
        for step in range(2):
            op = ex.choice("op%d" % step, 4)
            del legacy[:], modern[:]
            if op in (0, 1):
                attr = ("child", "tchild")[op]
                detached.append(getattr(root, attr))
                setattr(root, attr, fresh())             # a member of the group is re-assigned
                ex.check(sorted(legacy) == sorted(modern), "re-assigning a member of the group is reported to the legacy handler exactly "
                                                           "as to the observe handler (never after ':', once after '.')")
                ex.check((len(modern) == 0) == (conn == ":"), "(reference) observe reports the member's re-assignment iff the connector is '.'")
            elif op == 2:
                root.child.value += 1
                root.tchild.value += 1
                ex.check(legacy == ["value", "value"] and modern == ["value", "value"], "a change of the final attribute of either member is heard once")
            else:
                for d_ in detached:
                    d_.value += 1
                ex.check(legacy == [] and modern == [], "a detached member is not heard")
        ex.check(errors == [], "no listener raised")
        return {"connector": conn}
    finally:
        pop_exception_handler()
        _eh.pop_exception_handler()


def obligations(tier, build):
    obs = []
    K = 2 if tier == "quick" else 3
    for lname in NAMES:
        for nargs in ((1, 4) if tier == "quick" else (0, 1, 2, 4)):
            if nargs in (1, 2) and lname not in ("child.value", "child:value", "children:value"):
                continue      # 1- and 2-argument handlers are documented as incompatible with changes of intermediate '.' links
            obs.append(Obligation("agree/%s/args=%d/k=%d" % (lname, nargs, K), harness_factory(lname, K, nargs), env=G.env, stubs=STUBS,
                                  bounds={"extended name": lname, "observe expression": NAMES[lname][0], "history length": K,
                                          "handler signature (arguments)": nargs, "list positions": "unbounded Int"},
                                  leverage="list indices; otherwise choice feasibility only", max_paths=100000, path_wall_s=60))
            if nargs == 4:
                obs.append(Obligation("agree-twins/%s/args=%d/k=%d" % (lname, nargs, K), harness_factory(lname, K, nargs, twins=True),
                                      env=G.env, stubs=STUBS,
                                      bounds={"extended name": lname, "observe expression": NAMES[lname][0], "history length": K,
                                              "objects": "pairwise equal (value-based __eq__), distinct", "list positions": "unbounded Int"},
                                      leverage="list indices; otherwise choice feasibility only", max_paths=100000, path_wall_s=60))
    for lname in FINALS:
        obs.append(Obligation("agree-final/%s/k=%d" % (lname, K), harness_factory(lname, K, 4), env=G.env, stubs=STUBS,
                              bounds={"extended name": lname, "observe expression": FINALS[lname][0], "history length": K,
                                      "final element": "attributes selected by metadata (true / false / undefined)" if lname.endswith("+mtag")
                                      else "a container in terminal position, changed in place"},
                              leverage="choice feasibility only", max_paths=100000, path_wall_s=60))
    for lname in ("child:value", "children:value"):
        obs.append(Obligation("forms/static_for/%s/k=%d" % (lname, K), harness_factory(lname, K, 4, form="static_for"), env=G.env, stubs=STUBS,
                              bounds={"extended name": "method _value_changed_for_" + NAMES[lname][1][0], "observe expression": NAMES[lname][0],
                                      "history length": K, "constructor arguments": "flag"},
                              leverage="list indices; otherwise choice feasibility only", max_paths=100000, path_wall_s=60))
    obs.append(Obligation("group-of-links", group_harness, bounds={"names": ["[child,tchild]:value", "[child,tchild].value"], "history length": 2},
                          leverage="choice feasibility only"))
    FK = 2          # (the forms multiply the histories by the declaration flags: length 2 in both tiers, all names in thorough)
    for form in ("methods", "decorated", "overridden"):
        for lname in NAMES:
            if tier == "quick" and lname in ("child.children.value",):
                continue
            obs.append(Obligation("forms/%s/%s/k=%d" % (form, lname, FK), harness_factory(lname, FK, 4, form=form), env=G.env, stubs=STUBS,
                                  bounds={"extended name": lname, "observe expression": NAMES[lname][0], "history length": FK,
                                          "registration": {"methods": "bound methods of two listener objects that compare equal",
                                                           "decorated": "decorators on the class, post_init and constructor arguments symbolic",
                                                           "overridden": "decorated handlers re-declared by a subclass under the name with "
                                                                         "'.' and ':' exchanged"}[form]},
                                  leverage="list indices; otherwise choice feasibility only", max_paths=100000, path_wall_s=60))
    return obs
