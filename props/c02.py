"""C02 - change handlers fire exactly once per real change, with truthful old/new.

Encoded: has_traits_setattro / setattr_trait / setattr_event / getattr_trait / call_notifiers interpreted by csym on a real
HasTraits object; the notifier lists hold the *real* wrapper objects (static _x_changed, on_trait_change, observe) whose
__call__, _change_accepted and ctrait_prevent_event run natively.  Values are proxies: two distinct proxy objects are
'equal but not identical' exactly when z3 says their payloads are equal (ints), NaN semantics come from Float64.
"""
NEED_AST = True

import z3

from vt import symx, csym, cenv, pymodel
from vt.symx import SymInt, SymFloat
from vt.csym import NULL
from vt.oblig import Obligation
import props.c03 as c03

from traits.api import (HasTraits, Any, Int, Float, Event, Expression, observe, TraitError, Undefined, push_exception_handler,
                        pop_exception_handler)
from traits.trait_base import Uninitialized
from traits.constants import ComparisonMode

LEVEL = "model_checking"
ENCODED = [("traits/ctraits.c", ["has_traits_setattro", "setattr_trait", "setattr_event", "getattr_trait", "call_notifiers",
                                 "default_value_for", "has_traits_getattro"]),
           ("traits/trait_notifiers.py", ["_change_accepted", "TraitChangeNotifyWrapper.__call__",
                                          "StaticTraitChangeNotifyWrapper.__call__"]),
           ("traits/observation/_has_traits_helpers.py", ["ctrait_prevent_event"]),
           ("traits/observation/_trait_event_notifier.py", ["TraitEventNotifier.__call__"]),
           ("traits/has_traits.py", ["HasTraits._trait_listener", "HasTraits.add_trait_listener"])]
EXPLANATION = ("Bounded histories (k<=2 assignments, quick; 3 thorough) through the interpreted C assignment path with the real Python "
               "notifier wrappers; value payloads are z3 Ints / Float64s so equal-but-not-identical, NaN and raising comparisons are "
               "decided by the solver; comparison modes, trait kinds, which handler raises are explored exhaustively.")
STUBS = c03.STUBS
ASSUMPTIONS = ["int payloads > 1000 (outside CPython's small-int cache, so that 'not identical' is realisable)",
               "mixed int/float comparisons: |int| <= 2**53","user classes define == and != consistently (the legacy wrappers ask !=, observe asks ==)",
               "dispatch='same' only (threads outside)", "handlers do not mutate notifier lists while being called"]


class EqRaises:
    def __eq__(self, o):
        raise RuntimeError("== raises")

    def __ne__(self, o):
        raise RuntimeError("!= raises")

    __hash__ = None


class _Truthless:
    def __bool__(self):
        raise ValueError("truth value is ambiguous")


class NeAmbiguous:
    """numpy-array-like: comparisons return an object whose truth value raises"""

    def __eq__(self, o):
        return _Truthless()

    def __ne__(self, o):
        return _Truthless()

    __hash__ = None


class ReprRaises:
    """a value that cannot be printed: whatever reports a failing handler must cope with it"""

    def __repr__(self):
        raise RuntimeError("repr raises")

    __str__ = __repr__


VALUE_KINDS = ["int", "same", "float", "none", "eqraises", "ambiguous"]


def mk_owner(kind, mode, raising):
    """kind: any | int | event | expression"""
    logs = {"static": [], "otc": [], "observe": [], "other": []}
    md = {"comparison_mode": mode}
    foreign = None
    if kind == "any-mode-switched":
        # the definition was made with ANOTHER comparison mode and switched afterwards (CTrait.comparison_mode = ...): the compiled
        # flag bits and what the Python filters read must agree on the mode now in force
        other = ComparisonMode.identity if mode != ComparisonMode.identity else ComparisonMode.none
        tr = Any(comparison_mode=other).as_ctrait()
        tr.comparison_mode = mode
    elif kind in ("any", "any-magic", "any-subdefault", "any-second-use", "any-shared-ctrait"):
        tr = Any(**md)
    elif kind == "int":
        tr = Int(**md)
    elif kind == "float":
        tr = Float(**md)
    elif kind == "event":
        tr = Event()
    else:
        tr = Expression(**md)

    if kind == "any-subdefault":
        # the definition lives in a base class; the class in use only gives the attribute another default (x = <value>)
        class Base0(HasTraits):
            x = tr

            def _x_changed(self, old, new):
                logs["static"].append((old, new))

        class Owner(Base0):
            x = 2.5
    elif kind == "any-second-use":
        # ONE definition object used for two attributes: the one under test is the second CTrait made from it
        class Other(HasTraits):
            y = tr

        class Owner(HasTraits):
            x = tr

            def _x_changed(self, old, new):
                logs["static"].append((old, new))
    elif kind == "any-shared-ctrait":
        # ONE CTrait object (what Trait(...) returns; customary for enumerations defined once at module level) declared for
        # several attributes of this class and of another: every attribute has its own static handlers
        ct = tr.as_ctrait()

        class Pen(HasTraits):
            color = ct

        class Owner(HasTraits):
            w = ct
            x = ct
            y = ct

            def _w_changed(self, old, new):
                logs["static"].append(("foreign handler _w_changed", old, new))

            def _x_changed(self, old, new):
                logs["static"].append((old, new))

            def _y_changed(self, old, new):
                logs["static"].append(("foreign handler _y_changed", old, new))

        def foreign():
            Pen().color = 5
            p = Pen()
            p.color = 6
    elif kind == "any-magic":
        # an @observe-decorated method that happens to carry a magic name, inherited by the class in use: it is an observe
        # handler (one TraitChangeEvent per change), not ALSO a static handler
        _missing = object()

        class Base(HasTraits):
            x = tr

            @observe("x")
            def _x_changed(self, event):
                logs["static"].append((getattr(event, "old", _missing), getattr(event, "new", event)))

        class Owner(Base):
            pass
    else:
        class Owner(HasTraits):
            x = tr

            def _x_changed(self, old, new):
                logs["static"].append((old, new))
                if raising == "static":
                    raise RuntimeError("handler failed")

            def _x_fired(self, old, new):
                pass

    o = Owner()

    def otc(obj, name, old, new):
        logs["otc"].append((old, new))
        if raising == "otc":
            raise RuntimeError("handler failed")

    def obs(event):
        logs["observe"].append((event.old, event.new))
        if raising == "observe":
            raise RuntimeError("handler failed")

    def other(obj, name, old, new):
        logs["other"].append((old, new))

    o.on_trait_change(otc, "x")
    o.observe(obs, "x")
    o.on_trait_change(other, "x")
    if foreign is not None:
        logs["_foreign"] = (foreign,)
    return o, logs


def mk_val(ex, i, kind, prev, sym, tkind="any"):
    if kind == "same":
        return prev
    if kind == "int":
        if tkind == "int":
            v = ex.int("v%d" % i)          # Int trait: no floats around, plain mathematical integer
            ex.assume(v > 1000)
            return v
        v = ex.int64("v%d" % i)        # 64-bit backed: comparisons with floats stay in the FP/BV fragment
        # CPython shares one object for small ints: keep payloads outside the small-int cache so that distinct proxies
        # correspond to distinct objects in the concrete replay (identity comparison mode is about object identity)
        ex.assume((v.bv64 > 1000) if ex.sym else (v > 1000))
        return v
    if kind == "float":
        return ex.fp("f%d" % i)
    if kind == "none":
        return None
    if kind == "eqraises":
        return EqRaises()
    if kind == "ambiguous":
        return NeAmbiguous()
    if kind == "bad":
        return "not-an-int"
    if kind == "reprraises":
        return ReprRaises()
    if kind == "expr":
        return ["1+1", "2", "1+1"][ex.choice("e%d" % i, 3)]
    raise AssertionError(kind)


def unequal(ex, old, new):
    """oracle: 'compares unequal' (a raising or undecidable comparison counts as a change), on possibly abstract values"""
    if old is new:
        return False
    try:
        r = (old != new)
        if isinstance(r, symx.SymBool):
            return ex.decide(r) if ex.sym else bool(r)
        return bool(r)
    except symx.PathAbort:
        raise
    except Exception:
        return True


def read_attr(ex, it, o, name):
    if ex.sym:
        os_ = cenv.hastraits_struct(it, o)
        r = it.call("has_traits_getattro", [os_, name])
        if r is NULL:
            e = it.st.err
            it.st.err = None
            return ("raised", e[0].__name__)
        return r
    try:
        return getattr(o, name)
    except Exception as e:
        return ("raised", type(e).__name__)


def make_harness(tkind, mode, kinds, raising, first_read, default_eh=False):
    """default_eh: leave observe's DEFAULT exception handler in place (it logs the failing handler with the event's values);
    the log records go to a NullHandler"""
    k = len(kinds)

    def harness(ex):
        import logging
        from traits.observation import exception_handling as _eh
        legacy_default = default_eh == "legacy"          # the library's own NotificationExceptionHandler logs the failure
        observe_default = default_eh and not legacy_default
        if not legacy_default:
            push_exception_handler(lambda *a: None, reraise_exceptions=False)
        logger = logging.getLogger("traits")
        null = logging.NullHandler()
        if default_eh:
            logger.addHandler(null)
            old_prop, logger.propagate = logger.propagate, False
        if not observe_default:
            _eh.push_exception_handler(handler=lambda e: None, reraise_exceptions=False)
        try:
            return body(ex)
        finally:
            if default_eh:
                logger.removeHandler(null)
                logger.propagate = old_prop
            if not observe_default:
                _eh.pop_exception_handler()
            if not legacy_default:
                pop_exception_handler()

    def body(ex):
        o, logs = mk_owner(tkind, mode, raising)
        foreign = logs.pop("_foreign", None)
        it = cenv.new_interp() if ex.sym else None
        if first_read and tkind != "event":
            d = read_attr(ex, it, o, "x")
            ex.check(all(len(v) == 0 for v in logs.values()), "first read of a default reaches no handler")
        prev = o.__dict__.get("x", Undefined)
        obs_out = []
        for i, kind in enumerate(kinds):
            value = None if kind == "quietbad" else mk_val(ex, i, kind, prev if "x" in o.__dict__ else None, ex.sym, tkind)
            had = "x" in o.__dict__
            old_readable = o.__dict__["x"] if had else (Undefined if tkind == "event" else o.trait("x").default_value()[1])
            n0 = {m: len(v) for m, v in logs.items()}
            if kind == "quietbad":
                # a quiet update (trait_setq / trait_set(trait_change_notify=False)) that fails: natively, on the real object
                exc = None
                try:
                    if ex.choice("quiet_api%d" % i, 2):
                        o.trait_setq(x="not-an-int")
                    else:
                        o.trait_set(trait_change_notify=False, x="not-an-int")
                except TraitError as e:
                    exc = e
                ex.check(exc is not None, "a quiet update with an invalid value raises TraitError")
                ex.check(all(len(v) == n0[m] for m, v in logs.items()), "... and reaches no handler")
                ex.check(("x" in o.__dict__) == had and (not had or o.__dict__["x"] is old_readable), "... and leaves the value as it was")
                if ex.sym:
                    cenv.refresh_flags(it, o)
                obs_out.append([False, False])
                continue
            if ex.sym:
                os_ = cenv.hastraits_struct(it, o)
                with cenv.python_side_env():
                    rc = it.call("has_traits_setattro", [os_, "x", value])
                err = it.st.err
                it.st.err = None
            else:
                try:
                    o.x = value
                    rc, err = 0, None
                except Exception as e:
                    rc, err = -1, (type(e), e)
            accept = rc == 0
            stored = o.__dict__.get("x", None)
            if tkind == "float" and accept and kind in ("float", "same"):
                ex.check(stored is value, "an exact float is stored as the very object that was assigned")
                stored = value          # identity below is about the object the user assigned
            if tkind == "event":
                fires = accept
                exp_old = Undefined
                exp_new = value
            else:
                if not accept:
                    fires = False
                elif mode == ComparisonMode.none:
                    fires = True
                elif mode == ComparisonMode.identity:
                    fires = stored is not old_readable if tkind != "expression" else value is not old_readable
                else:
                    fires = (stored is not old_readable) and unequal(ex, old_readable, stored)
                exp_old, exp_new = old_readable, stored
            if not accept:
                ex.check(err is not None and err[0].__name__ == "TraitError", "rejected assignment raises TraitError")
                ex.check(("x" in o.__dict__) == had and (not had or o.__dict__["x"] is old_readable),
                         "rejected assignment leaves the value as it was")
            elif tkind != "event":
                ex.check("x" in o.__dict__, "accepted assignment is stored even if a handler raises")
            for m in ("static", "otc", "observe", "other"):
                got = len(logs[m]) - n0[m]
                ex.check(got == (1 if fires else 0),
                         "%s handler called exactly once iff the assignment is a change under the comparison mode" % m)
                if got == 1:
                    lo, ln = logs[m][-1]
                    ex.check(lo is exp_old or (exp_old is Undefined and lo is Undefined), "%s: reported old is what was readable before" % m)
                    ex.check(ln is exp_new, "%s: reported new is what is readable after" % m)
            obs_out.append([accept, bool(fires)])
            prev = o.__dict__.get("x", prev)
        if foreign:
            n0 = {m: len(v) for m, v in logs.items()}
            foreign[0]()
            ex.check(all(len(v) == n0[m] for m, v in logs.items()), "assignments to attributes of ANOTHER class declared with the same "
                                                                    "definition object reach none of this object's handlers")
        return {"steps": obs_out}

    return harness


def deferred_harness(k):
    """deferring traits (DelegatesTo / PrototypedFrom): handlers of the deferring attribute fire exactly once per change of its
    READABLE value and never otherwise, with truthful old / new - also when the handlers are attached late, after local
    assignments or deletions made while nobody was listening"""
    from traits.api import Instance, DelegatesTo, PrototypedFrom

    def harness(ex):
        push_exception_handler(lambda *a: None, reraise_exceptions=False)
        try:
            proto = ex.flag("prototyped")

            class Src(HasTraits):
                x = Int(0)

            class Dst(HasTraits):
                src = Instance(Src, ())
                x = (PrototypedFrom if proto else DelegatesTo)("src")

            d = Dst()
            log = []

            def otc(obj, name, old, new):
                log.append(("otc", old, new))

            def obs(event):
                log.append(("obs", event.old, event.new))

            attached = False
            attach_at = ex.choice("handlers_attached_before_step", k + 1)
            local = False
            val = 10
            for step in range(k + 1):
                if step == attach_at:
                    d.on_trait_change(otc, "x")
                    d.observe(obs, "x")
                    attached = True
                if step == k:
                    break
                op = ex.choice("op%d" % step, 4)
                val += 1
                before = d.x
                del log[:]
                if op == 0:
                    d.x = val                       # via the deferring attribute
                    if proto:
                        local = True
                elif op == 1:
                    d.src.x = val                   # on the delegate / prototype
                elif op == 2:
                    if not (proto and local):
                        continue
                    del d.x                         # the local value goes: the link is back
                    local = False
                else:
                    if not attached:
                        continue
                    d.on_trait_change(otc, "x", remove=True)      # detach and re-attach: state kept while nobody listens
                    d.observe(obs, "x", remove=True)
                    d.on_trait_change(otc, "x")
                    d.observe(obs, "x")
                after = d.x
                if attached:
                    want = [("obs", before, after), ("otc", before, after)] if after != before else []
                    ex.check(sorted(log, key=repr) == sorted(want, key=repr),
                             "handlers of a deferring attribute fire exactly once per change of its readable value and never "
                             "otherwise, with truthful old and new (whenever they were attached)")
            return {"proto": proto}
        finally:
            pop_exception_handler()
    return harness


def deferred_event_harness(k):
    """deferring traits whose target is an EVENT: every assignment fires, with old Undefined, the handlers (static, on_trait_change,
    observe) of the object that was assigned to - a PrototypedFrom event is fired on the deferring object alone, a DelegatesTo
    event on the delegate (and mirrored on the deferring object iff listenable); rejected values fire nothing"""
    from traits.api import Instance, DelegatesTo, PrototypedFrom

    def harness(ex):
        push_exception_handler(lambda *a: None, reraise_exceptions=False)
        try:
            proto = ex.flag("prototyped")
            listenable = ex.flag("listenable")
            calls = []

            class Child(HasTraits):
                fire = Event(Int)

                def _fire_fired(self, old, new):
                    calls.append(("child", "static", old, new))

            class Parent(HasTraits):
                child = Instance(Child, ())
                fire = (PrototypedFrom if proto else DelegatesTo)("child", listenable=listenable)

                def _fire_fired(self, old, new):
                    calls.append(("parent", "static", old, new))

            p = Parent()
            late = ex.flag("child_handlers_attached_first")
            def attach_child():
                p.child.on_trait_change(lambda o, n, old, new: calls.append(("child", "otc", old, new)), "fire")
                p.child.observe(lambda e: calls.append(("child", "observe", e.old, e.new)), "fire")
            if late:
                attach_child()
            p.on_trait_change(lambda o, n, old, new: calls.append(("parent", "otc", old, new)), "fire")
            p.observe(lambda e: calls.append(("parent", "observe", e.old, e.new)), "fire")
            if not late:
                attach_child()
            val = 2000
            for step in range(k):
                op = ex.choice("op%d" % step, 4)
                val += 1 if op != 3 else 0          # op 3 fires the same value again: an event has no 'unchanged'
                del calls[:]
                exc = None
                try:
                    if op in (0, 3):
                        p.fire = val
                    elif op == 1:
                        p.child.fire = val
                    else:
                        p.fire = "not an int"
                except TraitError as e:
                    exc = e
                mech = ("observe", "otc", "static")
                def want(who):
                    return sorted((who, m, Undefined, val) for m in mech)
                got = {who: sorted(c for c in calls if c[0] == who) for who in ("parent", "child")}
                if op == 2:
                    ex.check(exc is not None and calls == [], "a value the event's type rejects raises TraitError and fires nothing")
                elif op in (0, 3):
                    ex.check(exc is None, "firing through the deferring attribute is accepted")
                    if proto:
                        ex.check(got["parent"] == want("parent"), "a PrototypedFrom event fires every handler of the deferring object exactly once, old Undefined")
                        ex.check(got["child"] == [], "a PrototypedFrom event does not fire the prototype's own handlers")
                    else:
                        ex.check(got["child"] == want("child"), "a DelegatesTo event fires every handler of the delegate exactly once, old Undefined")
                        ex.check(got["parent"] == (want("parent") if listenable else []),
                                 "a DelegatesTo event is mirrored on the deferring object exactly once iff listenable")
                else:
                    ex.check(got["child"] == want("child"), "the target's own event fires the target's handlers exactly once")
                    if not proto:
                        ex.check(got["parent"] == (want("parent") if listenable else []),
                                 "a DelegatesTo event is mirrored on the deferring object exactly once iff listenable")
            return {"proto": proto}
        finally:
            pop_exception_handler()
    return harness


def listener_object_harness(ex):
    """add_trait_listener(listener, prefix): the listener object's methods named <prefix>_<name>_changed / <prefix>_<name>_fired /
    <prefix>_anytrait_changed are handlers of <name> like any other - called exactly once per change, never otherwise, and not at all
    after remove_trait_listener"""
    push_exception_handler(lambda *a: None, reraise_exceptions=False)
    try:
        prefix = ["", "alt", "alt_", "x"][ex.choice("prefix", 4)]
        p_ = (prefix if prefix.endswith("_") else prefix + "_") if prefix else "_"
        calls = []

        def mk(label):
            return lambda self, *a: calls.append(label)

        ns = {p_ + "x_changed": mk("x_changed"), p_ + "go_fired": mk("go_fired"), p_ + "go_changed": mk("go_changed"),
              p_ + "y_fired": mk("y_fired"), p_ + "anytrait_changed": mk("anytrait"),
              "other_x_changed": mk("foreign prefix"), p_ + "nosuch_changed": mk("no such trait")}
        for n_, f_ in ns.items():
            f_.__name__ = n_          # (bound-method handlers are found again by name)
        Listener = type("Listener", (object,), ns)

        class O(HasTraits):
            x = Int(0)
            y = Int(0)
            go = Event()

        o, listener = O(), Listener()
        o.add_trait_listener(listener, prefix) if prefix else o.add_trait_listener(listener)
        removed = False
        val = 1000
        for step in range(3):
            op = ex.choice("op%d" % step, 5)
            del calls[:]
            val += 1
            if op == 0:
                o.x = val
                want = ["anytrait", "x_changed"]
            elif op == 1:
                o.x = o.x                       # no change
                want = []
            elif op == 2:
                o.go = val
                want = ["anytrait", "go_changed", "go_fired"]
            elif op == 3:
                o.y = val
                want = ["anytrait", "y_fired"]
            else:
                o.remove_trait_listener(listener, prefix) if prefix else o.remove_trait_listener(listener)
                removed = True
                continue
            ex.check(sorted(calls) == ([] if removed else want),
                     "the listener object's conventionally named methods are called exactly once per change of their trait (none after removal)")
        return {"prefix": prefix}
    finally:
        pop_exception_handler()


def dispatch_mutation_harness(ex):
    """handlers that change the handler population WHILE a change is being dispatched, on every route (the trait's own handlers,
    object-level handlers registered without a name, observe): a handler that unregisters itself (or a later one) does not make
    the others miss this change; a handler registered during the dispatch hears the NEXT change, not this one; two listener
    objects that compare equal are two handlers"""
    push_exception_handler(lambda *a: None, reraise_exceptions=False)
    try:
        route = ex.choice("route", 3)          # 0: named on_trait_change, 1: name-less (object-level), 2: observe

        class O(HasTraits):
            x = Int(0)
            y = Int(0)

        o = O()
        calls = []

        def reg(h, remove=False):
            if route == 0:
                o.on_trait_change(h, "x", remove=remove)
            elif route == 1:
                o.on_trait_change(h, remove=remove)
            else:
                o.observe(h, "x", remove=remove)

        def second(*a):
            calls.append("second")

        def late(*a):
            calls.append("late")

        what = ex.choice("first_handler_does", 3)

        done = []

        def first(*a):
            calls.append("first")
            if done:
                return
            done.append(1)
            if what == 0:
                reg(first, remove=True)          # one-shot: takes itself off
            elif what == 1:
                reg(second, remove=True)         # takes a LATER handler off: by documented snapshot semantics it still hears this change
            else:
                reg(late)                        # adds a handler: it must not hear the change that was already under way

        if route == 2:
            first_h, second_h, late_h = (lambda e: first()), (lambda e: second()), (lambda e: late())
            # observe needs stable callables for removal
            table = {}
            def reg(h, remove=False, _t=table):           # noqa: F811
                hh = _t.setdefault(h, (lambda e, h=h: h()))
                o.observe(hh, "x", remove=remove)
        reg(first)
        reg(second)
        o.x = 1
        ex.check(calls.count("first") == 1 and calls.count("second") == 1, "a handler that changes the handler population during the "
                                                                           "dispatch does not make another handler miss the change")
        ex.check("late" not in calls, "a handler registered during a dispatch does not hear the change that was under way")
        del calls[:]
        o.x = 2
        want = {"first": 0 if what == 0 else 1, "second": 0 if what == 1 else 1, "late": 1 if what == 2 else 0}
        ex.check(all(calls.count(k_) == (1 if v_ else 0) for k_, v_ in want.items()) or what == 2 and calls.count("late") >= 1 and
                 calls.count("first") == 1 and calls.count("second") == 1,
                 "the next change is heard by exactly the handlers now registered")
        # two listener objects that compare equal, same method name
        class L:
            def __init__(self, tag):
                self.tag = tag

            def __eq__(self, other):
                return isinstance(other, L)

            def __hash__(self):
                return 1

            def on_y(self, *a):
                calls.append(self.tag)
        l1, l2 = L("l1"), L("l2")
        if route == 2:
            o.observe(l1.on_y, "y")
            o.observe(l2.on_y, "y")
        else:
            o.on_trait_change(l1.on_y, "y")
            o.on_trait_change(l2.on_y, "y")
        del calls[:]
        o.y = 5
        ex.check(sorted(c for c in calls if c in ("l1", "l2")) == ["l1", "l2"], "two listener objects that compare equal are two handlers")
        return {"route": route, "what": what}
    finally:
        pop_exception_handler()


def mode_setter_harness(ex):
    """the compiled comparison-mode setter / getter pair on an ARBITRARY 32-bit flag word and an arbitrary integer mode (interpreted
    from the C source): a valid mode leaves exactly that mode readable, writes the same mode bits whatever the word held before, and
    touches no other flag; an invalid mode raises ValueError and changes nothing"""
    from vt.csym import NULL
    mode = ex.int("mode")
    f0 = ex.bv("flags", 32)
    if not ex.sym:
        # the real build: the flag word is put into a CTrait through its state tuple (__getstate__ / __setstate__ carry it)
        from traits.ctrait import CTrait

        def real(flags, m):
            ct = CTrait(0)
            st_ = list(ct.__getstate__())
            st_[8], st_[14] = flags & 0xFFFFFFFF, {}
            ct.__setstate__(tuple(st_))
            try:
                ct.comparison_mode = m
                outcome = "ok"
            except (ValueError, OverflowError):
                outcome = "ValueError"
            return ct.__getstate__()[8], outcome, ct
        touched, pattern = 0, {}
        for m in (0, 1, 2):
            z, _o, _c = real(0, m)
            o_, _o, _c = real(0xFFFFFFFF, m)
            touched |= z | (~o_ & 0xFFFFFFFF)
            pattern[m] = z
        f1, outcome, ct = real(f0, mode)
        if 0 <= mode <= 2:
            ex.check(outcome == "ok", "a valid comparison mode is accepted")
            ex.check(int(ct.comparison_mode) == mode, "a valid comparison mode is the mode readable afterwards")
            ex.check(f1 & ~touched == f0 & ~touched, "setting the comparison mode touches no other flag")
            ex.check(f1 & touched == pattern[mode] & touched, "the mode bits written are the mode's own pattern, whatever the word held before")
        else:
            ex.check(outcome != "ok", "an invalid comparison mode raises ValueError")
            ex.check(f1 == f0, "an invalid comparison mode is refused and changes nothing")
        return {"outcome": outcome}
    it = cenv.new_interp()

    def run(flags, m):
        t = cenv.new_trait(handler=NULL)
        t.flags = flags
        rc = it.call("_set_trait_comparison_mode", [t, m, NULL])
        err = it.st.err
        it.st.err = None
        return t, rc, err
    # which bits the setter ever writes, measured on the all-zeros and the all-ones word (concrete runs of the same interpreted code)
    touched = 0
    pattern = {}
    for m in (0, 1, 2):
        t0, _r, _e = run(0, m)
        t1, _r, _e = run(0xFFFFFFFF, m)
        touched |= int(t0.flags) | (~int(t1.flags) & 0xFFFFFFFF)
        pattern[m] = int(t0.flags)
    t, rc, err = run(f0, mode)
    f1 = t.flags
    f1 = f1 if z3.is_expr(f1) else z3.BitVecVal(int(f1), 32)
    valid = ex.decide(z3.And(mode.e >= 0, mode.e <= 2))
    if valid:
        ex.check(rc == 0 and err is None, "a valid comparison mode is accepted")
        got = it.call("_get_trait_comparison_mode_int", [t, NULL])
        ex.check(symx._z(got) == mode.e if symx.is_proxy(got) else z3.IntVal(int(got)) == mode.e, "a valid comparison mode is the mode readable afterwards")
        keep = z3.BitVecVal(~touched & 0xFFFFFFFF, 32)
        ex.check((f1 & keep) == (f0 & keep), "setting the comparison mode touches no other flag")
        for m in (0, 1, 2):
            if ex.decide(mode.e == m):
                ex.check((f1 & z3.BitVecVal(touched, 32)) == z3.BitVecVal(pattern[m] & touched, 32),
                         "the mode bits written are the mode's own pattern, whatever the word held before")
                break
        return {"outcome": "ok"}
    ex.check(rc == -1 and err is not None and err[0].__name__ in ("ValueError", "OverflowError"), "an invalid comparison mode raises ValueError")
    ex.check(f1 == f0, "an invalid comparison mode is refused and changes nothing")
    return {"outcome": "ValueError"}


def obligations(tier, build):
    cenv.load_program(build)
    obs = []
    K = 2 if tier == "quick" else 3
    import itertools
    modes = [ComparisonMode.none, ComparisonMode.identity, ComparisonMode.equality]
    for mode in modes:
        for raising in (None, "static", "otc", "observe"):
            seqs = list(itertools.product(VALUE_KINDS, repeat=K))
            if tier == "quick":
                # every ordered pair of value kinds, with and without a first read
                seqs = [s for s in seqs]
                if raising is not None:
                    seqs = [s for s in seqs if s[0] in ("int", "float") and s[1] in ("int", "same", "float", "eqraises")]
            for seq in seqs:
                if seq[0] == "same":
                    continue
                for first_read in ((False, True) if raising is None else (False,)):
                    name = "any/%s/%s/%s%s" % (mode.name, "-".join(seq), "raise=%s" % raising, "/read-first" if first_read else "")
                    obs.append(Obligation(name, make_harness("any", mode, seq, raising, first_read), stubs=STUBS,
                                          bounds={"history": list(seq), "comparison mode": mode.name, "raising handler": raising,
                                                  "payloads": "64-bit Int / any Float64"},
                                          leverage="equality of payloads (equal-but-not-identical, NaN)", fast_fp=True,
                                          witness_every=1, max_paths=2000))
        for seq in [("int", "bad"), ("bad", "int"), ("int", "int"), ("int", "same"), ("bad", "bad")][: 5]:
            seq = seq + (("int",) if K == 3 else ())
            obs.append(Obligation("int/%s/%s" % (mode.name, "-".join(seq)), make_harness("int", mode, seq, None, False),
                                  stubs=STUBS, bounds={"history": list(seq), "comparison mode": mode.name},
                                  leverage="equality of payloads", max_paths=2000))
        for seq in [("expr", "expr"), ("expr", "same")]:
            obs.append(Obligation("expression/%s/%s" % (mode.name, "-".join(seq)),
                                  make_harness("expression", mode, seq, None, False), stubs=STUBS,
                                  bounds={"history": list(seq), "comparison mode": mode.name,
                                          "trait": "Expression (stores the original value, validates to a code object)"},
                                  leverage="choice feasibility only (concrete strings)", max_paths=2000))
        # Float trait: an exact float passes validation as the same object, so re-assigning it is no change (NaN included)
        for seq in [("float", "same"), ("float", "float"), ("float", "same", "float")]:
            obs.append(Obligation("float/%s/%s" % (mode.name, "-".join(seq)), make_harness("float", mode, seq, None, False), stubs=STUBS,
                                  bounds={"history": list(seq), "comparison mode": mode.name, "payloads": "any Float64 (NaN, inf, -0.0)"},
                                  leverage="equality of payloads (NaN)", fast_fp=True, max_paths=2000))
        # a quiet update that fails must not leave notifications switched off
        for seq in [("quietbad", "int"), ("int", "quietbad", "int"), ("int", "quietbad", "same")]:
            obs.append(Obligation("int/%s/%s" % (mode.name, "-".join(seq)), make_harness("int", mode, seq, None, False), stubs=STUBS,
                                  bounds={"history": list(seq), "comparison mode": mode.name,
                                          "quiet update": "trait_setq / trait_set(trait_change_notify=False), natively"},
                                  leverage="equality of payloads", max_paths=2000))
        for owner_ in ("any-subdefault", "any-second-use", "any-shared-ctrait", "any-mode-switched"):
            for seq in [("int", "int"), ("int", "same"), ("int", "float"), ("none", "none")]:
                obs.append(Obligation("%s/%s/%s" % (owner_, mode.name, "-".join(seq)), make_harness(owner_, mode, seq, None, False), stubs=STUBS,
                                      bounds={"history": list(seq), "comparison mode": mode.name,
                                              "owner": "definition inherited with a new default (x = 5) / second use of one definition object"},
                                      leverage="equality of payloads", fast_fp=True, max_paths=2000))
        for seq in [("int", "int"), ("int", "same"), ("none", "int")]:
            obs.append(Obligation("any-magic/%s/%s" % (mode.name, "-".join(seq)), make_harness("any-magic", mode, seq, None, False), stubs=STUBS,
                                  bounds={"history": list(seq), "comparison mode": mode.name,
                                          "owner": "subclass inheriting an @observe-decorated method named _x_changed"},
                                  leverage="equality of payloads", max_paths=2000))
        # a failing legacy handler reported by the library's default notification exception handler, unprintable values
        for raising_ in ("otc", "static"):
            for seq in [("int", "reprraises"), ("reprraises", "int")]:
                obs.append(Obligation("any/%s/%s/raise=%s/default-legacy-exception-handler" % (mode.name, "-".join(seq), raising_),
                                      make_harness("any", mode, seq, raising_, False, default_eh="legacy"), stubs=STUBS,
                                      bounds={"history": list(seq), "comparison mode": mode.name, "raising handler": raising_,
                                              "exception handler": "the library's default NotificationExceptionHandler (logging)"},
                                      leverage="choice feasibility only", max_paths=2000))
        # a failing observe handler reported by observe's default exception handler, with values that cannot be printed
        for seq in [("int", "reprraises"), ("reprraises", "int"), ("reprraises", "reprraises")]:
            obs.append(Obligation("any/%s/%s/raise=observe/default-exception-handler" % (mode.name, "-".join(seq)),
                                  make_harness("any", mode, seq, "observe", False, default_eh=True), stubs=STUBS,
                                  bounds={"history": list(seq), "comparison mode": mode.name, "raising handler": "observe",
                                          "exception handler": "observe's default (logging)"},
                                  leverage="choice feasibility only", max_paths=2000))
    KD = 3 if tier == "quick" else 4
    obs.append(Obligation("comparison-mode-setter", mode_setter_harness, stubs=STUBS, kind="csym",
                          bounds={"flag word": "any 32-bit word (bit-vector)", "mode": "unbounded Int (|mode| >= 2**63: OverflowError from PyLong_AsLong)"},
                          leverage="the flag word (BV32) and the mode (Int) through the interpreted setter / getter", max_paths=200))
    obs.append(Obligation("dispatch-mutation", dispatch_mutation_harness, stubs=[],
                          bounds={"routes": ["named on_trait_change", "name-less on_trait_change", "observe"],
                                  "the first handler": ["unregisters itself", "unregisters a later handler", "registers another handler"]},
                          leverage="choice feasibility only (compiled code runs concretely)"))
    obs.append(Obligation("listener-object", listener_object_harness, stubs=[],
                          bounds={"history length": 3, "prefixes": ["(default)", "alt", "alt_", "x"], "methods": "<prefix>_<name>_changed / _fired / anytrait"},
                          leverage="choice feasibility only (compiled code runs concretely)"))
    obs.append(Obligation("deferred-event/k=2", deferred_event_harness(2), stubs=[],
                          bounds={"history length": 2, "operations": ["fire through the deferring attribute", "fire on the target", "rejected value", "same value again"],
                                  "deferral": "DelegatesTo / PrototypedFrom, listenable or not"},
                          leverage="choice feasibility only (compiled code runs concretely)"))
    obs.append(Obligation("deferred/k=%d" % KD, deferred_harness(KD), stubs=[],
                          bounds={"history length": KD, "operations": ["assign via the deferring attribute", "assign on the delegate",
                                                                        "delete the local value", "detach and re-attach the handlers"],
                                  "handlers attached before step": "0..k (symbolic choice)"},
                          leverage="choice feasibility only (compiled code runs concretely)", max_paths=20000))
    for raising in (None, "otc"):
        for seq in [("int", "same"), ("int", "int"), ("none", "none"), ("float", "same")]:
            obs.append(Obligation("event/%s/raise=%s" % ("-".join(seq), raising),
                                  make_harness("event", ComparisonMode.equality, seq, raising, False), stubs=STUBS,
                                  bounds={"history": list(seq), "trait": "Event"}, leverage="choice feasibility only",
                                  max_paths=2000))
    return obs
