"""C04 - container traits never hold an invalid element or an illegal length.

List:  the real TraitListObject / List.validate / List.__init__ run on a real HasTraits owner.  Index, slice
       fields, *= factor and the trait's minlen / maxlen are z3 Int proxies; the items come from a concrete pool
       (valid 1.., convertible True, invalid "x") because they cross into the compiled Int validator.
Dict / Set:  the C06 / C07 harnesses re-run on owner-backed TraitDictObject / TraitSetObject whose inner traits
       are Python-validated trait types, so keys / values / elements stay symbolic while passing through
       CTrait.validate (which only forwards the pointer).
Nested containers: bounded choice harness (two-step histories), concrete items.
"""
import contextlib
import sys

import z3

from vt import symx, envmodels
from vt.symx import SymInt
from vt.envmodels import MSlice, ListModel, OpModel
from vt.oblig import Obligation
import props.c05 as c05
import props.c06 as c06
import props.c07 as c07

import traits.trait_list_object as tlo
import traits.trait_types as tt
from traits.api import HasTraits, List, Dict, Set, Int, Str, TraitType, TraitError

LEVEL = "model_checking"
ENCODED = [("traits/trait_list_object.py",
            ["TraitListObject.__init__", "TraitListObject.notifier", "TraitListObject.__delitem__",
             "TraitListObject.__iadd__", "TraitListObject.__imul__", "TraitListObject.__setitem__",
             "TraitListObject.append", "TraitListObject.clear", "TraitListObject.extend", "TraitListObject.insert",
             "TraitListObject.pop", "TraitListObject.remove", "TraitListObject._item_validator",
             "TraitListObject._validate_length"] + c05.ENCODED[0][1]),
           ("traits/trait_dict_object.py", ["TraitDictObject.__init__", "TraitDictObject._key_validator",
                                            "TraitDictObject._value_validator", "TraitDictObject.notifier"] + c06.ENCODED[0][1]),
           ("traits/trait_set_object.py", ["TraitSetObject.__init__", "TraitSetObject._validator",
                                           "TraitSetObject.notifier"] + c07.ENCODED[0][1][:15]),
           ("traits/trait_types.py", ["List.__init__", "List.validate", "Dict.validate", "Set.validate"])]
EXPLANATION = ("Symbolic execution of the real container-trait code on a real HasTraits owner: integer arguments and the "
               "List length bounds are unbounded z3 Ints; dict keys/values and set elements are z3 Ints validated by "
               "Python-level inner traits; after every operation element validity, the length bounds (as a formula over "
               "minlen/maxlen) and, on failure, unchanged contents and silence of every handler are discharged per path.")
STUBS = c05.STUBS + c06.STUBS + [
    "List.full_info / TraitType.full_info -> constant string during symbolic runs (error-message formatting of symbolic bounds)",
    "trait_types.TraitListObject -> class ATLO(TraitListObject, ListModel) (MRO insertion)"]


from props._owners import ATLO, list_env, PyValidated
import props._owners as owners

dict_factory = owners.dict_factory()
set_factory = owners.set_factory()


def selftest(tier):
    return envmodels.selftest(maxlen=4, span=6)


GOOD = [11, 12, 13, 14]
CONVERTIBLE = True      # Int stores 1 (exact int)
BADITEM = "x"
from traits.api import Undefined as UNDEF


def arg_items(ex, m, tag="it", full=True):
    """m argument items: all valid, or one invalid / one convertible item at a symbolic position
    (full=False: only the last position can be invalid and only the first convertible)"""
    items = [GOOD[j % 4] + 10 for j in range(m)]
    if m and full:
        # 0..m-1: invalid at pos; m..2m-1: convertible at pos; 2m..3m-1: the Undefined singleton at pos (invalid like any
        # other non-int, although plain attribute assignment never validates it); 3m: none
        which = ex.choice(tag + "_special", 3 * m + 1)
        if which < m:
            items[which] = BADITEM
        elif which < 2 * m:
            items[which - m] = CONVERTIBLE
        elif which < 3 * m:
            items[which - 2 * m] = UNDEF
    elif m:
        which = ex.choice(tag + "_special", 4)
        if which == 0:
            items[-1] = BADITEM
        elif which == 1:
            items[0] = CONVERTIBLE
        elif which == 2:
            items[-1] = UNDEF
    return items


def is_bad(x):
    return x is UNDEF or (isinstance(x, str) and x == BADITEM)


LIST_OPS = ["set_int", "del_int", "insert", "pop", "pop_default", "imul", "del_slice", "set_slice", "append", "extend",
            "iadd", "clear", "remove", "assign", "sort", "reverse"]


def list_harness(op, n, m, mask=None):
    keykind = {"set_int": "int", "del_int": "int", "insert": "int", "pop": "int",
               "set_slice": "slice", "del_slice": "slice"}.get(op)

    def harness(ex):
        minlen = ex.int("minlen")
        maxlen = ex.int("maxlen")       # unbounded: includes the sys.maxsize default
        # pre-state: a valid list of length n  (max(0,minlen) <= n <= maxlen)
        ex.assume(minlen <= n)
        ex.assume(maxlen >= n)

        class Owner(HasTraits):
            xs = List(Int, minlen=minlen, maxlen=maxlen)

        o = Owner.__new__(Owner)
        Owner.__init__(o)
        o.xs = [GOOD[i % 4] + 100 * i for i in range(n)]
        log = {"items": [], "xs": [], "observe": []}
        o.on_trait_change(lambda obj, name, old, new: log["items"].append(name), "xs_items")
        o.on_trait_change(lambda obj, name, old, new: log["xs"].append(name), "xs")
        o.observe(lambda event: log["observe"].append(type(event).__name__), "xs.items")
        xs = o.xs
        before = list(xs)
        key = c05.mk_key(ex, keykind, mask) if keykind else None
        k = None
        new = None
        if op == "imul":
            k = ex.int("k")
            if n > 0:
                ex.assume(k <= ListModel.IMUL_MAX)
        elif op in ("set_int", "insert", "append"):
            new = arg_items(ex, 1, "new")[0]
        elif op in ("set_slice", "extend", "iadd", "assign"):
            new = arg_items(ex, m, full=(op != "set_slice"))
        elif op == "remove":
            new = GOOD[0] if ex.flag("present") else 999
        exc = None
        try:
            if op == "assign":
                o.xs = new
            elif op == "sort":
                xs.sort(reverse=ex.flag("reverse"))
            else:
                c05.apply(op, xs, key, new, k, False)
        except (TraitError, IndexError, ValueError, TypeError, AttributeError, LookupError, RuntimeError, NameError, ArithmeticError) as e:
            exc = type(e).__name__
        cur = o.xs
        after = list(cur)
        L = len(after)
        # refinement of list where the trait has no say: the same operation on a built-in list with the converted items
        if op not in ("assign",):
            conv = lambda it_: 1 if it_ is True else it_
            rnew = [conv(i_) for i_ in new] if isinstance(new, list) else conv(new)
            ref = ListModel(before) if ex.sym else list(before)
            exc_r = None
            try:
                if op == "sort":
                    pass
                else:
                    c05.apply(op, ref, key, rnew, k, False)
            except (IndexError, ValueError, TypeError, OverflowError) as e:
                exc_r = type(e).__name__
            if exc != "TraitError" and op != "sort":
                ex.check(exc == exc_r, "where the trait has no objection the operation raises exactly where list raises")
                if exc is None and exc_r is None:
                    ex.check(after == list(ref), "... and leaves what list leaves (converted items)")
        lo = symx._z(minlen) if ex.sym else minlen
        hi = symx._z(maxlen) if ex.sym else maxlen
        ex.check(z3.And(lo <= L, L <= hi) if ex.sym else (minlen <= L <= maxlen), "length within minlen..maxlen")
        ex.check(all(type(x) is int for x in after), "every element is an exact int (inner trait's stored form)")
        ex.check(isinstance(cur, tlo.TraitListObject), "value is still a TraitListObject")
        if exc is not None:
            ex.check(after == before and cur is xs, "failing operation changes nothing")
            ex.check(log == {"items": [], "xs": [], "observe": []}, "failing operation notifies nobody")
        else:
            bad_given = is_bad(new) if not isinstance(new, list) else any(is_bad(x_) for x_ in new)
            if op in ("set_int", "insert", "append", "extend", "iadd", "assign") or \
                    (op == "set_slice"):
                ex.check(not bad_given or not any(is_bad(x_) for x_ in after), "an invalid item never gets stored")
        # a later invalid operation on the resulting value is still rejected (the value stays live)
        exc2 = None
        try:
            o.xs.append(BADITEM)
        except TraitError:
            exc2 = "TraitError"
        ex.check(exc2 == "TraitError" and list(o.xs) == after, "the resulting list still rejects an invalid item")
        return {"exc": exc, "after": after, "log": {k_: len(v) for k_, v in log.items()}}

    return harness


# ---- nested containers: bounded two-step histories over concrete items --------------------------
def nested_harness(kind):
    def harness(ex):
        if kind == "list_of_list":
            class Owner(HasTraits):
                c = List(List(Int, maxlen=2), maxlen=3)
            o = Owner()
            o.c = [[1], [2, 3]]
            inner = lambda: o.c[0]
        else:
            class Owner(HasTraits):
                c = Dict(Str, List(Int, maxlen=2))
            o = Owner()
            o.c = {"a": [1], "b": [2, 3]}
            inner = lambda: o.c["a"]
        log = []
        o.on_trait_change(lambda: log.append("items"), "c_items")
        o.on_trait_change(lambda: log.append("c"), "c")

        def snapshot():
            if kind == "list_of_list":
                return [list(x) for x in o.c]
            return {k: list(v) for k, v in o.c.items()}

        def valid_state(snap):
            inners = snap if isinstance(snap, list) else list(snap.values())
            keys_ok = True if isinstance(snap, list) else all(type(k) is str for k in snap)
            return keys_ok and (len(inners) <= 3 or not isinstance(snap, list)) and all(
                len(i) <= 2 and all(type(x) is int for x in i) for i in inners)

        steps = 2
        for step in range(steps):
            before = snapshot()
            nlog = len(log)
            opn = ex.choice("op%d" % step, 9)
            payload = [[5], [5, "x"], [5, 6, 7], [True], "notalist"][ex.choice("payload%d" % step, 5)]
            exc = None
            try:
                if opn == 0:
                    inner().append(7)
                elif opn == 1:
                    inner().append("x")
                elif opn == 2:
                    inner().extend([8, 9])
                elif opn == 3:
                    inner()[0:1] = [4, "x"]
                elif opn == 4:      # add a new inner container (raw python list -> must become a validating list)
                    if kind == "list_of_list":
                        o.c.append(payload)
                    else:
                        o.c["n"] = payload
                elif opn == 5:
                    if kind == "list_of_list":
                        o.c[0:0] = [payload, [1]]
                    else:
                        o.c.update({"n": payload, "m": [1]})
                elif opn == 6:      # whole-value assignment
                    o.c = [payload] if kind == "list_of_list" else {"z": payload}
                elif opn == 7:      # mutate the most recently added inner container
                    tgt = o.c[-1] if kind == "list_of_list" else list(o.c.values())[-1]
                    tgt.append("x")
                elif opn == 8:
                    tgt = o.c[-1] if kind == "list_of_list" else list(o.c.values())[-1]
                    tgt += [1, 2, 3]
            except (TraitError, IndexError, KeyError, ValueError, TypeError, AttributeError, LookupError, RuntimeError, NameError, ArithmeticError) as e:
                exc = type(e).__name__
            snap = snapshot()
            ex.check(valid_state(snap), "nested container state valid after step")
            if exc is not None:
                ex.check(snap == before, "failing nested operation changes nothing")
                ex.check(len(log) == nlog, "failing nested operation notifies nobody")
        return {"final": repr(snapshot())}

    return harness


# ---- whole-value assignment from every kind of source object ---------------------------------------------------
class Lax(HasTraits):
    """holds containers of anything: a source of live trait containers with items that are invalid elsewhere"""
    l = List()
    d = Dict()
    s = Set()
    ll = List(List())


class Node(HasTraits):
    """named by forward reference in Strict.ln / Strict.sn (resolved on first use)"""


class Strict(HasTraits):
    l = List(Int, maxlen=4)
    d = Dict(Str, Int)
    s = Set(Int)
    ll = List(List(Int, maxlen=2), maxlen=3)
    dl = Dict(Str, List(Int, maxlen=2))
    # container traits as alternatives of Union / Either, the coercing variants, and nested containers of a class named by
    # forward reference (the inner definition switches to its fast validator when the name is first resolved)
    ul = tt.Union(None, List(Int, maxlen=4))
    el = tt.Either(None, List(Int, maxlen=4))
    ud = tt.Union(Int, Dict(Str, Int))
    cl = tt.CList(Int, maxlen=4)
    cs = tt.CSet(Int)
    ln = List(List(tt.Instance("Node")), maxlen=3)
    sn = List(Set(tt.Instance("Node")), maxlen=3)
    # the legacy spelling Trait(<default>, <container trait>), and inner traits given as (falsy) constants
    tl = __import__("traits.api", fromlist=["Trait"]).Trait([1, 2], List(Int, maxlen=4))
    td = __import__("traits.api", fromlist=["Trait"]).Trait({"a": 1}, Dict(Str, Int))
    l0 = List(0)
    d0 = Dict("", 0.0)


_N = [Node(), Node(), Node()]
INITIAL = {"l": lambda: [1, 2], "d": lambda: {"a": 1}, "s": lambda: {1, 2}, "ll": lambda: [[1], [2, 3]],
           "dl": lambda: {"a": [1], "b": [2, 3]},
           "ul": lambda: [1, 2], "el": lambda: [1, 2], "ud": lambda: {"a": 1}, "cl": lambda: [1, 2], "cs": lambda: {1, 2},
           "ln": lambda: [[_N[0]], [_N[1], None]], "sn": lambda: [{_N[0]}, {_N[1], _N[2]}],
           "tl": lambda: [1, 2], "td": lambda: {"a": 1}, "l0": lambda: [1, 2], "d0": lambda: {"a": 1.5}}
LIKE = {"ul": "l", "el": "l", "cl": "l", "ud": "d", "cs": "s", "tl": "l", "td": "d", "l0": "l"}
SOURCES = ["self", "copy", "deepcopy", "pickle", "other-owner", "lax-owner", "inner", "plain"]


def _valid_value(name, v):
    import traits.trait_dict_object as tdo_
    import traits.trait_set_object as tso_
    if name in ("ln", "sn"):
        icls = tlo.TraitListObject if name == "ln" else tso_.TraitSetObject
        return isinstance(v, tlo.TraitListObject) and len(v) <= 3 and all(
            isinstance(i, icls) and all(x is None or isinstance(x, Node) for x in i) for i in v)
    if name == "d0":
        return isinstance(v, tdo_.TraitDictObject) and all(type(k) is str and type(x) is float for k, x in v.items())
    name = LIKE.get(name, name)
    if name == "l":
        return isinstance(v, tlo.TraitListObject) and len(v) <= 4 and all(type(x) is int for x in v)
    if name == "d":
        return isinstance(v, tdo_.TraitDictObject) and all(type(k) is str and type(x) is int for k, x in v.items())
    if name == "s":
        return isinstance(v, tso_.TraitSetObject) and all(type(x) is int for x in v)
    inner_ok = lambda i: isinstance(i, tlo.TraitListObject) and len(i) <= 2 and all(type(x) is int for x in i)
    if name == "ll":
        return isinstance(v, tlo.TraitListObject) and len(v) <= 3 and all(inner_ok(i) for i in v)
    return isinstance(v, tdo_.TraitDictObject) and all(type(k) is str and inner_ok(i) for k, i in v.items())


def _add_invalid(name, c, via_base):
    """put an item that is invalid for Strict.<name> into container c (via_base: through the built-in base class method, i.e.
    behind the back of any validation - only ever done to detached copies)"""
    if name in ("ln", "sn"):
        # a Node where a row (a list / set of Nodes) belongs
        (list.append if via_base else type(c).append)(c, Node())
        return
    if name == "d0":
        (dict.__setitem__ if via_base else type(c).__setitem__)(c, "k", "bad")
        return
    name = LIKE.get(name, name)
    if name in ("l",):
        (list.append if via_base else type(c).append)(c, "bad")
    elif name == "d":
        (dict.__setitem__ if via_base else type(c).__setitem__)(c, "k", "bad")
    elif name == "s":
        (set.add if via_base else type(c).add)(c, "bad")
    elif name == "ll":
        (list.append if via_base else type(c).append)(c, ["bad"])
    else:
        (dict.__setitem__ if via_base else type(c).__setitem__)(c, "k", ["bad"])


def assign_harness(name):
    import copy as _copy
    import pickle as _pickle

    def harness(ex):
        try:
            o = Strict(**{name: INITIAL[name]()})
        except TraitError:
            ex.check(False, "a valid container value is accepted")
            return {"initial": "rejected"}
        log = []
        o.on_trait_change(lambda: log.append("items"), name + "_items")
        src_kind = SOURCES[ex.choice("source", len(SOURCES))]
        cur = getattr(o, name)
        detached = False
        if src_kind == "self":
            src = cur
        elif src_kind == "copy":
            src, detached = _copy.copy(cur), True
        elif src_kind == "deepcopy":
            src, detached = _copy.deepcopy(cur), True
        elif src_kind == "pickle":
            src, detached = _pickle.loads(_pickle.dumps(cur)), True
        elif src_kind == "other-owner":
            src = getattr(Strict(**{name: INITIAL[name]()}), name)
        elif src_kind == "lax-owner":
            if name not in ("l", "d", "s", "ll"):
                return {"skipped": True}
            lax = Lax(**{name: INITIAL[name]()})
            src = getattr(lax, name)
            if ex.flag("lax_holds_invalid"):
                _add_invalid(name, src, False)       # perfectly valid for the lax owner
            ex.note("keep", lax)
        elif src_kind == "inner":
            if name not in ("ll", "dl"):
                return {"skipped": True}
            src = cur[0] if name == "ll" else cur["a"]          # an inner container: same owner, same trait name
        else:
            src = INITIAL[name]()
        smuggled = False
        if detached and ex.flag("smuggle_invalid_into_detached_copy"):
            _add_invalid(name, src, True)
            smuggled = True
        before = repr(cur)
        exc = None
        try:
            setattr(o, name, src)
        except TraitError:
            exc = "TraitError"
        now = getattr(o, name)
        ex.check(_valid_value(name, now), "after a whole-value assignment from any source the trait value is valid "
                                          "(elements, inner containers, length bounds)")
        if exc is not None:
            ex.check(repr(now) == before and now is cur, "a rejected assignment changes nothing")
        if smuggled:
            ex.check(exc == "TraitError", "a container object that holds an invalid item is rejected whatever its class")
        if src_kind in ("other-owner", "lax-owner") and exc is None:
            ex.check(now is not src, "the value of another owner's trait is copied, not shared")
        # the stored value is live: it still validates, at every level
        exc2 = None
        try:
            _add_invalid(name, now, False)
        except TraitError:
            exc2 = "TraitError"
        ex.check(exc2 == "TraitError" and _valid_value(name, getattr(o, name)), "the stored value still rejects an invalid item")
        if name in ("ln", "sn") and len(now):
            inner = now[0]
            exc3 = None
            try:
                (inner.append if name == "ln" else inner.add)("bad")
            except TraitError:
                exc3 = "TraitError"
            except AttributeError:
                return {"source": src_kind, "exc": exc, "smuggled": smuggled}      # not a container: already reported above
            ex.check(exc3 == "TraitError", "... and so do its inner containers")
            ok = None
            try:
                (inner.append if name == "ln" else inner.add)(Node())
            except TraitError:
                ok = "TraitError"
            ex.check(ok is None, "... which still accept a valid item")
            ok2 = None
            try:
                now.append([Node()] if name == "ln" else {Node()}) if len(now) < 3 else None
            except TraitError:
                ok2 = "TraitError"
            ex.check(ok2 is None, "the stored value still accepts a valid row")
        if name in ("ll", "dl") and len(now):
            inner = now[0] if name == "ll" else list(now.values())[0]
            if not isinstance(inner, list):
                return {"source": src_kind, "exc": exc, "smuggled": smuggled}      # already reported above
            exc3 = None
            try:
                inner.append("bad")
            except TraitError:
                exc3 = "TraitError"
            ex.check(exc3 == "TraitError", "... and so do its inner containers")
            exc4 = None
            try:
                inner.extend([7, 8, 9])
            except TraitError:
                exc4 = "TraitError"
            ex.check(exc4 == "TraitError" and len(inner) <= 2, "... whose length bound still holds")
        return {"source": src_kind, "exc": exc, "smuggled": smuggled}

    return harness


def defaults_harness(name):
    """the DEFAULT of a container trait, never assigned: the value a first read hands out is a validating container like any
    assigned one (elements, inner containers, length bounds), on the object that reads it and on the next one"""
    def harness(ex):
        o = Strict()
        if ex.flag("another_object_read_its_default_first"):
            getattr(Strict(), name)
        v = getattr(o, name)
        if not isinstance(v, (list, dict, set)):
            return {"default": "not a container"}       # (Union / Either whose first alternative supplies the default)
        ex.check(_valid_value(name, v), "the default handed out by a first read is a valid, validating container")
        exc = None
        try:
            _add_invalid(name, v, False)
        except TraitError:
            exc = "TraitError"
        except AttributeError:
            exc = "AttributeError"
        ex.check(exc == "TraitError" and _valid_value(name, getattr(o, name)), "the default value rejects an invalid item")
        if name in ("l", "cl", "tl", "l0", "ul", "el") and isinstance(v, list):
            exc2 = None
            try:
                v.extend([1, 2, 3, 4, 5])
            except TraitError:
                exc2 = "TraitError"
            ex.check(exc2 == "TraitError" or name == "l0", "... and keeps the length bound")
        return {"name": name}
    return harness


def obligations(tier, build):
    obs = []
    for name in INITIAL:
        obs.append(Obligation("assign-from/%s" % name, assign_harness(name),
                              bounds={"trait": name, "sources": SOURCES, "items": "concrete",
                                      "smuggled invalid item": "into detached copies only, through the built-in base class"},
                              leverage="choice feasibility only (copy/pickle and the compiled Int validator are C boundaries)"))
    for name in INITIAL:
        obs.append(Obligation("default-of/%s" % name, defaults_harness(name), bounds={"trait": name, "items": "concrete"},
                              leverage="choice feasibility only"))
    falsy_dict = owners.dict_factory(falsy=True)
    for op in ("setitem", "update_pairs", "setdefault", "ior_map"):
        for kvn, vvn in (("reject", "reject"), ("ident", "reject")):
            obs.append(Obligation("dict-falsy-owner/%s/%s-%s" % (op, kvn, vvn), c06.make_harness(op, 1, 1, kvn, vvn, factory=falsy_dict),
                                  env=c06.sym_env, stubs=STUBS, bounds={"owner": "falsy (defines __bool__ / __len__)", "stored entries": 1},
                                  leverage="aliasing and validity of symbolic keys/values", max_paths=50000))
    N = 3 if tier == "quick" else 5
    M = 2 if tier == "quick" else 3
    for n in range(N + 1):
        for op in LIST_OPS:
            ms = range(M + 1) if op in ("set_slice", "extend", "iadd", "assign") else [0]
            for m in ms:
                if op == "set_slice" and tier == "quick" and (n > 2 or m == 1):
                    continue
                if op == "del_slice" and tier == "quick" and n > 3:
                    continue
                for mask in (c05.slice_parts() if "slice" in op else [None]):
                    name = "list/%s/n=%d%s%s" % (op, n, "/m=%d" % m if len(ms) > 1 else "",
                                                 "" if mask is None else "/" + c05.part_name(mask))
                    obs.append(Obligation(
                        name, list_harness(op, n, m, mask), env=list_env, stubs=STUBS,
                        bounds={"list length n": n, "argument items m": m, "index/slice/factor": "unbounded Int or None",
                                "minlen, maxlen": "unbounded Int",
                                "items": "concrete pool: valid ints, True (convertible), 'x' (invalid) at one position"},
                        assumes=["pre-state list valid: minlen <= n <= maxlen (re-established by the length check of every obligation)",
                                 "list *= k: k <= %d for non-empty lists" % ListModel.IMUL_MAX],
                        leverage="integer arguments and the symbolic length bounds", max_paths=80000))
    S = 2 if tier == "quick" else 3
    vcombos = [("reject", "reject"), ("coerce", "coerce"), ("ident", "reject")]
    for s in range(S + 1):
        for op in c06.OPS:
            for kvn, vvn in vcombos:
                multi = "update" in op or "ior" in op
                for m in ((1, 2) if multi else [0]):
                    if op in ("popitem", "clear", "delitem", "pop") and (kvn, vvn) != vcombos[0]:
                        continue
                    if tier == "quick" and multi and m > 1 and (kvn, vvn) != vcombos[0]:
                        continue
                    obs.append(Obligation(
                        "dict/%s/s=%d%s/%s-%s" % (op, s, "/m=%d" % m if multi else "", kvn, vvn),
                        c06.make_harness(op, s, m, kvn, vvn, factory=dict_factory), env=c06.sym_env, stubs=STUBS,
                        bounds={"stored entries s": s, "argument pairs m": m, "keys/values": "unbounded Int",
                                "inner traits": "Python-validated (reject negative / abs)"},
                        assumes=["pre-state keys pairwise distinct and valid"],
                        leverage="aliasing and validity of symbolic keys/values", max_paths=50000))
    shapes = [(1,), (2,), (1, 1)] if tier == "quick" else [(1,), (2,), (3,), (1, 1), (2, 1)]
    for s in range(S + 1):
        for vname in ("reject", "coerce", "typed"):
            for op in c07.OPS1:
                obs.append(Obligation("set/%s/s=%d/%s" % (op, s, vname),
                                      c07.make_harness(op, s, (), (), vname, factory=set_factory), env=c06.sym_env,
                                      stubs=STUBS, bounds={"stored elements s": s, "elements": "unbounded Int"},
                                      leverage="membership / validity of symbolic elements"))
            for op in c07.OPSN:
                for shape in shapes:
                    obs.append(Obligation("set/%s/s=%d/%s/%s" % (op, s, "+".join(map(str, shape)), vname),
                                          c07.make_harness(op, s, shape, ("list",) * len(shape), vname, factory=set_factory),
                                          env=c06.sym_env, stubs=STUBS,
                                          bounds={"stored elements s": s, "argument sizes": list(shape)},
                                          leverage="membership / validity of symbolic elements"))
            for op in c07.OPSI + c07.OPSS:
                for shape in [(1,), (2,)]:
                    for kind in (("set", "frozenset", "list") if op in c07.OPSI else ("list", "set")):
                        obs.append(Obligation("set/%s/s=%d/%d/%s/%s" % (op, s, shape[0], kind, vname),
                                              c07.make_harness(op, s, shape, (kind,), vname, factory=set_factory),
                                              env=c06.sym_env, stubs=STUBS,
                                              bounds={"stored elements s": s, "operand size": shape[0], "operand kind": kind},
                                              leverage="membership / validity of symbolic elements"))
    for kind in ("list_of_list", "dict_of_list"):
        obs.append(Obligation("nested/%s" % kind, nested_harness(kind),
                              bounds={"history length": 2, "operations": 9, "payloads": 5, "items": "concrete"},
                              leverage="choice feasibility only (concrete items; two-step histories enumerated through the explorer)"))
    import props._owners as owners_
    for kind_ in ("list", "dict", "set"):
        obs.append(Obligation("sharing/%s" % kind_, owners_.sharing_harness(kind_),
                              bounds={"ways of handing a value on": owners_.SHARING_HOWS, "declarations": "x and y from ONE shared definition object"},
                              leverage="choice feasibility only", stubs=[]))
    return obs
