"""C18 - memory safety and reference neutrality of the compiled core, decided per function from the real source.

What a solver-based check can decide here (the dynamic reading of the property - arbitrary API programs on a sanitised
build - is NOT claimed):
  tables      for every function designator that any statement of ctraits.c stores into a trait's getattr / setattr /
              post_setattr / validate / delegate_attr_name field, func_index() terminates inside the table it is used with by
              _trait_getstate and table[func_index(f)] == f (this is also the round-trip identity C14 relies on);
  subscripts  every static-table subscript in trait_new, _trait_set_validate, _trait_delegate, _trait_set_property is inside
              the initialiser for all argument values (symbolic ints);
  paths       on every path of the validators (all C03 configurations x value kinds) and of the assignment / first-read paths
              (setattr_trait, getattr_trait, default_value_for, call_notifiers) the interpreter's memory-safety assertions hold
              (NULL dereference, tuple/list index, ob_fval of a non-float, non-type cast to PyTypeObject*, NULL call) and the
              ghost reference counts are neutral: the returned reference is owned exactly once, nothing else changes.
"""
NEED_AST = True

import json
import os
import subprocess
import sys

import z3

from vt import symx, csym, capi, cenv, pymodel
from vt.csym import NULL, FnPtr, StaticArray, MemSafety, Struct, Uninit
from vt.oblig import Obligation
import props.c03 as c03

from traits.api import HasTraits, Int, Float, Str, List, Dict, Set, Instance, Property, Any, TraitError

LEVEL = "model_checking"
ENCODED = [("traits/ctraits.c", ["func_index", "_trait_getstate", "trait_new", "_trait_set_validate", "_trait_delegate",
                                 "_trait_set_property", "setattr_trait", "getattr_trait", "default_value_for", "call_notifiers"]
            + c03.ENCODED[0][1])]
EXPLANATION = ("Per-function symbolic interpretation of ctraits.c (clang AST of the current source) with memory-safety assertions "
               "and ghost reference counts checked on every path; table obligations are generated from the assignments found in "
               "the AST, so a handler stored by new code without a table entry is seen.")
STUBS = c03.STUBS
ASSUMPTIONS = ["allocation failure out of scope", "attribute names are exact str", "callbacks into Python do not release "
               "references the C function does not own (checked separately nowhere: stated)"]

FIELDS = {"getattr": "getattr_handlers", "setattr": "setattr_handlers", "post_setattr": "setattr_property_handlers",
          "validate": "validate_handlers", "delegate_attr_name": "delegate_attr_name_handlers"}


def strip(n):
    while n.get("kind") in ("ImplicitCastExpr", "CStyleCastExpr", "ParenExpr"):
        n = n["inner"][0]
    return n


def stored_designators(program):
    """{field: {function name | None: [where stored]}} from every `x->field = ...` in the translation unit"""
    out = {f: {} for f in FIELDS}
    it = cenv.new_interp()

    def rhs_values(n):
        n = strip(n)
        k = n.get("kind")
        if k == "DeclRefExpr" and n["referencedDecl"]["kind"] == "FunctionDecl":
            return [n["referencedDecl"]["name"]]
        if k == "ArraySubscriptExpr":
            base = strip(n["inner"][0])
            if base.get("kind") == "DeclRefExpr":
                arr = it.global_value(base["referencedDecl"]["name"])
                if isinstance(arr, StaticArray):
                    return ["<table-subscript>"]     # resolved semantically (feasible indices only), see below
        if k == "IntegerLiteral" and n.get("value") == "0":
            return [None]
        if k == "MemberExpr":
            return []        # copy of another trait's field (trait_clone): nothing new
        if k == "ConditionalOperator":
            return rhs_values(n["inner"][1]) + rhs_values(n["inner"][2])
        return ["<unresolved:%s>" % k]

    def walk(n, fname):
        if isinstance(n, dict):
            if n.get("kind") == "BinaryOperator" and n.get("opcode") == "=":
                lhs = strip(n["inner"][0])
                if lhs.get("kind") == "MemberExpr" and lhs.get("name") in FIELDS:
                    for v in rhs_values(n["inner"][1]):
                        out[lhs["name"]].setdefault(v, []).append(fname)
            for c in n.get("inner", []):
                walk(c, fname)
    for name, fn in program.functions.items():
        walk(fn, name)
    # stores through a table subscript: explore the storing function symbolically and collect what it can store
    for f in FIELDS:
        storers = out[f].pop("<table-subscript>", [])
        for fname in sorted(set(storers)):
            if fname == "_trait_setstate":
                continue         # restores what __getstate__ produced: covered by the round trip itself
            if fname not in SUBSCRIPT_FUNCS:
                out[f].setdefault("<unresolved:table subscript in %s>" % fname, []).append(fname)
                continue
            for v in collect_stores(fname, f):
                out[f].setdefault(v, []).append(fname)
        out[f].setdefault(None, []).append("<calloc: fields start as NULL>")
    return out


SUBSCRIPT_FUNCS = ("trait_new", "_trait_set_validate", "_trait_delegate", "_trait_set_property")
_STORE_CACHE = {}


def collect_stores(fname, field):
    """every value the function can leave in trait-><field>, over all feasible paths (symbolic integer arguments)"""
    if fname not in _STORE_CACHE:
        seen = {f: set() for f in FIELDS}
        h = subscript_harness(fname, record=seen)
        ex = symx.Explorer("collect/" + fname, max_paths=20000)
        ex.run(h)
        _STORE_CACHE[fname] = seen
    return sorted(_STORE_CACHE[fname][field], key=str)


REPLAY_SNIPPETS = {
    ("setattr", "setattr_validate_property"):
        "from traits.api import HasTraits, Property, Int\n"
        "class A(HasTraits):\n    p = Property(Int)\n    def _get_p(self): return 1\n    def _set_p(self, v): pass\n"
        "import pickle\nt = A().trait('p')\ns = t.__getstate__()\nt2 = pickle.loads(pickle.dumps(t))\n"
        "assert t2.__getstate__()[:3] == s[:3]\n",
}


def table_harness(field, fname):
    def harness(ex):
        it = cenv.new_interp()
        table = it.global_value(FIELDS[field])
        f = NULL if fname is None else FnPtr(fname)
        try:
            i = it.call("func_index", [f, table])
            ok = isinstance(i, int) and 0 <= i < len(table.items) and csym.Interp.same_pointer(table.items[i], f)
            detail = "index %r" % (i,)
        except MemSafety as e:
            ok, detail = False, str(e)
        ex.check(ok, "func_index(%s) stays inside %s and finds the function" % (fname, FIELDS[field]))
        return {"field": field, "function": fname, "detail": detail}

    def replay(values, label):
        snip = REPLAY_SNIPPETS.get((field, fname))
        if snip is None:
            return False, [], "no concrete trait known that stores %s into %s: cannot replay (inconclusive)" % (fname, field)
        r = subprocess.run([sys.executable, "-c", snip], stdout=subprocess.PIPE, stderr=subprocess.STDOUT, timeout=120)
        crashed = r.returncode != 0
        return crashed, [label] if crashed else [], "real build: exit code %d: %s" % (r.returncode, r.stdout.decode(errors="replace")[-300:])

    return harness, replay


class LazyTuple(list):
    """an exact tuple whose length and items are symbolic choices made only when the C code looks at them"""
    _vt_pytype = tuple

    def __init__(self, ex, first, maxlen, pool):
        list.__init__(self)
        self._ex, self._first, self._max, self._pool = ex, first, maxlen, pool
        self._n = None
        self._items = {}

    def __len__(self):
        if self._n is None:
            self._n = self._ex.choice("n", self._max) + 1
        return self._n

    def __getitem__(self, i):
        if i == 0:
            return self._first
        if i not in self._items:
            self._items[i] = self._pool[self._ex.choice("item%d" % i, len(self._pool))]
        return self._items[i]


def subscript_harness(which, record=None):
    """table subscripts under symbolic integer arguments"""
    def harness(ex):
        it = cenv.new_interp()
        trait = cenv.new_trait(handler=NULL)
        made = [trait]
        r = None
        try:
            if which == "trait_new":
                kind = ex.int("kind")
                trait2 = None

                def generic_new(interp, tp, args, kw):
                    made.append(cenv.new_trait(handler=NULL))
                    return made[-1]
                it.api["PyType_GenericNew"] = generic_new
                from traits.ctrait import CTrait
                r = it.call("trait_new", [CTrait, (kind,), NULL])
            elif which == "_trait_set_validate":
                kind = ex.int("kind")
                pool = [None, int, 2.5, 3, (), {}, (lambda *a: None), True]
                desc = LazyTuple(ex, kind, 5, pool)
                r = it.call("_trait_set_validate", [trait, (desc,)])
            elif which == "_trait_delegate":
                r = it.call("_trait_delegate", [trait, ("a", "b", ex.int("prefix_type"), ex.flag("modify"))])
            elif which == "_trait_set_property":
                f = lambda *a: None
                r = it.call("_trait_set_property", [trait, (f, ex.int("get_n"), f, ex.int("set_n"),
                                                           (f if ex.flag("validated") else None), ex.int("validate_n"))])
            ok, detail = True, "returned %s" % ("NULL" if r is NULL else "a value")
            if record is not None and r is not NULL:
                for t_ in made:
                    for f_ in FIELDS:
                        v_ = getattr(t_, f_)
                        record[f_].add(v_.name if isinstance(v_, FnPtr) else None)
        except MemSafety as e:
            ok, detail = False, str(e)
        if record is not None:
            return {}
        ex.check(ok, "static table subscripts of %s are inside the initialiser for every argument value" % which)
        return {"function": which, "ok": ok}
    return harness


def neutral(it, result, label_obj=None, new_structs=()):
    """ghost reference counts at exit: +1 exactly for the returned object (if any), +1 per pointer field of a trait record
    created during the call (the new object legitimately owns what its fields point to), 0 for everything else"""
    bad = []
    if getattr(it.st, "rec_depth", 0) != 0:
        bad.append("Py_EnterRecursiveCall / Py_LeaveRecursiveCall unbalanced: depth %+d at exit" % it.st.rec_depth)
    held = {}
    for st_ in new_structs:
        for f_, v_ in st_.f.items():
            if f_ in ("pyobj", "pytype") or v_ is NULL or v_ is None or isinstance(v_, (int, FnPtr)) and not isinstance(v_, bool):
                continue
            held[id(v_)] = held.get(id(v_), 0) + 1
    for oid, (o, d) in it.st.rc.items():
        want = (1 if (result is not NULL and o is result) else 0) + held.get(oid, 0)
        if d != want:
            bad.append("%s: delta %+d (expected %+d)" % (type(o).__name__ if not symx.is_proxy(o) else repr(o), d, want))
    # an object handed back without ANY reference operation on it is a borrowed reference given away as a new one
    # (the immortal singletons keep no count under this build's headers and are left out, like everywhere in the balance)
    if result is not NULL and id(result) not in it.st.rc and not _immortal(result):
        bad.append("%s returned without a new reference (no Py_INCREF on the path)" % (type(result).__name__ if not symx.is_proxy(result) else repr(result)))
    return bad


def _immortal(o):
    if o is None or o is True or o is False or o is NotImplemented or o is Ellipsis:
        return True
    if symx.is_proxy(o) and getattr(o, "pytype", None) is bool:
        return True
    return False


class _Shape(__import__("traits.api", fromlist=["TraitHandler"]).TraitHandler):
    """a hand-written handler that only supplies a fast-validation descriptor (the documented extension point): descriptor
    shapes the library's own trait types no longer produce, so that every loop of the compiled validators stays exercised"""

    def __init__(self, fv):
        self.fast_validate = fv


SHAPES = {
    "Shape:coerce-middle": (lambda ex: _Shape((11, float, int, None, str)), ["none", "bool", "int64", "intsub64", "inthuge", "float", "floatsub", "str", "object"]),
    "Shape:coerce-middle-only": (lambda ex: _Shape((11, complex, float, int)), ["none", "bool", "int64", "inthuge", "float", "floatsub", "complex", "str"]),
    "Shape:coerce-none-first": (lambda ex: _Shape((11, str, None, bytes, int)), ["none", "int", "str", "strsub", "bytes"]),
}


def validator_harness(cfgname, kind):
    mk = (c03.CONFIGS.get(cfgname) or SHAPES[cfgname])[0]

    def harness(ex):
        ttype = mk(ex)
        handler = ttype
        if isinstance(handler, _Shape):
            ttype = None
        from traits.api import Either
        if isinstance(ttype, Either):
            handler = ttype.as_ctrait().handler
        c03.patch_tuple_members(handler)
        obj = c03.Owner()
        value = c03.mk_value(ex, kind)
        it = cenv.new_interp()
        trait = c03.setup_trait(it, handler, ttype)
        it.st.rc.clear()
        o = cenv.new_hasTraits(obj)
        problem = None
        r = NULL
        try:
            with cenv.python_side_env():
                r = it.call(trait.validate, [trait, o, "x", value])
            if r is NULL and it.st.err is None:
                problem = "NULL returned without an exception set"
            if r is not NULL and it.st.err is not None:
                problem = "value returned with an exception set"
        except MemSafety as e:
            problem = str(e)
        ex.check(problem is None, "validator path is memory-safe and follows the NULL/exception convention")
        if problem is None:
            bad = neutral(it, r)
            ex.check(not bad, "validator is reference-neutral (returned reference owned once, nothing else changed)")
        return {"ok": problem is None}
    return harness


class _PostFail(__import__("traits.api", fromlist=["TraitType"]).TraitType):
    """a trait whose post_setattr hook raises: also while the default is being materialised on the first read"""
    default_value = ("fresh", "default")

    def get_default_value(self):
        from traits.api import DefaultValue
        return (DefaultValue.callable_and_args, (lambda: ["a fresh default"], (), {}))

    def post_setattr(self, object, name, value):
        raise RuntimeError("post_setattr raises")


class _Probe(HasTraits):
    pf = _PostFail()
    a = Int(3)
    f = Float()
    l = List(Int)
    d = Dict(Str, Int)
    s = Set(Int)
    i = Instance(c03.A, ())
    n = Any()
    bad = Int()                                      # dynamic default that fails validation
    e = __import__("traits.api", fromlist=["Expression"]).Expression()      # stores the ORIGINAL value; default fails validation
    e_ok = __import__("traits.api", fromlist=["Expression"]).Expression()   # ... and one that passes

    def _n_default(self):
        return [1, 2]

    def _bad_default(self):
        return "not an int %d" % id(self)            # a fresh object every time

    def _e_default(self):
        return "1 + (%d" % id(self)

    def _e_ok_default(self):
        return "1 + %d" % id(self)

    def _a_changed(self, old, new):
        pass


def access_harness(which):
    """first read (getattr_trait + default_value_for for each default kind) and assignment (setattr_trait) on a real object"""
    def harness(ex):
        o = _Probe()
        names = ["a", "f", "l", "d", "s", "i", "n"] + (["bad", "e", "e_ok", "pf"] if which == "read" else ["pf"])
        name = names[ex.choice("attr", len(names))]
        it = cenv.new_interp()
        os_ = cenv.hastraits_struct(it, o)
        ct = o.trait(name)
        t = cenv.trait_struct_from_ctrait(it, ct)
        it.st.rc.clear()
        problem = None
        r = NULL
        try:
            with cenv.python_side_env():
                if which == "read":
                    r = it.call(t.getattr, [ct, os_, name])
                    if r is NULL and it.st.err is None:
                        problem = "NULL returned without an exception set"
                else:
                    val = {"a": 5, "f": 2.5, "l": [1], "d": {"k": 1}, "s": {1}, "i": c03.A(), "n": "v", "pf": ["assigned"]}[name]
                    if ex.flag("invalid"):
                        val = object() if name != "n" else val
                    rc = it.call(t.setattr, [ct, ct, os_, name, val])
                    r = None
                    if rc != 0 and it.st.err is None:
                        problem = "-1 returned without an exception set"
        except MemSafety as e:
            problem = str(e)
        ex.check(problem is None, "%s path is memory-safe" % which)
        if problem is None:
            bad = neutral(it, r if which == "read" else NULL)
            ex.check(not bad, "%s path is reference-neutral" % which)
        return {"ok": problem is None, "attr": name}
    return harness


class _Props(HasTraits):
    """properties with getter/setter/validator of every arity the C core distinguishes (0-3 arguments)"""
    backing = Any(7)
    p0 = Property()
    p1 = Property()
    p2 = Property()
    p3 = Property()
    pv = Property(Int)            # validated: setattr_validate_property + setattr_validate<n> + setattr_property<n>
    ro = Property()               # no setter

    def _get_p1(self):
        return self.backing

    def _set_p1(self, value):
        self.backing = value

    def _get_p2(self, name):
        return (name, self.backing)

    def _set_p2(self, name, value):
        self.backing = value

    def _get_pv(self):
        return self.backing

    def _set_pv(self, value):
        if value == 13:
            raise RuntimeError("setter failed")
        self.backing = value

    def _get_ro(self):
        return 1


def _p0_get():
    return 0


def _p0_set():
    return None


def _p3_get(obj, name, trait):
    return name


def _p3_set(obj, name, value):
    obj.__dict__["_p3"] = value


from traits.api import Trait as _Trait
from traits.ctrait import CTrait as _CTrait


def _mk_raw_property(get, get_n, set_, set_n):
    """a property CTrait with the given getter/setter arities, built through the documented CTrait.property_fields setter"""
    t = _CTrait(4)
    t.property_fields = (get, set_, None)
    return t


def property_harness(ex):
    o = _Props()
    # arities 0 and 3 are not produced by the Property() factory for methods; build them through CTrait.property_fields
    o.add_trait("p0", _mk_raw_property(_p0_get, 0, _p0_set, 0))
    o.add_trait("p3", _mk_raw_property(_p3_get, 3, _p3_set, 3))
    name = ["p0", "p1", "p2", "p3", "pv", "ro"][ex.choice("prop", 6)]
    op = ["read", "write", "delete", "write_invalid", "write_setter_fails"][ex.choice("op", 5)]
    it = cenv.new_interp()
    os_ = cenv.hastraits_struct(it, o)
    it.st.rc.clear()
    problem = None
    r = NULL
    try:
        with cenv.python_side_env():
            if op == "read":
                r = it.call("has_traits_getattro", [os_, name])
                if r is NULL and it.st.err is None:
                    problem = "NULL without an exception"
            else:
                val = {"write": 5, "delete": NULL, "write_invalid": "not-an-int", "write_setter_fails": 13}[op]
                rc = it.call("has_traits_setattro", [os_, name, val])
                if rc != 0 and it.st.err is None:
                    problem = "-1 without an exception"
                r = NULL
    except MemSafety as e:
        problem = str(e)
    ex.check(problem is None, "property get / set / delete paths are memory-safe and follow the error convention")
    if problem is None:
        bad = neutral(it, r)
        ex.check(not bad, "property get / set / delete paths are reference-neutral")
    return {"prop": name, "op": op}


class _Tgt(HasTraits):
    x = Int(1)


class _Cyc(HasTraits):
    other = Instance(HasTraits)
    v = __import__("traits.api", fromlist=["DelegatesTo"]).DelegatesTo("other")


class _Del(HasTraits):
    t = Instance(_Tgt)
    x = __import__("traits.api", fromlist=["DelegatesTo"]).DelegatesTo("t")
    broken = __import__("traits.api", fromlist=["DelegatesTo"]).DelegatesTo("nothing_here", listenable=False)
    plain = Int(3)
    prop = Property(Int, observe="plain")

    def _get_prop(self):
        return self.plain


def trait_lookup_harness(ex):
    """_has_traits_trait (what HasTraits._trait / trait() / base_trait() call) for every `instance` mode, incl. delegate
    resolution with a missing / None / non-HasTraits delegate; and trait_property_changed"""
    o = _Del()
    state = ex.choice("delegate", 4)       # 0: a proper delegate, 1: None, 2: a delegate that lacks the attribute, 3: a cycle
    if state == 0:
        o.t = _Tgt()
    name = ["x", "broken", "plain", "undeclared"][ex.choice("name", 4)]
    which = ex.choice("function", 2)
    if state == 3:
        if which != 0:
            return {"name": "skip"}
        o, b = _Cyc(), _Cyc()
        # following 'v' never ends: the look-up gives up after 100 levels.  (Stored behind the back of the compiled
        # code, so that the first look-up through the cycle is the interpreted one.)
        o.__dict__["other"], b.__dict__["other"] = b, o
        name = "v"
    raising = which == 1 and ex.flag("handler_raises")
    if raising:
        from traits.api import push_exception_handler
        push_exception_handler(lambda *a: None, reraise_exceptions=True)
    try:
        return _trait_lookup_body(ex, o, name, which, raising)
    finally:
        if raising:
            from traits.api import pop_exception_handler
            pop_exception_handler()


def _raiser():
    raise RuntimeError("handler failed")


def _trait_lookup_body(ex, o, name, which, raising):
    it = cenv.new_interp()
    os_ = cenv.hastraits_struct(it, o)
    it.st.rc.clear()
    pre_traits = set()
    for dct in (o._class_traits(), o._instance_traits()):
        pre_traits.update(id(v) for v in dct.values())
    problem = None
    r = NULL
    try:
        with cenv.python_side_env():
            if which == 0:
                inst = ex.int("instance", -3, 3)
                r = it.call("_has_traits_trait", [os_, (name, inst)])
                if r is NULL and it.st.err is None:
                    problem = "NULL without an exception"
            else:
                o.on_trait_change(_raiser if raising else (lambda: None), "prop")
                os_ = cenv.hastraits_struct(it, o)
                it.st.rc.clear()
                rc = it.call("trait_property_changed", [os_, "prop" if name != "undeclared" else "undeclared", 1,
                                                        NULL if ex.flag("new_value_null") else 2])
                if rc != 0 and it.st.err is None:
                    problem = "-1 without an exception"
    except MemSafety as e:
        problem = str(e)
    ex.check(problem is None, "trait look-up / property-changed paths are memory-safe")
    if problem is None:
        # an instance trait cloned by get_trait(instance=2) legitimately owns what its fields point to
        import traits.ctraits as _ctm
        fresh = [s_ for (obj_, s_) in it.__dict__.get("_trait_cache", {}).values()
                 if isinstance(obj_, _ctm.cTrait) and id(obj_) not in pre_traits]
        bad = [b for b in neutral(it, r, new_structs=fresh)]
        ex.check(not bad, "trait look-up / property-changed paths are reference-neutral on success and on every error exit")
    return {"name": name}


def delegate_access_harness(ex):
    """reads, writes and deletes THROUGH deferring traits (getattr_delegate / setattr_delegate) under ghost counts: a proper
    delegate, None, a delegate lacking the attribute, a prototype with a local value, and a delegation cycle (the walk gives up
    after 100 levels) - success and every error exit reference-neutral"""
    from traits.api import DelegatesTo, PrototypedFrom
    state = ex.choice("delegate", 4)       # 0: proper, 1: None, 2: lacks the attribute, 3: cycle
    op = ex.choice("op", 4)                # 0 read, 1 write valid, 2 write invalid, 3 delete
    if state == 3:
        o, b = _Cyc(), _Cyc()
        o.__dict__["other"], b.__dict__["other"] = b, o
        name = "v"
    else:
        class Tgt(HasTraits):
            x = Int(1)
            pre_y = Int(2)
            w = Int(3)

        class Other(HasTraits):
            pass

        class D(HasTraits):
            t = Instance(HasTraits)
            x = DelegatesTo("t")
            y = PrototypedFrom("t", prefix="pre_*")
            z = DelegatesTo("t", prefix="x")
            w = DelegatesTo("t", prefix="*")         # class-prefix style on a class that declares no __prefix__

        o = D()
        if state == 0:
            o.__dict__["t"] = Tgt()
        elif state == 2:
            o.__dict__["t"] = Other()
        name = ["x", "y", "z", "w"][ex.choice("name", 4)]
    it = cenv.new_interp()
    os_ = cenv.hastraits_struct(it, o)
    it.st.rc.clear()
    problem = None
    r = NULL
    try:
        with cenv.python_side_env():
            if op == 0:
                r = it.call("has_traits_getattro", [os_, name])
                if r is NULL and it.st.err is None:
                    problem = "NULL without an exception"
            else:
                val = {1: 7, 2: "not an int", 3: NULL}[op]
                rc = it.call("has_traits_setattro", [os_, name, val])
                if rc != 0 and it.st.err is None:
                    problem = "-1 without an exception"
    except MemSafety as e:
        problem = str(e)
    ex.check(problem is None, "access through deferring traits is memory-safe")
    if problem is None:
        bad = neutral(it, r)
        ex.check(not bad, "access through deferring traits is reference-neutral on success and on every error exit")
    return {"state": state, "op": op}


# ---- method-table sweep: every function a Python caller can reach through the type's method / getset / module tables ------
def _find(n, kind, acc):
    if isinstance(n, dict):
        if n.get("kind") == kind:
            acc.append(n)
        for c in n.get("inner", []):
            _find(c, kind, acc)
    return acc


def method_tables(program):
    """[(table, python name, C function, METH flags | 'getter' | 'setter')] read from the initialisers of the current source"""
    out = []
    for table in ("trait_methods", "has_traits_methods", "ctraits_methods"):
        d = program.global_decls.get(table)
        if d is None:
            continue
        for e in d["inner"][0].get("inner", []):
            strs = [x.get("value", "").strip('"') for x in _find(e, "StringLiteral", [])]
            fns = [x["referencedDecl"]["name"] for x in _find(e, "DeclRefExpr", []) if x["referencedDecl"]["kind"] == "FunctionDecl"]
            ints = [int(x.get("value"), 0) for x in _find(e, "IntegerLiteral", [])]
            if strs and fns:
                out.append((table, strs[0], fns[0], ints[0] if ints else 1))
    for table in ("trait_properties", "has_traits_properties"):
        d = program.global_decls.get(table)
        if d is None:
            continue
        for e in d["inner"][0].get("inner", []):
            strs = [x.get("value", "").strip('"') for x in _find(e, "StringLiteral", [])]
            fns = [x["referencedDecl"]["name"] for x in _find(e, "DeclRefExpr", []) if x["referencedDecl"]["kind"] == "FunctionDecl"]
            for i, f in enumerate(fns[:2]):
                out.append((table, strs[0] if strs else "?", f, "getter" if i == 0 else "setter"))
    return out


class _Sweep(HasTraits):
    a = Int(3)
    l = List(Int)
    p = Property(Int)
    n = Any()

    def _get_p(self):
        return 1

    def _set_p(self, v):
        pass

    def _a_changed(self, new):
        pass


class LazyArgs(list):
    """an exact argument tuple whose length and items are choices made only when the C code looks at them (so a call that is
    refused on its arity never enumerates the values)"""
    _vt_pytype = tuple

    def __init__(self, ex, maxlen):
        list.__init__(self)
        self._ex, self._max = ex, maxlen
        self._n = None
        self._items = {}

    def __len__(self):
        if self._n is None:
            self._n = self._ex.choice("nargs", self._max + 1)
        return self._n

    def __getitem__(self, i):
        if isinstance(i, slice):
            return tuple(self[j] for j in range(*i.indices(len(self))))
        if i < 0:
            i += len(self)
        if not (0 <= i < len(self)):
            raise IndexError(i)
        if i not in self._items:
            self._items[i] = _sweep_value(self._ex, "a%d" % i)
        return self._items[i]

    def __iter__(self):
        return iter([self[j] for j in range(len(self))])


def _sweep_value(ex, tag):
    """one argument value from a pool that mixes the types the functions expect with ones they must refuse"""
    k = ex.choice(tag, 10)
    if k == 0:
        return ex.int(tag + ".i")            # any integer: table indices, modes, flags
    return [None, None, "name", True, 2.5, (1, 2), [], {"k": 1}, c03.A(), (lambda *a: None)][k]


def _same_field(a, b):
    if a is b:
        return True
    if isinstance(a, int) and isinstance(b, int) and not isinstance(a, bool) and not isinstance(b, bool):
        return a == b
    if isinstance(a, FnPtr) and isinstance(b, FnPtr):
        return a == b or getattr(a, "name", None) == getattr(b, "name", 1)
    return False


def sweep_harness(table, pyname, cname, flags):
    def harness(ex):
        o = _Sweep()
        o.on_trait_change(lambda: None, "a")
        it = cenv.new_interp()
        if table.startswith("trait"):
            tname = ["a", "l", "p", "n"][ex.choice("trait", 4)]
            ct = o._trait(tname, 2)
            recv = cenv.trait_struct_from_ctrait(it, ct)
        elif table.startswith("has_traits"):
            recv = cenv.hastraits_struct(it, o)
        else:
            recv = NULL                        # module-level function: `self` is the module, never touched
        if flags == "getter":
            args = [recv, NULL]
        elif flags == "setter":
            args = [recv, NULL if ex.flag("delete") else _sweep_value(ex, "v"), NULL]
        elif flags & 4:                        # METH_NOARGS
            args = [recv, NULL]
        elif flags & 8:                        # METH_O
            args = [recv, _sweep_value(ex, "v")]
        else:                                  # METH_VARARGS
            args = [recv, LazyArgs(ex, 4)]
        before = {}
        if isinstance(recv, Struct):
            before = {f_: v_ for f_, v_ in recv.f.items()}
        globals_before = dict(it.globals)
        it.st.rc.clear()
        problem = None
        r = NULL
        try:
            with cenv.python_side_env():
                r = it.call(cname, args)
        except MemSafety as e:
            problem = str(e)
        ok_conv = True
        if problem is None:
            if flags == "setter":
                if not isinstance(r, int) or (r != 0 and it.st.err is None) or (r == 0 and it.st.err is not None):
                    problem = "setter returned %r with error indicator %r" % (r, it.st.err)
            else:
                if r is NULL and it.st.err is None:
                    problem = "NULL returned without an exception set"
                if r is not NULL and it.st.err is not None:
                    problem = "value returned with an exception set"
        ex.check(problem is None, "every function reachable through the method / getset / module tables is memory-safe and follows the "
                                  "NULL / -1 <=> exception convention, for arguments of any type and arity")
        if problem is None and it.st.err is not None and isinstance(recv, Struct):
            changed = sorted(f_ for f_ in set(before) | set(recv.f) if f_ not in ("pyobj", "pytype")
                             and not _same_field(before.get(f_, NULL), recv.f.get(f_, NULL)))
            ex.check(not changed, "a call that raises leaves the receiver's record as it was (a half-applied definition is read by later "
                                  "accesses without the checks its setter makes)")
        if problem is None:
            # what the receiver's record now points to is legitimately held (+1), what it no longer points to was released (-1)
            held = {}
            overwritten = set()      # what a field / global pointed to before the call overwrote it
            if isinstance(recv, Struct):
                for f_, v_ in recv.f.items():
                    old = before.get(f_, NULL)
                    if v_ is old or f_ in ("pyobj", "pytype", "flags", "default_value_type"):
                        continue
                    for val, d in ((v_, +1), (old, -1)):
                        if val is NULL or isinstance(val, FnPtr) or val is Uninit:
                            continue
                        held[id(val)] = held.get(id(val), 0) + d
                        if d < 0:
                            overwritten.add(id(val))
            # ... and so is what the module's global variables now point to (the registration functions)
            for g_, v_ in it.globals.items():
                old = globals_before.get(g_, NULL)
                if v_ is old:
                    continue
                for val, d in ((v_, +1), (old, -1)):
                    if val is NULL or val is Uninit or isinstance(val, (FnPtr, StaticArray, Struct)):
                        continue
                    held[id(val)] = held.get(id(val), 0) + d
                    if d < 0:
                        overwritten.add(id(val))
            bad = []
            immortal = (None, True, False, NotImplemented, Ellipsis)       # immortal under this build's headers (Py_RETURN_NONE is a plain return)
            for oid, (obj_, d) in it.st.rc.items():
                if any(obj_ is im for im in immortal):
                    continue
                want = (1 if (flags != "setter" and r is not NULL and obj_ is r) else 0) + held.get(oid, 0)
                # the one-shot initialisers (delegate(), _set_property(), clone(), the module's registration hooks) do not
                # release what they overwrite when called again: a leak only under re-initialisation, which the documented
                # API never does - tolerated (and stated); an unbalanced RELEASE is never tolerated
                if d != want and not (oid in overwritten and d == want + 1):
                    bad.append("%s: delta %+d (expected %+d)" % (type(obj_).__name__ if not symx.is_proxy(obj_) else repr(obj_), d, want))
            for oid, d in held.items():
                if oid not in it.st.rc and d != 0 and not any(id(im) == oid for im in immortal) and not (d == -1 and oid in overwritten):
                    bad.append("an object the record %s was never %s" % ("now holds" if d > 0 else "released", "acquired" if d > 0 else "released"))
            ex.note("neutrality", bad[:4])
            if bad and os.environ.get("VT_DEBUG_NEUTRAL"):
                sys.stderr.write("NEUTRAL %s %s: %r\n" % (cname, dict(ex.values) if hasattr(ex, "values") else "", bad[:4]))
            ex.check(not bad, "... and reference-neutral apart from what the receiver's record legitimately acquires or releases")
        if problem is None and flags == "setter" and r == 0 and args[1] is not NULL and isinstance(recv, Struct):
            # the same value assigned AGAIN (the field already holds it): nothing is acquired, nothing released
            snap = {f_: v_ for f_, v_ in recv.f.items()}
            it.st.rc.clear()
            problem2 = None
            try:
                with cenv.python_side_env():
                    r2 = it.call(cname, args)
            except MemSafety as e:
                problem2, r2 = str(e), -1
            same = all(_same_field(snap.get(f_, NULL), recv.f.get(f_, NULL)) for f_ in set(snap) | set(recv.f) if f_ not in ("pyobj", "pytype"))
            immortal2 = (None, True, False, NotImplemented, Ellipsis)
            drift = [(type(o_).__name__, d_) for o_, d_ in it.st.rc.values() if d_ != 0 and not any(o_ is im for im in immortal2)]
            ex.check(problem2 is None and r2 == 0 and same and not drift,
                     "assigning a setter the value its field already holds changes nothing and is reference-neutral")
        return {"fn": cname}
    return harness


# ---- garbage-collector support: traverse visits, and clear releases, exactly the object references a record owns ----------
def _owned_fields(record):
    """the PyObject-pointer fields of a record, from the struct declaration in the current source (function pointers, integers
    and the object header excluded)"""
    types = cenv.PROGRAM.record_types.get(record, {})
    return [f_ for f_, t_ in types.items() if t_.strip().endswith("*") and "(" not in t_ and t_.split()[0].startswith("Py")]


def gc_harness(ex):
    import gc as _gc
    which = ex.choice("record", 5)
    o = _Sweep()
    o.on_trait_change(lambda: None, "a")
    o.on_trait_change(lambda: None)
    it = cenv.new_interp()
    if which == 4:
        rec, s_ = "has_traits_object", cenv.hastraits_struct(it, o)
        prefix = "has_traits"
    else:
        ct = o._trait(["a", "l", "p", "n"][which], 2)
        ct._notifiers(True)
        rec, s_ = "_trait_object", cenv.trait_struct_from_ctrait(it, ct)
        prefix = "trait"
    fields = _owned_fields(rec)
    ex.check(len(fields) >= 4, "the record's object-pointer fields are read from the struct declaration")
    held = [(f_, s_.f.get(f_, NULL)) for f_ in fields]
    held = [(f_, v_) for f_, v_ in held if v_ is not NULL and v_ is not None]
    visited = []
    stop_at = ex.choice("visit_returns_nonzero_at", len(held) + 2)       # k-th visit aborts the traversal (== len+1: never)

    def visit(interp, obj, arg):
        visited.append(obj)
        return 7 if len(visited) == stop_at else 0
    it.api["__visit__"] = visit
    problem = None
    try:
        r = it.call(prefix + "_traverse", [s_, FnPtr("__visit__"), NULL])
        if 1 <= stop_at <= len(held):
            ex.check(r == 7 and len(visited) == stop_at, "a non-zero result of the visit callback ends the traversal and is returned")
        else:
            ex.check(r == 0, "traverse returns 0 after visiting everything")
            ex.check(len(visited) == len(held) and all(any(v_ is h_ for _f, h_ in held) for v_ in visited)
                     and all(any(v_ is h_ for v_ in visited) for _f, h_ in held),
                     "traverse visits every object reference the record owns, exactly once (a field the collector is not told "
                     "about makes reference cycles through it uncollectable)")
        it.st.rc.clear()
        r2 = it.call(prefix + "_clear", [s_])
        ex.check(r2 == 0 and all(s_.f.get(f_, NULL) is NULL for f_ in fields), "clear leaves every owned reference NULL")
        bad = []
        for f_, h_ in held:
            want = -sum(1 for _f2, h2 in held if h2 is h_)
            got = it.st.rc.get(id(h_), (None, 0))[1]
            if got != want and h_ is not None:
                bad.append("%s: %+d (expected %+d)" % (f_, got, want))
        ex.check(not bad, "clear releases every owned reference exactly once")
    except MemSafety as e:
        problem = str(e)
    ex.check(problem is None, "the garbage-collector support functions are memory-safe")
    return {"record": rec}


class _InitPlain(HasTraits):
    a = Int(1)
    b = Str("x")


class _InitListening(HasTraits):
    a = Int(1)
    b = Str("x")
    seen = List()

    def _a_changed(self, new):
        self.seen.append(("a", new))

    @__import__("traits.api", fromlist=["on_trait_change"]).on_trait_change("b")
    def _b_listener(self, new):
        self.seen.append(("b", new))

    @__import__("traits.api", fromlist=["observe"]).observe("a", post_init=True)
    def _a_observer(self, event):
        self.seen.append(("obs", event.new))


def init_harness(ex):
    """has_traits_init (the constructor: HasTraits(**traits)) interpreted on a freshly allocated real object: keyword traits valid,
    invalid half way, unknown; positional arguments refused; classes with and without declared listeners / observers; success and
    every error exit follow the 0 / -1 <=> exception convention and are reference-neutral"""
    cls = [_InitPlain, _InitListening][ex.choice("class", 2)]
    o = cls.__new__(cls)
    shape = ex.choice("arguments", 6)
    args = () if shape != 5 else (1,)
    kwds = [NULL, {}, {"a": 5, "b": "s"}, {"a": 5, "b": 7}, {"a": "bad"}, {}][shape]
    it = cenv.new_interp()
    it.st.rc.clear()
    problem = None
    rc = None
    try:
        with cenv.python_side_env():
            rc = it.call("has_traits_init", [o, args, kwds])
        if rc != 0 and it.st.err is None:
            problem = "-1 without an exception"
        if rc == 0 and it.st.err is not None:
            problem = "0 with an exception set"
    except MemSafety as e:
        problem = str(e)
    ex.note("problem", problem)
    if problem and os.environ.get("VT_DEBUG_NEUTRAL"):
        sys.stderr.write("INIT %r\n" % (problem,))
    ex.check(problem is None, "the constructor path is memory-safe and follows the 0 / -1 <=> exception convention")
    if problem is None:
        want_fail = shape in (3, 4, 5)
        ex.check((rc != 0) == want_fail, "the constructor fails exactly for an invalid keyword value or positional arguments")
        if rc == 0:
            ex.check(bool(cenv.hastraits_struct(it, o).flags & cenv.HASTRAITS_INITED), "a successfully constructed object is marked initialised")
            if shape == 2:
                ex.check(o.a == 5 and o.b == "s", "keyword traits are assigned")
        bad = [b_ for b_ in neutral(it, NULL) if "NoneType" not in b_]
        ex.check(not bad, "the constructor path is reference-neutral on success and on every error exit")
    return {"shape": shape}


def notify_mutation_harness(ex):
    """a handler that removes itself (or adds another one) while call_notifiers is dispatching"""
    trait_level = ex.flag("trait_level_handler_too")
    action = ex.choice("action", 3)      # 0: first handler removes itself, 1: removes the next one, 2: adds a new one
    calls = []

    class O(HasTraits):
        v = Int(1)

    o = O()

    def c(*a):
        calls.append("c")

    def b(*a):
        calls.append("b")

    def a(*args):
        calls.append("a")
        if action == 0:
            o.on_trait_change(a, remove=True)
        elif action == 1:
            o.on_trait_change(b, remove=True)
        else:
            o.on_trait_change(lambda *x: calls.append("d"))

    for h in (a, b, c):
        o.on_trait_change(h)               # anytrait (object-level) notifiers
    if trait_level:
        o.on_trait_change(lambda *x: calls.append("t"), "v")
    it = cenv.new_interp()
    os_ = cenv.hastraits_struct(it, o)
    it.st.rc.clear()
    problem = None
    try:
        rc = it.call("has_traits_setattro", [os_, "v", 5])
    except MemSafety as e:
        problem = str(e)
    ex.check(problem is None, "call_notifiers is memory-safe when a handler changes the notifier list during dispatch")
    if problem is None:
        ex.check(not neutral(it, NULL), "assignment with list-mutating handlers is reference-neutral")
    return {"calls": "".join(calls)}


def delete_harness(ex):
    """del obj.x with handlers attached: the delete branch of setattr_trait, incl. a default method that raises"""
    fail = ex.flag("default_raises")
    state = {"fail": False}

    class O(HasTraits):
        n = Any()

        def _n_default(self):
            if state["fail"]:
                raise RuntimeError("default failed")
            return [1, 2]

    o = O()
    o.on_trait_change(lambda *a: None, "n")
    o.n = ["assigned"]
    state["fail"] = fail
    it = cenv.new_interp()
    os_ = cenv.hastraits_struct(it, o)
    it.st.rc.clear()
    problem = None
    try:
        rc = it.call("has_traits_setattro", [os_, "n", NULL])
        if rc != 0 and it.st.err is None:
            problem = "-1 without an exception"
    except MemSafety as e:
        problem = str(e)
    ex.check(problem is None, "delete path is memory-safe")
    if problem is None:
        ex.check(not neutral(it, NULL), "delete path is reference-neutral on success and on the failing-default exit")
    return {}


def obligations(tier, build):
    prog = cenv.load_program(build)
    obs = []
    des = stored_designators(prog)
    for field, fns in des.items():
        for fname, where in sorted(fns.items(), key=lambda kv: str(kv[0])):
            if isinstance(fname, str) and fname.startswith("<unresolved"):
                h = (lambda f=field, w=where: (lambda ex: (ex.check(False, "unresolved store into %s in %s" % (f, w)), {})[1]))()
                obs.append(Obligation("table/%s/unresolved" % field, h, leverage="none"))
                continue
            h, rp = table_harness(field, fname)
            obs.append(Obligation("table/%s/%s" % (field, fname), h, replay=rp,
                                  bounds={"loop": "unwinding assertion = table length", "stored by": sorted(set(where))[:6]},
                                  leverage="none (concrete function designator; the obligation set is generated from the AST)"))
    for which in ("trait_new", "_trait_set_validate", "_trait_delegate", "_trait_set_property"):
        obs.append(Obligation("subscript/%s" % which, subscript_harness(which),
                              bounds={"integer arguments": "any value PyArg_ParseTuple lets through (symbolic)"},
                              leverage="all integer arguments", witness_every=0, max_paths=20000))
    cfgs = list(c03.CONFIGS.items()) + list(SHAPES.items())
    for cfg, (mk, kinds) in cfgs:
        if tier == "quick" and cfg.startswith(("EitherAdapt", "AdaptDefault")):
            continue
        for kind in kinds:
            obs.append(Obligation("validator/%s/%s" % (cfg, kind), validator_harness(cfg, kind), stubs=STUBS,
                                  bounds={"configuration": cfg, "value kind": kind}, witness_every=0,
                                  leverage="numeric payloads, protocol outcomes", fast_fp=True, max_paths=5000,
                                  query_timeout_ms=60000, path_wall_s=180))
    for which in ("read", "write"):
        obs.append(Obligation("access/%s" % which, access_harness(which), stubs=STUBS, witness_every=0,
                              bounds={"default kinds": "constant, TraitListObject, TraitDictObject, TraitSetObject, callable_and_args, callable (method)"},
                              leverage="choice feasibility only"))
    obs.append(Obligation("access/notify-list-mutation", notify_mutation_harness, stubs=STUBS, witness_every=0,
                          bounds={"handlers": 3, "mutation": "self-removal / removal of the next / addition, during dispatch"},
                          leverage="choice feasibility only"))
    obs.append(Obligation("access/trait-lookup", trait_lookup_harness, stubs=STUBS, witness_every=0,
                          crash_is_violation="errors surface as Python exceptions, never as crashes (the fixture set-up runs the compiled "
                                             "look-up natively)",
                          bounds={"instance mode": "symbolic Int in [-3, 3]", "delegate": "proper / None / attribute missing"},
                          leverage="the instance mode; otherwise choice feasibility"))
    for table, pyname, cname, flags in method_tables(prog):
        if cname in ("_trait_set_validate", "_has_traits_trait", "_trait_getstate", "_trait_setstate"):
            continue          # their own, deeper obligations (subscript/*, access/trait-lookup, C14)
        import props.c06 as c06
        obs.append(Obligation("sweep/%s/%s" % (cname, flags if isinstance(flags, str) else "meth"), sweep_harness(table, pyname, cname, flags),
                              env=c06.sym_env,       # constant-hash discipline: an integer proxy used as a dict key is compared, not hashed
                              stubs=STUBS + c06.STUBS, witness_every=0,
                              bounds={"function": cname, "python name": pyname, "table": table,
                                      "arguments": "arity 0-4, each from a pool of 10 kinds; integers unbounded",
                                      "receivers": "Int / List / Property / Any trait records, a HasTraits object with handlers"},
                              leverage="integer arguments (table indices, modes, flags); otherwise choice feasibility",
                              max_paths=30000, path_wall_s=120))
    obs.append(Obligation("access/init", init_harness, stubs=STUBS, witness_every=0,
                          bounds={"classes": ["plain", "with static handler, decorated listener, post_init observer"],
                                  "arguments": ["kwds NULL", "{}", "valid", "invalid second value", "invalid first value", "positional"]},
                          leverage="choice feasibility only (heap objects); ghost reference counts"))
    obs.append(Obligation("gc/traverse-clear", gc_harness, stubs=STUBS, witness_every=0,
                          bounds={"records": ["Int / List / Property / Any trait records with notifier lists", "a HasTraits object with handlers"],
                                  "visit callback": "returns non-zero at the k-th call, any k"},
                          leverage="choice feasibility only; owned fields from the struct declarations of the current source"))
    obs.append(Obligation("access/delegate", delegate_access_harness, stubs=STUBS, witness_every=0,
                          bounds={"delegate": ["proper", "None", "lacks the attribute", "cycle (100 levels)"],
                                  "operations": ["read", "write valid", "write invalid", "delete"],
                                  "deferring traits": ["DelegatesTo", "PrototypedFrom prefix*", "DelegatesTo modify explicit name"]},
                          leverage="choice feasibility only (heap objects); ghost reference counts"))
    obs.append(Obligation("access/property", property_harness, stubs=STUBS, witness_every=0,
                          bounds={"getter/setter arities": "0-3", "validated property": "yes", "operations": "read, write, delete, invalid value, failing setter"},
                          leverage="choice feasibility only"))
    obs.append(Obligation("access/delete", delete_harness, stubs=STUBS, witness_every=0,
                          bounds={"default": "dynamic method, may raise"}, leverage="choice feasibility only"))
    return obs
