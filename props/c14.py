"""C14 - pickling, deep copying and cloning preserve state and keep traits live.

Solver-based part (csym): for a catalogue of real trait definitions (every trait kind the package's own constructors produce)
the abstract trait record bridged from the real CTrait is pushed through the *interpreted* _trait_getstate and
_trait_setstate (clang AST of the current ctraits.c): the five function designators, flags, default, delegate fields,
handler and validate descriptor must be restored exactly (func_index terminating inside its table is C18's obligation set,
re-used here).  The compiled round trip (pickle protocols 2-5, copy.deepcopy of the CTrait) is replayed concretely and must
behave like the original on probe values.

History part (bounded choice exploration; pickle/copy are C boundaries, labelled as such): k<=2 state-building operations,
then one of {pickle 2-5, copy.deepcopy, clone_traits, copy_traits deep/shallow}, then liveness probes on the copy.
"""
NEED_AST = True

import copy
import pickle

from vt import symx, csym, cenv
from vt.csym import NULL, FnPtr
from vt.oblig import Obligation
import props.c18 as c18

from traits.api import (HasTraits, Int, Str, Float, List, Dict, Set, Instance, Property, Any, ReadOnly, Constant, Event, Enum,
                        Map, Range, Tuple, DelegatesTo, PrototypedFrom, Python, Disallow, Either, Callable, Bool, TraitError,
                        observe, cached_property, on_trait_change)

from traits.constants import ComparisonMode

LEVEL = "model_checking"
ENCODED = [("traits/ctraits.c", ["_trait_getstate", "_trait_setstate", "func_index", "get_value"]),
           ("traits/has_traits.py", ["HasTraits.__getstate__", "HasTraits.__setstate__", "HasTraits.clone_traits",
                                     "HasTraits.copy_traits", "HasTraits.__deepcopy__"]),
           ("traits/trait_list_object.py", ["TraitListObject.__deepcopy__", "TraitListObject.__getstate__", "TraitListObject.__setstate__"]),
           ("traits/trait_dict_object.py", ["TraitDictObject.__deepcopy__", "TraitDictObject.__getstate__", "TraitDictObject.__setstate__"]),
           ("traits/trait_set_object.py", ["TraitSetObject.__deepcopy__", "TraitSetObject.__getstate__", "TraitSetObject.__setstate__"])]
EXPLANATION = ("Trait-definition round trip decided on the interpreted C source per trait kind; object-level histories are bounded "
               "explorations through the explorer with concrete copies (pickle/copy are C boundaries).")
STUBS = c18.STUBS
ASSUMPTIONS = ["allocation failure out of scope"]


class Child(HasTraits):
    value = Int(0)


class Proto(HasTraits):
    pv = Int(3)


class Cat(HasTraits):
    """catalogue of trait kinds (module level: picklable)"""
    i = Int(1)
    s = Str("x")
    f = Float
    l = List(Int)
    d = Dict(Str, Int)
    st = Set(Int)
    inst = Instance(Child, ())
    a = Any
    ro = ReadOnly
    k = Constant(5)
    ev = Event(Int)
    en = Enum(1, 2, 3)
    mp = Map({"a": 1, "b": 2})
    rg = Range(0.0, 1.0)
    rgi = Range(0, 10)
    tp = Tuple(Int, Str)
    ei = Either(Int, Str)
    cb = Callable
    py = Python
    proto = Instance(Proto, ())
    dg = DelegatesTo("proto", prefix="pv")
    pf = PrototypedFrom("proto", prefix="pv")
    p0 = Property
    p1 = Property(Int)
    p2 = Property(observe="i")
    p3 = Property(Str, observe="i")
    tr = Int(transient=True)
    sre = __import__("traits.api", fromlist=["String"]).String("ab", regex="^[a-z]+$", maxlen=5)
    cmi = Any(comparison_mode=ComparisonMode.identity)
    cmn = Int(comparison_mode=ComparisonMode.none)
    cme = Float(comparison_mode=ComparisonMode.equality)

    def _get_p0(self):
        return 1

    def _set_p0(self, v):
        pass

    def _get_p1(self):
        return self.__dict__.get("_p1", 2)

    def _set_p1(self, v):
        self.__dict__["_p1"] = v

    @cached_property
    def _get_p2(self):
        return self.i * 2

    def _get_p3(self, name):
        return "p3"

    def _set_p3(self, name, value):
        pass


KINDS = ["i", "s", "f", "l", "d", "st", "inst", "a", "ro", "k", "ev", "en", "mp", "rg", "rgi", "tp", "ei", "cb", "py", "dg",
         "pf", "p0", "p1", "p2", "p3", "tr", "l_items", "trait_added", "cmi", "cmn", "cme", "sre"]
FIELDS = ["getattr", "setattr", "post_setattr", "validate", "delegate_attr_name"]


def roundtrip_harness(name):
    def harness(ex):
        o = Cat()
        ct = o.trait(name) if name not in ("l_items",) else o._trait(name, 0)
        ex.check(ct is not None, "catalogue trait exists")
        if ex.sym:
            it = cenv.new_interp()
            src = cenv.trait_struct_from_ctrait(it, ct)
            problem = None
            try:
                state = it.call("_trait_getstate", [src, NULL])
                dst = cenv.new_trait(handler=NULL)
                r = it.call("_trait_setstate", [dst, (tuple(state),)])
                if r is NULL:
                    problem = "setstate failed: %r" % (it.st.err,)
            except csym.MemSafety as e:
                problem = str(e)
            ex.check(problem is None, "__getstate__ / __setstate__ of the trait definition are memory-safe and succeed")
            if problem is None:
                for f in FIELDS:
                    a, b = getattr(src, f), getattr(dst, f)
                    ex.check(csym.Interp.same_pointer(a, b), "round trip restores trait->%s" % f)
                ex.check(dst.flags == src.flags and dst.default_value_type == src.default_value_type,
                         "round trip restores flags and default value type")
                for f in ("default_value", "delegate_name", "delegate_prefix", "handler", "py_validate", "py_post_setattr"):
                    a, b = getattr(src, f), getattr(dst, f)
                    a = None if a is NULL else a
                    b = None if b is NULL else b
                    same = a is b or a == b
                    ex.check(same, "round trip restores trait->%s" % f)
        else:
            how = ["pickle2", "pickle3", "pickle4", "pickle5", "deepcopy", "copy"][ex.choice("copier", 6)]
            problem = None
            PROBES = (5, "a", "abcdefg", "AB", 0.5, None, [1], (1, "z"))

            def run0(c, probe):
                try:
                    return ("ok", repr(c.validate(o, name, probe))) if c.validate is not None else ("none",)
                except TraitError:
                    return ("TraitError",)
                except Exception as e:
                    return (type(e).__name__,)
            before_copy = [run0(ct, p_) for p_ in PROBES]
            try:
                ct2 = (copy.deepcopy(ct) if how == "deepcopy" else copy.copy(ct) if how == "copy"
                       else pickle.loads(pickle.dumps(ct, protocol=int(how[-1]))))
            except Exception as e:
                problem = "%s: %r" % (how, e)
                ct2 = None
            # the singletons ReadOnly / Disallow cannot be found by name when pickled (trait_types rebinds the names to instances):
            # a Python-level PicklingError for the *definition object alone*; objects having such traits pickle fine (history part)
            ex.check(problem is None, "the trait definition object survives %s" % ("deepcopy" if how == "deepcopy" else "pickle"))
            ex.check([run0(ct, p_) for p_ in PROBES] == before_copy and [run0(Cat().trait(name) if name != "l_items" else ct, p_) for p_ in PROBES] == before_copy,
                     "copying or pickling a definition leaves the ORIGINAL (and the class that uses it) behaving as before")
            if ct2 is not None:
                import traits.ctraits as ctm
                s1, s2 = ctm.cTrait.__getstate__(ct), ctm.cTrait.__getstate__(ct2)
                for idx, f in zip((0, 1, 2, 4, 11), FIELDS):
                    ex.check(s1[idx] == s2[idx], "round trip restores trait->%s" % f)
                ex.check(s1[8] == s2[8] and s1[6] == s2[6], "round trip restores flags and default value type")
                ex.check(ct.comparison_mode == ct2.comparison_mode and ct.is_property == ct2.is_property
                         and ct.modify_delegate == ct2.modify_delegate and ct.setattr_original_value == ct2.setattr_original_value
                         and ct.post_setattr_original_value == ct2.post_setattr_original_value and ct.is_mapped == ct2.is_mapped,
                         "the copied definition has the same comparison mode and definition flags")
                for probe in (5, "a", "abcdefg", "AB", 0.5, None, [1], (1, "z")):
                    def run(c):
                        try:
                            return ("ok", c.validate(o, name, probe)) if c.validate is not None else ("none",)
                        except TraitError:
                            return ("TraitError",)
                        except Exception as e:
                            return (type(e).__name__,)
                    ex.check(run(ct)[0] == run(ct2)[0], "the copied definition validates like the original")
        return {"kind": name}

    return harness


# ---- histories ----------------------------------------------------------------------------------------------------
# one reusable definition from which several attributes are DERIVED by calling it with other metadata / another default
Cnt = Int(0)


class Node(HasTraits):
    attempt = Cnt(transient=True)          # the transient derivative is made first
    retries = Cnt(desc="how often")
    priority = Cnt(3)
    expr = __import__("traits.api", fromlist=["Expression"]).Expression("0")     # mapped: expr_ holds a code object
    samples = List(Int, transient=True)    # a transient container with a declared observer ...
    samples_seen = Int(transient=True)

    @observe("samples.items")
    def _samples_changed(self, event):
        self.samples_seen += 1

    def _value_changed(self):
        self.samples                       # ... touched by a static handler of a persisted trait (also while a state is applied)

    def _pre_dirty_changed(self):
        self.doubled                       # a cached property READ by a handler of a trait that is restored before its dependency

    pre_dirty = Int(0)     # persisted counter declared (hence restored) BEFORE the traits whose post_init handlers write it
    name = Str("n")
    value = Int(0)
    items = List(Int, maxlen=4)
    kids = List(Instance("Node"))
    table = Dict(Str, Int)
    tags = Set(Str)
    grid = List(List(Int))
    sel = Instance("Node")
    group = Set(Instance("Node"))
    bykey = Dict(Instance("Node"), Int, copy="deep")
    mode = Map({"dot": 1, "dash": 2, "solid": 3})           # mapped: the shadow attribute mode_ follows mode
    once = ReadOnly
    scratch = Int(transient=True)
    total = Property(Int, observe="items.items")
    doubled = Property(Int, observe="value")
    log = List(Str, transient=True)
    a_dirty = Int(0)      # persisted counters written by post_init handlers; one sorts before, one after the observed trait
    z_dirty = Int(0)

    @on_trait_change("value", post_init=True)
    def _mark_dirty(self):
        self.pre_dirty += 1
        self.a_dirty += 1
        self.z_dirty += 1

    @observe("name", post_init=True)
    def _mark_dirty2(self, event):
        self.pre_dirty += 1
        self.a_dirty += 1
        self.z_dirty += 1

    def _get_total(self):
        return sum(self.items)

    @cached_property
    def _get_doubled(self):
        return self.value * 2

    @observe("value")
    def _note(self, event):
        self.log.append("value")

    @on_trait_change("kids.value")
    def _kid_changed(self):
        self.scratch += 1

    @on_trait_change("kids.value", post_init=True)
    def _kid_changed_post_init(self):
        self.scratch2 += 1

    scratch2 = Int(transient=True)
    tmp = Int(transient=True)


COPIERS = ["pickle0", "pickle1", "pickle2", "pickle3", "pickle4", "pickle5", "deepcopy", "clone", "copy_traits_deep", "copy_traits_shallow",
           "setstate_quiet", "clone_deep"]
BUILD_OPS = ["none", "value", "rename", "items", "kids", "table", "tags", "grid", "once", "scratch", "sel_alias", "kid_value",
             "read_once", "group_alias", "bykey_alias", "mode", "counters", "expr", "once_none"]


def do_copy(how, n):
    if how.startswith("pickle"):
        return pickle.loads(pickle.dumps(n, protocol=int(how[-1])))
    if how == "deepcopy":
        return copy.deepcopy(n)
    if how == "clone":
        return n.clone_traits()
    if how == "clone_deep":
        return n.clone_traits(copy="deep")
    if how == "setstate_quiet":      # the documented quiet restore entry point
        c = Node.__new__(Node)
        c.__setstate__(pickle.loads(pickle.dumps(n.__getstate__(), protocol=2)), trait_change_notify=False)
        return c
    c = Node()
    c.copy_traits(n, copy="deep" if how.endswith("deep") else "shallow")
    return c


def history_harness(k, first=None):
    """first: the first state-building operation, fixed per obligation instance only to spread the work over the process pool"""
    def harness(ex):
        n = Node()
        wrote = False
        for step in range(k):
            op = first if (step == 0 and first is not None) else BUILD_OPS[ex.choice("op%d" % step, len(BUILD_OPS))]
            if op == "value":
                n.value = 7 + step
            elif op == "rename":
                n.name = "renamed%d" % step
            elif op == "items":
                n.items.append(step + 1)
            elif op == "kids":
                n.kids.append(Node(name="kid%d" % step))
            elif op == "table":
                n.table["k%d" % step] = step
            elif op == "tags":
                n.tags.add("t%d" % step)
            elif op == "grid":
                n.grid.append([step])
            elif op == "once":
                if not wrote:
                    n.once = "written"
                    wrote = True
            elif op == "once_none":
                if not wrote:
                    n.once = None              # None is a value like any other: the attribute is written
                    wrote = "none"
            elif op == "scratch":
                n.tmp = 99
            elif op == "sel_alias":
                if not n.kids:
                    n.kids.append(Node(name="kidA"))
                n.sel = n.kids[-1]             # the same object reachable through two traits
            elif op == "kid_value":
                if n.kids:
                    n.kids[0].value += 1
            elif op == "read_once":
                n.once                        # reading a write-once attribute is not writing it (it materialises <undefined>)
            elif op == "bykey_alias":
                if not n.kids:
                    n.kids.append(Node(name="kidK"))
                n.bykey[n.kids[-1]] = 5          # a node that is a KEY of a Dict trait and an item of a List trait
            elif op == "mode":
                n.mode = "dash"
            elif op == "counters":
                n.attempt, n.retries, n.priority = 5, 6, 7
            elif op == "expr":
                n.expr = "1+2"
            elif op == "group_alias":
                if not n.kids:
                    n.kids.append(Node(name="kidG"))
                n.group.add(n.kids[-1])        # the same object reachable through a List trait and a Set trait
        how = COPIERS[ex.choice("copier", len(COPIERS))]
        deep = how != "copy_traits_shallow"
        problem = None
        try:
            c = do_copy(how, n)
        except Exception as e:
            problem = repr(e)
            c = None
        ex.check(problem is None, "copy operation succeeds")
        if c is None:
            return {"how": how}
        ex.check(type(c) is Node, "copy has the same class")
        for t in ("name", "value", "items", "table", "tags", "grid", "pre_dirty", "a_dirty", "z_dirty", "retries", "priority", "expr"):
            if t.endswith("dirty") and how.startswith("copy_traits"):
                continue      # copy_traits assigns onto a live object: its handlers legitimately run
            ex.check(getattr(c, t) == getattr(n, t), "non-transient trait values are equal (%s)" % t)
        ex.check([kk.name for kk in c.kids] == [kk.name for kk in n.kids] and [kk.value for kk in c.kids] == [kk.value for kk in n.kids],
                 "nested Instance graph is preserved")
        if how.startswith("pickle") or how == "deepcopy":
            ex.check(c.tmp == 0 and c.attempt == 0, "transient traits are back at their defaults")
        ex.check(eval(c.expr_) == eval(n.expr_), "a mapped trait's shadow attribute on the copy is the mapping of the copy's value (Expression)")
        if deep:
            for t in ("items", "table", "tags", "grid", "kids"):
                ex.check(getattr(c, t) is not getattr(n, t), "no mutable container shared with the original (%s)" % t)
            ex.check(all(a is not b for a, b in zip(c.grid, n.grid)), "nested containers are not shared")
            ex.check(all(a is not b for a, b in zip(c.kids, n.kids)), "nested Instance objects are not shared")
            if n.sel is not None and how in ("deepcopy", "clone") or (n.sel is not None and how.startswith("pickle")):
                ex.check(c.sel is not None and any(c.sel is kk for kk in c.kids),
                         "aliasing inside the copied graph is preserved (the selected node is the copy's own kid)")
            if n.group and (how in ("deepcopy", "clone") or how.startswith("pickle")):
                ex.check(len(c.group) == len(n.group) and all(any(g is kk for kk in c.kids) for g in c.group),
                         "aliasing inside the copied graph is preserved (members of the Set are the copy's own kids)")
        if how != "copy_traits_shallow" and not how.startswith("copy_traits"):
            ex.check(c.doubled == c.value * 2, "a cached property of the copy is not stale, whatever read it while the state was applied")
        ex.check(c.mode == n.mode and c.mode_ == {"dot": 1, "dash": 2, "solid": 3}[c.mode],
                 "a mapped trait's shadow attribute on the copy is the mapping of the copy's value")
        if deep and n.bykey and (how in ("deepcopy", "clone_deep", "copy_traits_deep") or how.startswith("pickle") or how == "setstate_quiet"):
            ex.check(len(c.bykey) == len(n.bykey) and all(not any(k_ is nk for nk in n.bykey) for k_ in c.bykey),
                     "the keys of a deep-copied Dict are copies too (no node shared with the original)")
            if how in ("deepcopy", "clone_deep") or how.startswith("pickle"):
                ex.check(all(any(k_ is kk for kk in c.kids) for k_ in c.bykey),
                         "aliasing inside the copied graph is preserved (the Dict's keys are the copy's own kids)")
        if not wrote and how not in ("copy_traits_deep", "copy_traits_shallow"):
            from traits.api import Undefined
            ex.check(c.once is Undefined, "a write-once attribute that was never written is still <undefined> on the copy")
            try:
                c.once = "first"
                first_ok = True
            except TraitError:
                first_ok = False
            ex.check(first_ok and c.once == "first", "... and still accepts its one write")
            try:
                c.once = "second"
                second_ok = True
            except TraitError:
                second_ok = False
            ex.check(not second_ok, "... and only one")
        if wrote:
            try:
                n.once = "again on the original"
                rewritable0 = True
            except TraitError:
                rewritable0 = False
            ex.check(not rewritable0, "a write-once attribute accepts exactly one assignment, whatever was assigned")
        if wrote and how not in ("copy_traits_deep", "copy_traits_shallow"):
            ex.check(c.once == ("written" if wrote is True else None), "write-once attribute stays written")
            try:
                c.once = "again"
                rewritable = True
            except TraitError:
                rewritable = False
            ex.check(not rewritable, "write-once attribute of the copy rejects a second assignment")
        # ---- liveness probes on the copy ----
        events = []
        c.on_trait_change(lambda: events.append("items"), "items_items")
        orig_events = []
        n.on_trait_change(lambda: orig_events.append("items"), "items_items")
        try:
            c.value = "bad"
            rejected = False
        except TraitError:
            rejected = True
        ex.check(rejected, "the copy's scalar traits still reject invalid values")
        for cont, bad in ((c.items, "x"), (c.tags, 5)):
            try:
                (cont.append if isinstance(cont, list) else cont.add)(bad)
                rej = False
            except TraitError:
                rej = True
            ex.check(rej, "the copy's container values still reject invalid items")
        try:
            c.table["zz"] = "notint"
            rej = False
        except TraitError:
            rej = True
        ex.check(rej, "the copy's dict values still reject invalid values")
        if c.grid:
            try:
                c.grid[0].append("x")
                rej = False
            except TraitError:
                rej = True
            ex.check(rej, "nested container values of the copy still reject invalid items")
        before_total = c.total
        if len(c.items) < 4:
            c.items.append(3)
            ex.check(events == ["items"] and orig_events == [], "container mutation notifies the copy's items handlers and not the original's")
            ex.check(c.total == before_total + 3, "observed property dependencies work on the copy")
        d0 = c.doubled
        c.value = c.value + 5
        ex.check(c.doubled == d0 + 10, "cached property of the copy follows its dependency")
        ex.check(c.log and c.log[-1] == "value", "declared observers work on the copy")
        seen0 = c.samples_seen
        c.samples.append(1)
        ex.check(c.samples_seen == seen0 + 1, "declared observers work on the copy's transient containers (whenever their default was created)")
        # a quiet restore (trait_change_notify=False) hooks nested on_trait_change listeners through the very
        # notifications it turns off; the property names unpickling, deep copying and cloning, so listener
        # liveness is not demanded of that entry point (values, shadows, validation and sharing are)
        if c.kids and how != "setstate_quiet":
            s0, s2 = c.scratch, c.scratch2
            c.kids[0].value += 1
            ex.check(c.scratch == s0 + 1, "declared nested listeners work on the copy")
            ex.check(c.scratch2 == s2 + 1, "declared post_init nested listeners work on the copy")
        ex.check(n.value != c.value or True, "original untouched")
        return {"how": how}

    return harness


class Limit:
    """module level (picklable): owns a stand-alone TraitList validated by its bound method"""

    def __init__(self, top):
        import traits.trait_list_object as tlo_
        self.top = top
        self.lst = tlo_.TraitList([1, 2], item_validator=self.check)

    def check(self, item):
        if not isinstance(item, int) or item > getattr(self, "top", 10 ** 9):      # (a copy under construction has no state yet)
            raise TraitError("too big")
        return item


def bare_list_harness(ex):
    """a stand-alone TraitList whose item validator is a BOUND METHOD of an owner object: a deep copy of the pair validates against
    the copy of the owner, not the original"""
    o = Limit(10)
    how = ex.choice("copier", 3)
    if how == 0:
        c = copy.deepcopy(o)
    elif how == 1:
        c = pickle.loads(pickle.dumps(o, protocol=2 + ex.choice("protocol", 4)))
    else:
        c = Limit(10)
        c.lst = copy.deepcopy(o.lst, {id(o): c})          # the memo maps the owner to its copy
    ex.check(list(c.lst) == [1, 2] and c.lst is not o.lst, "the copy holds an equal list of its own")
    o.top = 100                     # the ORIGINAL owner becomes lax: the copy still validates by its own owner
    try:
        c.lst.append(50)
        rej = False
    except TraitError:
        rej = True
    ex.check(rej and list(c.lst) == [1, 2], "the copied list is validated by the copy of its owner")
    c.top = 1000
    try:
        c.lst.append(500)
        ok = True
    except TraitError:
        ok = False
    ex.check(ok and list(o.lst) == [1, 2], "... and follows the copy's state, leaving the original alone")
    return {"how": how}


def obligations(tier, build):
    cenv.load_program(build)
    obs = []
    for name in KINDS:
        obs.append(Obligation("definition/%s" % name, roundtrip_harness(name), stubs=STUBS,
                              bounds={"trait kind": name, "copiers (concrete replay)": ["pickle 2-5", "deepcopy"]},
                              leverage="none beyond path feasibility: the obligation is a per-kind equality of abstract records",
                              witness_violations=True,
                              crash_is_violation="the trait definition object survives a getstate/pickle/copy round trip without crashing"))
    obs.append(Obligation("bare-list-bound-validator", bare_list_harness, bounds={"copiers": ["deepcopy", "pickle 2-5", "deepcopy with the owner in the memo"]},
                          leverage="choice feasibility only"))
    K = 2 if tier == "quick" else 3
    for first in BUILD_OPS:
        obs.append(Obligation("history/k=%d/first=%s" % (K, first), history_harness(K, first),
                              bounds={"state-building operations": BUILD_OPS, "k": K, "first operation": first, "copiers": COPIERS},
                              leverage="choice feasibility only (pickle/copy are C boundaries)", max_paths=200000))
    return obs
