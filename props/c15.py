"""C15 - the observe mini-language means what its grammar and tables say.

Token level (solver-decided): the LALR tables are read from the *current* traits/observation/_generated_parser.py at run
time and interpreted (shift / reduce / goto exactly like lark's ParserState.feed_token) on a symbolic token sequence
t_0..t_{L-1} with symbolic length.  Each explored path is one viable-prefix class.  The reference is a bounded recogniser
*formula* for a grammar written here from the user manual (docs/source/traits_user_manual/notification.rst, 'Traits Mini
Language'), not from the .lark file; on an accepting path z3 proves the reference accepts the sequence, on a rejecting path
z3 proves that NO completion of the rejected prefix (any remaining tokens, any length <= L) is accepted by the reference.

Text level (witness replay, one rendering per path - this part is sampling of spellings and whitespace and is reported as
such): the rendered string goes through the real parse(); acceptance must agree with the reference, the graphs must denote
the reference's path set with notify(step) <=> step is last or followed by '.', 'items' = four optional alternatives,
parse(s) == parse(s'), for an equivalent spelling s' (extra brackets, other whitespace), and compile_str must succeed.
"""
import random

import z3

from vt import symx
from vt.symx import SymInt
from vt.oblig import Obligation

from traits.observation import _generated_parser as gp
from traits.observation import parsing, expression as expression_module

LEVEL = "model_checking"
ENCODED = [("traits/observation/_generated_parser.py", ["Lark_StandAlone", "ParserState.feed_token"]),
           ("traits/observation/parsing.py", ["parse", "compile_str", "_handle_tree", "_handle_series", "_handle_parallel",
                                              "_handle_trait", "_handle_items", "_handle_metadata", "_handle_anytrait"]),
           ("traits/observation/expression.py", ["ObserverExpression._as_graphs", "SeriesObserverExpression._create_graphs",
                                                 "ParallelObserverExpression._create_graphs"])]
EXPLANATION = ("LALR tables of the current generated parser interpreted on symbolic token sequences; reference = bounded CYK-style "
               "formula of the manual's grammar over the same symbolic tokens; z3 proves agreement per viable-prefix class incl. all "
               "completions of rejected prefixes. Meaning, equality and the character-level lexer are checked on one rendered witness "
               "per path (sampling of spellings/whitespace).")
STUBS = ["the character-level lexer (regex scanning, a C boundary) is exercised only through rendered witnesses"]
ASSUMPTIONS = ["token sequences of length <= L (6 quick, 8 thorough)"]

TERMINALS = ["NAME", "ITEMS", "PLUS", "STAR", "DOT", "COLON", "COMMA", "LSQB", "RSQB"]
CODE = {n: i for i, n in enumerate(TERMINALS)}
END = "$END"

# reference grammar, from the manual ('*' only in terminal position: "not followed directly or indirectly by a connector";
# the manual lists "[a.*, b.c]" as permitted and "[a, *].name" as not)
G = {
    "start": [["parT"]],
    "parT": [["serT"], ["parT", "COMMA", "serT"]],
    "serT": [["elT"], ["ser", "conn", "elT"]],
    "elT": [["el"], ["STAR"], ["LSQB", "parT", "RSQB"]],
    "el": [["NAME"], ["ITEMS"], ["PLUS", "NAME"], ["LSQB", "par", "RSQB"]],
    "par": [["ser"], ["par", "COMMA", "ser"]],
    "ser": [["el"], ["ser", "conn", "el"]],
    "conn": [["DOT"], ["COLON"]],
}


def ref_formula(toks, L):
    """derives[(sym, i, j)]: z3 Bool - symbol sym derives tokens i..j-1"""
    memo = {}

    def d(sym, i, j):
        key = (sym, i, j)
        if key in memo:
            return memo[key]
        if sym in CODE:
            r = (toks[i] == CODE[sym]) if j == i + 1 else z3.BoolVal(False)
            memo[key] = r
            return r
        memo[key] = z3.BoolVal(False)          # left recursion guard (span does not shrink): handled by the split below
        alts = []
        for prod in G[sym]:
            alts.append(seq(prod, i, j, sym))
        r = z3.Or(*alts) if alts else z3.BoolVal(False)
        memo[key] = r
        return r

    def seq(prod, i, j, lhs):
        if len(prod) == 1:
            if prod[0] == lhs:
                return z3.BoolVal(False)
            return d(prod[0], i, j)
        if j - i < len(prod):
            return z3.BoolVal(False)
        first, rest = prod[0], prod[1:]
        outs = []
        # every symbol derives at least one token
        for k in range(i + 1, j - len(rest) + 1):
            a = d(first, i, k)
            b = seq(rest, k, j, None)
            outs.append(z3.And(a, b))
        return z3.Or(*outs) if outs else z3.BoolVal(False)

    return lambda n: d("start", 0, n) if n > 0 else z3.BoolVal(False)


# ---- concrete reference parser (same grammar) producing the denotation --------------------------------------------
class RefParser:
    def __init__(self, toks, names):
        self.t, self.names, self.p = toks, names, 0

    def peek(self):
        return self.t[self.p] if self.p < len(self.t) else END

    def eat(self, k):
        if self.peek() != k:
            raise SyntaxError(k)
        self.p += 1

    def parse(self):
        r = self.par(True)
        if self.p != len(self.t):
            raise SyntaxError("trailing")
        return r

    def par(self, terminal):
        branches = [self.ser(terminal)]
        while self.peek() == "COMMA":
            self.eat("COMMA")
            branches.append(self.ser(terminal))
        return ("par", branches)

    def ser(self, terminal):
        items = [self.el(terminal)]
        conns = []
        while self.peek() in ("DOT", "COLON"):
            if items[-1][0] == "star" or items[-1][0] == "tpar":
                raise SyntaxError("connector after terminal-only element")
            conns.append(self.peek())
            self.p += 1
            items.append(self.el(terminal))
        return ("ser", items, conns)

    def el(self, terminal):
        k = self.peek()
        if k == "NAME":
            self.p += 1
            return ("trait", self.names[self.p - 1])
        if k == "ITEMS":
            self.p += 1
            return ("items",)
        if k == "PLUS":
            self.p += 1
            self.eat("NAME")
            return ("meta", self.names[self.p - 1])
        if k == "STAR":
            if not terminal:
                raise SyntaxError("star")
            self.p += 1
            return ("star",)
        if k == "LSQB":
            self.p += 1
            save = self.p
            # a bracket group is an ordinary element if it contains no '*', otherwise terminal-only
            inner = self.par(terminal)
            self.eat("RSQB")
            has_star = "STAR" in self.t[save:self.p]
            return ("tpar" if has_star else "gpar", inner)
        raise SyntaxError(k)


def denote(tree, last_notify=True):
    """set of paths; a path is a tuple of steps (kind, name, notify)"""
    kind = tree[0]
    if kind == "par":
        out = set()
        for b in tree[1]:
            out |= denote(b, last_notify)
        return out
    if kind == "ser":
        items, conns = tree[1], tree[2]
        paths = {()}
        for idx, it in enumerate(items):
            nf = last_notify if idx == len(items) - 1 else (conns[idx] == "DOT")
            nxt = denote(it, nf)
            paths = {p + q for p in paths for q in nxt}
        return paths
    if kind == "trait":
        return {(("trait", tree[1], last_notify, False),)}
    if kind == "meta":
        return {(("meta", tree[1], last_notify),)}
    if kind == "star":
        return {(("any", None, last_notify),)}
    if kind == "items":
        return {(("trait", "items", last_notify, True),), (("dict_items", None, last_notify, True),),
                (("list_items", None, last_notify, True),), (("set_items", None, last_notify, True),)}
    if kind in ("gpar", "tpar"):
        return denote(tree[1], last_notify)
    raise AssertionError(kind)


def graph_paths(graphs):
    out = set()

    def step(node):
        tn = type(node).__name__
        if tn == "NamedTraitObserver":
            return ("trait", node.name, node.notify, node.optional)
        if tn == "DictItemObserver":
            return ("dict_items", None, node.notify, node.optional)
        if tn == "ListItemObserver":
            return ("list_items", None, node.notify, node.optional)
        if tn == "SetItemObserver":
            return ("set_items", None, node.notify, node.optional)
        if tn == "FilteredTraitObserver":
            f = node.filter
            if type(f).__name__ == "MetadataFilter":
                return ("meta", f.metadata_name, node.notify)
            return ("any", None, node.notify)
        return ("?", tn)

    def walk(g, prefix):
        p = prefix + (step(g.node),)
        if not g.children:
            out.add(p)
        for c in g.children:
            walk(c, p)
    for g in graphs:
        walk(g, ())
    return out


SPELL = ["a", "b1", "items_", "itemsize", "_", "name", "c", "caf\u00e9", "gr\u00f6\u00dfe2"]      # the documented NAME rule is \\w-based: not ASCII only
WHITESPACE = [" ", "  ", "\t", "\n", "\r\n", "\x0c", " \r"]                                        # every character the grammar ignores
TEXT = {"ITEMS": "items", "PLUS": "+", "STAR": "*", "DOT": ".", "COLON": ":", "COMMA": ",", "LSQB": "[", "RSQB": "]"}


def render(kinds, rng, ws=True, brackets=False, same=False):
    names = []
    parts = []
    for k in kinds:
        if k == "NAME":
            nm = "a" if same is True else SPELL[rng.randrange(len(SPELL))]
            if same == "kw" and names and parts and parts[-1] == "+":
                nm = "items"            # after '+' only a NAME can follow: 'items' is an ordinary metadata name there
            names.append(nm)
            parts.append(nm)
        else:
            names.append(None)
            parts.append(TEXT[k])
    out = ""
    for i, p in enumerate(parts):
        if i and (kinds[i - 1] in ("NAME", "ITEMS") and kinds[i] in ("NAME", "ITEMS")):
            out += " "
        elif ws and rng.random() < 0.3:
            out += WHITESPACE[rng.randrange(len(WHITESPACE))]
        out += p
    if ws and rng.random() < 0.3:
        out = WHITESPACE[rng.randrange(len(WHITESPACE))] + out + WHITESPACE[rng.randrange(len(WHITESPACE))]
    return out, names


class Tables:
    """the LALR tables of the current generated parser"""

    def __init__(self):
        pp = gp.DATA["parser"]["parser"]
        self.tokname = dict(pp["tokens"])
        self.tokid = {v: k for k, v in self.tokname.items()}
        self.states = pp["states"]
        self.start = pp["start_states"]["start"]
        self.end = pp["end_states"]["start"]
        self.rules = {}
        for idx, m in gp.MEMO.items():
            if m.get("__type__") == "Rule":
                self.rules[idx] = (str(m["origin"]["name"]), len(m["expansion"]))


def run_tables(T, next_token):
    """LALR driver; next_token(row_terminal_names) -> terminal name chosen among the row's, END, or None (= any other)"""
    stack = [T.start]
    ntok = 0
    while True:
        row = T.states[stack[-1]]
        names = [T.tokname[k] for k in row if T.tokname[k].isupper() or T.tokname[k] == END]
        tok = next_token(ntok, names)
        if tok is None:
            return False, ntok
        is_end = tok == END
        while True:
            row = T.states[stack[-1]]
            tid = T.tokid[tok]
            if tid not in row:
                return False, ntok
            act, arg = row[tid]
            if act == 0:
                stack.append(arg)
                break
            origin, size = T.rules[arg["@"]]
            if size:
                del stack[-size:]
            _a, new_state = T.states[stack[-1]][T.tokid[origin]]
            stack.append(new_state)
            if is_end and stack[-1] == T.end:
                return True, ntok
        ntok += 1


def _api_handler(event):
    pass


_FX = {}


def _fixtures():
    """objects for the API-level checks: one whose wildcard admits every name, one with a fixed set of plain traits"""
    if not _FX:
        from traits.api import HasTraits, Any
        _FX["open"] = type("FxOpen", (HasTraits,), {"_": Any})
        _FX["closed"] = type("FxClosed", (HasTraits,), {n_: Any for n_ in ("a", "b1", "itemsize", "name", "c")})
    return _FX["open"], _FX["closed"]


def api_checks(ex, kinds, text, names, real_ok):
    """the entry points users actually call - compile_str, the list form of an expression, HasTraits.observe - agree with parse()"""
    from traits.has_traits import _compile_expression
    from traits.observation.exceptions import NotifierNotFound
    FxOpen, FxClosed = _fixtures()
    if not real_ok:
        for label, call in (("compile_str", lambda: parsing.compile_str(text)),
                            ("HasTraits.observe", lambda: FxOpen().observe(_api_handler, text)),
                            ("the list form", lambda: _compile_expression([text]))):
            try:
                call()
                rejected = False
            except ValueError:
                rejected = True
            ex.check(rejected, "a string outside the grammar is rejected with ValueError by every entry point (%s)" % label)
        return
    try:
        alone = list(parsing.compile_str(text))
    except ValueError:
        return                      # reported by the caller ('an accepted string compiles')
    for a_, n_ in zip(kinds, names[1:]):
        if a_ == "PLUS" and n_ is not None:
            metadata_semantics(ex, n_)
    if "STAR" in kinds:
        star_semantics(ex)
    if "ITEMS" in kinds:
        items_semantics(ex)
    _compile_expression([text, "zz9"])
    _compile_expression([text, text])
    again = list(parsing.compile_str(text))
    ex.check(again == alone, "compiling is pure: using a string in a list-form expression does not change what the string alone denotes")
    if not all(n_ is None or n_ in ("a", "b1", "itemsize", "name", "c") for n_ in names):
        return                      # the fixture declares these names only (the others in the pool spell wildcard declarations)
    o = FxClosed()
    try:
        o.observe(_api_handler, text)
        registered = True
    except Exception as e:
        registered = False
    ex.check(registered, "HasTraits.observe accepts every grammatical string over declared names ('items' being the optional items "
                         "keyword, not a mandatory trait named items)")
    if registered:
        other = " ".join(text.split()) if "STAR" in kinds else "[ " + text + " ]"
        try:
            o.observe(_api_handler, other, remove=True)
            removed = True
        except NotifierNotFound:
            removed = False
        ex.check(removed, "removal by an equivalent spelling matches registration by text")
        try:
            o.observe(_api_handler, text, remove=True)
            twice = True
        except NotifierNotFound:
            twice = False
        ex.check(not twice, "... exactly once")


_META = {}


def metadata_semantics(ex, n):
    """'+n' observes exactly the traits whose metadata n is defined and not None - falsy values included"""
    from traits.api import HasTraits, Any
    if n not in _META:
        _META[n] = type("FxMeta_" + n, (HasTraits,), {
            "m_true": Any(**{n: True}), "m_zero": Any(**{n: 0}), "m_empty": Any(**{n: ""}), "m_false": Any(**{n: False}),
            "m_str": Any(**{n: "x"}), "m_none": Any(**{n: None}), "m_absent": Any(), "m_other": Any(**{n + "x": True})})
    o = _META[n]()
    seen = []
    o.observe(lambda e: seen.append(e.name), "+" + n)
    for t in ("m_absent", "m_zero", "m_none", "m_true", "m_empty", "m_other", "m_false", "m_str"):
        setattr(o, t, 5)
    ex.check(seen == ["m_zero", "m_true", "m_empty", "m_false", "m_str"],
             "'+name' observes exactly the traits on which that metadata is defined and not None (falsy values included)")
    o.add_trait("late", Any(**{n: 0}))
    o.late = 1
    ex.check(seen[-1:] == ["late"], "... including a matching trait added later")
    # a connector after '+name' continues on the matched traits' VALUES exactly as after a name: also on a default created after
    # the registration and on an equal object assigned later
    from traits.api import Instance, Int
    if "leaf" not in _META:
        class FxLeaf(HasTraits):
            value = Int()

            def __eq__(self, other):
                return isinstance(other, FxLeaf) and self.value == other.value

            def __hash__(self):
                return hash(self.value)
        _META["leaf"] = FxLeaf
    FxLeaf = _META["leaf"]
    key = ("nested", n)
    if key not in _META:
        _META[key] = type("FxMetaNested_" + n, (HasTraits,), {"kid": Instance(FxLeaf, (), **{n: True}), "plain": Instance(FxLeaf, ())})
    for conn in (".", ":"):
        p = _META[key]()
        got = []
        p.observe(lambda e: got.append((e.object, e.name, e.new)), "+" + n + conn + "value")
        p.kid.value = 3             # the first access creates the default
        p.plain.value = 9
        old = p.kid
        new = FxLeaf(value=3)
        p.kid = new                 # equal, distinct
        new.value = 4
        old.value = 5
        nested = [g for g in got if g[1] == "value"]
        ex.check(len(nested) == 2 and nested[0][0] is old and nested[0][2] == 3 and nested[1][0] is new and nested[1][2] == 4,
                 "'+name' followed by a connector continues on the values of the matched traits as a name would (a default created "
                 "later, an equal object assigned later)")


def items_semantics(ex):
    """'items' also stands for a trait NAMED items - one that is added after the registration included - and what follows it in
    the expression continues on that trait's value"""
    from traits.api import HasTraits, Instance, Int
    if "leaf" not in _META:
        metadata_semantics(ex, "vtmeta")          # (creates the leaf fixture)
    FxLeaf = _META["leaf"]
    if "items-owner" not in _META:
        _META["items-owner"] = type("FxItemsOwner", (HasTraits,), {"box": Instance(HasTraits)})
    for expr, via_box in (("items.value", False), ("items:value", False), ("box:items:value", True)):
        o = _META["items-owner"]()
        target = o
        if via_box:
            target = _META["items-owner"]()
            o.box = target
        got = []
        o.observe(lambda e: got.append((e.name, e.new)), expr)
        target.add_trait("items", Instance(FxLeaf))
        leaf = FxLeaf(value=1)
        target.items = leaf
        leaf.value = 7
        ex.check(("value", 7) in got, "'items' followed by a connector continues on the value of a trait named items that was added later")
        try:
            o.observe(lambda e: None, expr, remove=True)
            odd = True
        except Exception:
            odd = False             # (another handler: NotifierNotFound is right)
        ex.check(not odd, "removal matches registrations by handler")


def star_semantics(ex):
    """'*' observes every trait of the object, whatever it is called - a trait literally named like an items event included"""
    from traits.api import HasTraits, Any, List, Int
    if "star" not in _META:
        _META["star"] = type("FxStar", (HasTraits,), {"plain": Any, "line_items": Any, "kids": List(Int), "_under": Any, "x_": Any})
    o = _META["star"]()
    seen = []
    o.observe(lambda e: seen.append(e.name), "*")
    o.plain = 1
    o.line_items = 2
    o.kids = [1]
    o._under = 3
    ex.check(seen == ["plain", "line_items", "kids", "_under"], "'*' observes every trait of the object whatever its name (also one named like "
                                                                "an items event or starting with an underscore)")
    o.add_trait("more_items", Any())
    o.more_items = 5
    ex.check(seen[-1:] == ["more_items"], "... including a trait added later")


_SEEN = []       # (denotation, expression, graphs, text) of strings met earlier in this worker process


def concrete_text(ex, kinds, text, names):
    try:
        tree = RefParser(kinds, names).parse() if kinds else None
        ref_ok = tree is not None
    except SyntaxError:
        ref_ok, tree = False, None
    parsing.parse.cache_clear()
    parsing.compile_str.cache_clear()
    try:
        expr = parsing.parse(text)
        real_ok = True
    except ValueError:
        real_ok, expr = False, None
    if real_ok:
        ex.check(ref_ok, "a sequence accepted by the parser tables is generated by the documented grammar")
    else:
        ex.check(not ref_ok, "no completion of a prefix rejected by the parser tables is generated by the documented grammar")
    if real_ok and ref_ok:
        want = denote(tree)
        try:
            graphs = expr._as_graphs()
        except ValueError:
            # graph construction is what compile_str does first
            ex.check(False, "an accepted string compiles to observer graphs")
            return real_ok
        got = graph_paths(graphs)
        ex.check(got == want, "parse(text) denotes the documented set of observed paths and notify flags")
        again = parsing.parse(text)
        ex.check(again == expr and hash(again) == hash(expr), "parsing the same string twice gives equal patterns")
        # patterns of strings that denote different things are unequal: compare with the strings met earlier in this process
        for w2, e2, g2, t2 in _SEEN[-40:]:
            if w2 != want:      # (the converse is only claimed for the equivalences checked above: brackets, whitespace)
                ex.check(e2 != expr and not (e2 == expr), "strings with different meanings give unequal patterns")
                ex.check(g2 != graphs, "... and unequal observer graphs (removal by text must not match another registration)")
        if not any(t2 == text for _w, _e, _g, t2 in _SEEN[-40:]):
            _SEEN.append((want, expr, graphs, text))
            del _SEEN[:-60]
        squeezed = " ".join(text.split())
        ex.check(parsing.parse(squeezed) == expr, "other whitespace denotes the same pattern")
        if "STAR" not in kinds:
            ex.check(parsing.parse("[" + text + "]") == expr,
                     "an extra pair of brackets around the whole expression denotes the same pattern")
        try:
            parsing.compile_str(text)
            comp = True
        except ValueError:
            comp = False
        ex.check(comp, "an accepted string compiles to observer graphs")
    if real_ok == ref_ok:
        api_checks(ex, kinds, text, names, real_ok)
    return real_ok


def token_harness(L, first):
    """`first` (kind of the first token, or END for the empty sequence) only spreads the work over the pool"""
    def harness(ex):
        T = Tables()
        if ex.sym:
            toks = [z3.BitVec("t%d" % i, 8) for i in range(L)]
            for i, t in enumerate(toks):
                ex._decl("t%d" % i, t, "bv")
                ex._add(z3.ULT(t, len(TERMINALS)))
            n = z3.BitVec("len", 8)
            ex._decl("len", n, "bv")
            ex._add(z3.ULE(n, L))
            ex._add(n == 0 if first == END else z3.And(n != 0, toks[0] == CODE[first]))
            ex.cur_model = None
            accept_n = ref_formula(toks, L)
            ref_accepts = z3.Or(*[z3.And(n == k, accept_n(k)) for k in range(0, L + 1)])
            chosen = []

            def next_token(i, names):
                if i > L:
                    return None
                if i == L or ex.decide(n == i):
                    chosen.append(END)
                    return END
                for nm in names:
                    if nm != END and ex.decide(toks[i] == CODE[nm]):
                        chosen.append(nm)
                        return nm
                chosen.append(None)
                return None          # any token outside the row: one rejecting class

            ok, used = run_tables(T, next_token)
            if ok:
                ex.check(ref_accepts, "a sequence accepted by the parser tables is generated by the documented grammar")
            else:
                ex.check(z3.Not(ref_accepts),
                         "no completion of a prefix rejected by the parser tables is generated by the documented grammar")
            return {"accepted": ok}
        # ---- concrete: the real parse() on rendered strings (random spellings, and all names equal) ----
        kinds = [TERMINALS[ex.values.get("t%d" % i, 0)] for i in range(ex.values.get("len", 0))]
        rng = random.Random(hash((tuple(kinds), ex.values.get("__seed__", 0))) & 0xFFFFFFFF)
        real_ok = None
        spellings = (False, True) + (("kw",) if any(a == "PLUS" and b == "NAME" for a, b in zip(kinds, kinds[1:])) else ())
        for same in spellings:
            text, names = render(kinds, rng, same=same)
            r = concrete_text(ex, kinds, text, names)
            real_ok = r if real_ok is None else real_ok
        return {"accepted": real_ok}

    return harness


DER_NAMES = ["b", "c", "d"]


def derivation_harness(pos, length):
    """longer derivations than the token bound reaches, drawn from the documented grammar by symbolic choices: a series of
    `length` elements whose element `pos` is a group of two alternatives, each a name optionally continued by a connector and
    another name (choice feasibility only; the rendered string goes through the real parse/compile and the reference denotation)"""
    def harness(ex):
        def alt(tag):
            out = [("NAME", DER_NAMES[ex.choice(tag + "_n0", 2)])]
            if ex.flag(tag + "_continued"):
                out.append(("COLON" if ex.flag(tag + "_colon") else "DOT", None))
                out.append((("NAME", DER_NAMES[1 + ex.choice(tag + "_n1", 2)]) if not ex.flag(tag + "_items") else ("ITEMS", None)))
            return out
        a1, a2 = alt("alt1"), alt("alt2")
        if a1 == a2:
            return {"skipped": "identical alternatives (the duplicate-branch finding is reported by the token obligations)"}
        toks = []
        for i in range(length):
            if i:
                toks.append(("COLON" if ex.flag("conn%d_colon" % i) else "DOT", None))
            if i == pos:
                toks += [("LSQB", None)] + a1 + [("COMMA", None)] + a2 + [("RSQB", None)]
            else:
                toks.append(("NAME", "ae"[i % 2]))
        kinds = [k for k, _n in toks]
        names = [n for _k, n in toks]
        text = "".join(n if k == "NAME" else TEXT[k] for k, n in toks)
        if ex.flag("spaced"):
            text = " ".join(n if k == "NAME" else TEXT[k] for k, n in toks)
        ok = concrete_text(ex, kinds, text, names)
        ex.check(ok, "a string generated by the documented grammar is accepted")
        return {"text": text}
    return harness


def star_in_brackets(v):
    depth = 0
    for i in range(v.get("len", 0)):
        k = TERMINALS[v.get("t%d" % i, 0)]
        if k == "LSQB":
            depth += 1
        elif k == "RSQB":
            depth -= 1
        elif k == "STAR" and depth > 0:
            return True
    return False


def duplicate_branch(v):
    kinds = [TERMINALS[v.get("t%d" % i, 0)] for i in range(v.get("len", 0))]
    return "COMMA" in kinds


KNOWN_HELPERS = {"c15_star_in_brackets": star_in_brackets, "c15_has_comma": duplicate_branch}


def obligations(tier, build):
    L = 6 if tier == "quick" else 8
    return [Obligation("tokens/L=%d/first=%s" % (L, f), token_harness(L, f), stubs=STUBS,
                       bounds={"token sequence length": "<= %d" % L, "token kinds": TERMINALS,
                               "witness spellings": SPELL, "whitespace": "random, seeded"},
                       leverage="the remaining tokens and the length on every rejected prefix (universal), token identity on accepted ones",
                       max_paths=200000, path_wall_s=60, query_timeout_ms=60000, witness_violations=True)
            for f in TERMINALS + [END]] + [
        Obligation("derivation/len=%d/group-at=%d" % (n, p), derivation_harness(p, n), stubs=STUBS,
                   bounds={"shape": "series of %d elements, element %d a group of two alternatives of <= 3 tokens each (9 to 15 tokens)" % (n, p),
                           "names": DER_NAMES + ["a", "e"]},
                   leverage="choice feasibility only: each derivation is one path; the deciding comparison is the reference denotation "
                            "against the graphs the real compile_str builds",
                   max_paths=20000, path_wall_s=60, query_timeout_ms=60000)
        for n in ((1, 2, 3) if tier != "quick" else (1, 2)) for p in range(n)]
