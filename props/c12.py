"""C12 - observed / cached properties are never stale and announce dependency changes.

Bounded exploration (through the symbolic explorer; list positions symbolic) of dependency-mutation histories interleaved with
reads, on the original object, on an unpickled copy and on a clone.  Oracle: every read equals an independent recomputation
from the current state; a cached getter runs at most once between two relevant changes however often the property is read;
every dependency change that alters the computed value delivers exactly one change notification for the property.
The code under test has no arithmetic: the solver contributes list indices and choice feasibility only.
"""
import pickle

from vt import symx
from vt.oblig import Obligation
import props._graphs as G

from traits.api import HasTraits, Int, Str, List, Dict, Instance, Any, Property, cached_property, push_exception_handler, pop_exception_handler

LEVEL = "model_checking"
ENCODED = [("traits/has_traits.py", ["cached_property", "HasTraits._init_trait_property_listener", "HasTraits.__setstate__",
                                     "HasTraits.clone_traits"]),
           ("traits/observation/_list_item_observer.py", ["ListItemObserver.iter_objects"]),
           ("traits/observation/_has_traits_helpers.py", ["observer_change_handler"])]
EXPLANATION = ("Bounded exploration of dependency-mutation histories interleaved with reads on original / unpickled / cloned objects; "
               "oracle = recomputation from current state, getter call counter, property notifications. Solver leverage: list indices "
               "and choice feasibility only.")
STUBS = G.c04.STUBS
ASSUMPTIONS = ["k <= 3 (quick) / 4 (thorough) steps", "dependencies: scalar, Instance path, list items with duplicates, dict items"]

GETTER_CALLS = {"n": 0}


class Item(HasTraits):
    value = Int(1)


SHARED = Item(value=1000)


from traits.constants import ComparisonMode


class VItem(HasTraits):
    """a value object: equal when the values are equal"""
    value = Int(1)

    def __eq__(self, other):
        return isinstance(other, VItem) and self.value == other.value

    def __ne__(self, other):
        return not self.__eq__(other)

    def __hash__(self):
        return 5


class Box(HasTraits):
    """its traits carrying `component` metadata are summed by Holder.boxsum; more of them are ADDED to instances"""
    comp_a = Instance(Item, component=True)
    other = Instance(Item)


def mk_box(step):
    b = Box(comp_a=Item(value=10 + step), other=Item(value=500))
    b.add_trait("extra", Instance(Item, component=True))       # exists, with a value, before the box is hooked up
    b.extra = Item(value=20 + step)
    return b


def box_sum(box):
    if box is None:
        return 0
    return sum(v.value for v in box.trait_get(component=True).values() if v is not None)


class HolderBase(HasTraits):
    """declares a property with a PLAIN getter; the subclass in use overrides the getter with a cached one"""
    base = Int(1)
    sub_p = Property(Int, observe="base")
    sup_p = Property(Int, observe="base")       # the other way round: cached here, overridden by a plain getter that calls this one

    def _get_sub_p(self):
        return self.base * 5

    @cached_property
    def _get_sup_p(self):
        return self.base * 7


class Holder(HolderBase):
    """module level (picklable)"""
    child = Instance(Item)
    kids = List(Instance(Item))
    table = Dict(Str, Int)
    parts = Dict(Str, Instance(Item))
    config = Instance(Item, SHARED)                               # a CONSTANT default that is an observable object, never assigned
    total = Property(Int, observe="kids.items.value")            # name starts with 't'
    echo = Property(Int, observe="child.value")
    size = Property(Int, observe="table.items")
    plain = Property(Int, observe="base")                        # not cached
    weight = Property(Int, observe="parts.items.value")
    scaled = Property(Int, observe="config.value")
    ident_dep = Any(1, comparison_mode=ComparisonMode.identity)     # every NEW object is a change, equal or not
    ident_p = Property(Str, observe="ident_dep")
    box = Instance(Box)
    boxsum = Property(Int, observe="box.+component.value")        # through a metadata filter one level down
    s0 = Int(1, slot=0)                                           # metadata defined but falsy: still selected by '+slot'
    s1 = Int(2, slot=1)
    s_none = Int(4, slot=None)                                    # not selected
    slots = Property(Int, observe="+slot")
    point = Instance(VItem)                                       # a dependency whose values compare by content
    px = Property(Int, observe="point.value")
    members = __import__("traits.api", fromlist=["Set"]).Set(Instance(Item))
    mtotal = Property(Int, observe="members.items.value")

    @cached_property
    def _get_slots(self):
        return self.s0 * 100 + self.s1

    @cached_property
    def _get_px(self):
        return self.point.value if self.point is not None else -1

    @cached_property
    def _get_mtotal(self):
        return sum(m.value for m in self.members)

    def _get_sup_p(self):
        return super()._get_sup_p() + 1

    @cached_property
    def _get_boxsum(self):
        return box_sum(self.box)

    @cached_property
    def _get_ident_p(self):
        return type(self.ident_dep).__name__

    @cached_property
    def _get_sub_p(self):
        return self.base * 5

    @cached_property
    def _get_weight(self):
        return sum(p.value for p in self.parts.values())

    @cached_property
    def _get_scaled(self):
        return self.config.value * 2

    @cached_property
    def _get_total(self):
        GETTER_CALLS["n"] += 1
        return sum(k.value for k in self.kids)

    @cached_property
    def _get_echo(self):
        return self.child.value if self.child is not None else -1

    @cached_property
    def _get_size(self):
        return sum(self.table.values())

    def _get_plain(self):
        return self.base * 3



def recompute(h):
    return {"total": sum(k.value for k in h.kids), "echo": h.child.value if h.child is not None else -1,
            "size": sum(h.table.values()), "plain": h.base * 3, "weight": sum(p.value for p in h.parts.values()),
            "scaled": h.config.value * 2, "ident_p": type(h.ident_dep).__name__, "sub_p": h.base * 5, "sup_p": h.base * 7 + 1,
            "boxsum": box_sum(h.box), "slots": h.s0 * 100 + h.s1, "px": h.point.value if h.point is not None else -1,
            "mtotal": sum(m.value for m in h.members)}


PROPS = ("total", "echo", "size", "plain", "weight", "scaled", "ident_p", "sub_p", "sup_p", "boxsum", "slots", "px", "mtotal")
OPS = ["read", "kid_value", "append", "insert_dup", "del", "slice_dup", "remove_first", "child=", "child_value", "table_set",
       "table_del", "base", "sort_reverse", "assign_dup_list", "pop", "part_same", "part_update_same", "part_value", "part_new",
       "shared_value", "config=", "config_value", "del_kids", "del_child", "del_parts", "del_config", "ident=1.0", "ident=True",
       "part_repeated_key", "box=", "box_extra_value", "box_a_value", "box_add_later",
       "s0", "s_none", "point=equal", "point_value", "members_symdiff", "member_value"]


CORE_OPS = ["kid_value", "append", "insert_dup", "del", "slice_dup", "pop", "assign_dup_list", "part_same", "part_value", "del_kids"]


def harness_factory(variant, k, first=None, ops=None):
    """first: the first operation, fixed per obligation instance only to spread the work over the process pool"""
    def harness(ex):
        errors = []
        push_exception_handler(lambda *a: errors.append(a), reraise_exceptions=False)
        try:
            return body(ex, errors)
        finally:
            pop_exception_handler()

    def body(ex, errors):
        a = Item(value=2)
        dup_start = variant != "original" or ex.flag("kids_start_with_a_duplicate")      # copies re-hook whole containers: always with a repeated item
        h = Holder(child=Item(value=5), kids=[a, a, Item(value=3)] if dup_start else [a, Item(value=3)], table={"x": 1},
                   parts={"p": Item(value=4), "q": Item(value=6)}, point=VItem(value=1), members={Item(value=11), Item(value=12)})
        h.total, h.echo, h.size, h.weight          # warm the caches before copying (scaled / config stay untouched on purpose)
        if variant == "unpickled":
            h = pickle.loads(pickle.dumps(h))
        elif variant == "clone":
            h = h.clone_traits()
        a = h.kids[0]
        notes = []
        if variant == "original" and ex.flag("only_an_unnamed_object_level_listener"):
            h.on_trait_change(lambda obj, name, old, new: notes.append((name, new)) if name in PROPS else None)
        else:
            for pname in PROPS:
                h.on_trait_change(lambda name, new: notes.append((name, new)), pname)
        trace = []
        for step in range(k):
            pool_ = ops or OPS
            op = first if (step == 0 and first is not None) else pool_[ex.choice("op%d" % step, len(pool_))]
            before = recompute(h)
            notes.clear()
            n = len(h.kids)
            try:
                if op == "read":
                    g0 = GETTER_CALLS["n"]
                    h.total
                    g1 = GETTER_CALLS["n"]
                    h.total
                    h.total
                    ex.check(GETTER_CALLS["n"] == g1, "a cached getter runs at most once between relevant changes however often it is read")
                elif op == "kid_value":
                    if n:
                        h.kids[-1].value += 4
                elif op == "append":
                    h.kids.append(Item(value=7))
                elif op == "insert_dup":
                    if n:
                        try:
                            h.kids.insert(ex.int("i%d" % step), h.kids[0])
                        except OverflowError:
                            pass                # beyond a C ssize_t: refused, as by the built-in list
                elif op == "del":
                    try:
                        del h.kids[ex.int("i%d" % step)]
                    except IndexError:
                        pass
                elif op == "slice_dup":
                    if n:
                        h.kids[0:1] = [h.kids[0], h.kids[0]]           # one occurrence replaced by two of the same object
                elif op == "remove_first":
                    if n:
                        h.kids.remove(h.kids[0])
                elif op == "child=":
                    h.child = Item(value=20 + step)
                elif op == "child_value":
                    if h.child is not None:
                        h.child.value += 1
                elif op == "table_set":
                    h.table["k%d" % step] = 10 + step
                elif op == "table_del":
                    h.table.pop("x", None)
                elif op == "base":
                    h.base += 1
                elif op == "sort_reverse":
                    h.kids.reverse()
                elif op == "assign_dup_list":
                    if n:
                        h.kids = [h.kids[0], h.kids[0], Item(value=9)]      # hooked up as a whole, with a repeated item
                elif op == "pop":
                    if n:
                        h.kids.pop(0)
                elif op == "part_same":
                    if "p" in h.parts:
                        h.parts["p"] = h.parts["p"]              # the same object under its key again
                elif op == "part_update_same":
                    h.parts.update(dict(h.parts))
                elif op == "part_value":
                    if "p" in h.parts:
                        h.parts["p"].value += 3
                elif op == "part_new":
                    h.parts["p"] = Item(value=30 + step)
                elif op == "part_repeated_key":
                    # one update() naming a new key twice: the LAST value is stored, and is the one to follow
                    h.parts.update([("r%d" % step, Item(value=1)), ("r%d" % step, Item(value=2))])
                    h.parts["r%d" % step].value += 5
                elif op == "box=":
                    h.box = mk_box(step)
                elif op == "box_extra_value":
                    if h.box is not None and "extra" in h.box.trait_names():
                        h.box.extra.value += 1
                elif op == "box_a_value":
                    if h.box is not None:
                        h.box.comp_a.value += 1
                        h.box.other.value += 1           # not a component: irrelevant
                elif op == "box_add_later":
                    if h.box is not None and "late" not in h.box.trait_names():
                        h.box.add_trait("late", Instance(Item, component=True))
                        h.box.late = Item(value=40 + step)
                        h.box.late.value += 1
                elif op == "s0":
                    h.s0 += 1
                elif op == "s_none":
                    h.s_none += 1
                elif op == "point=equal":
                    # a distinct object that compares equal to the one it replaces (or the first one): the observers follow it
                    h.point = VItem(value=h.point.value if h.point is not None else 1)
                elif op == "point_value":
                    if h.point is not None:
                        h.point.value += 1
                elif op == "members_symdiff":
                    keep = sorted(h.members, key=lambda m: m.value)[:1]
                    h.members.symmetric_difference_update(set(keep) | {Item(value=40 + step)})     # one goes, one comes
                elif op == "member_value":
                    for m in list(h.members)[:1]:
                        m.value += 7
                elif op == "shared_value":
                    SHARED.value += 1                            # relevant while config is still the (never assigned) default
                elif op == "config=":
                    h.config = Item(value=50 + step)
                elif op == "config_value":
                    h.config.value += 1
                elif op == "ident=1.0":
                    h.ident_dep = 1.0                # equal to 1 and to True, another object of another type
                elif op == "ident=True":
                    h.ident_dep = True
                elif op in ("del_kids", "del_child", "del_parts", "del_config"):
                    delattr(h, op[4:])               # back to the default (announced once; the dependants follow)
            except symx.PathAbort:
                raise
            except Exception as e:
                ex.check(False, "an operation on a healthy object does not raise (%s)" % type(e).__name__)
                return {"trace": trace + [op]}
            trace.append(op)
            # the first kid (possibly removed meanwhile) changes: the result must follow iff it is still in the list
            if op in ("slice_dup", "remove_first", "insert_dup", "del", "pop", "assign_dup_list") and a is not None:
                a.value += 1
            after = recompute(h)
            for pname in PROPS:
                ex.check(getattr(h, pname) == after[pname], "a read equals what the getter computes from the current state (%s)" % pname)
            for pname in PROPS:
                got = [x for x in notes if x[0] == pname]
                if before[pname] != after[pname]:
                    ex.check(len(got) >= 1 and got[-1][1] == after[pname],
                             "a dependency change that alters the value delivers a change notification for the property (%s)" % pname)
            ex.check(errors == [], "no getter or observer raised")
        return {"trace": trace}

    return harness


def obligations(tier, build):
    obs = []
    K = 2 if tier == "quick" else 3
    # quick: every operation, k=2, three object variants.  thorough: the same, plus k=3 over the 10 container-related operations on
    # the original object (26**3 histories x the index forks x 3 variants did not finish within the hour; 14 operations x 3
    # variants took 36 minutes)
    plans = [(2, OPS, ("original", "unpickled", "clone"))] + ([(3, CORE_OPS, ("original",))] if tier != "quick" else [])
    for K, pool_, variants in plans:
     for variant in variants:
      for first in pool_:
        obs.append(Obligation("stale/%s/k=%d/first=%s" % (variant, K, first), harness_factory(variant, K, first, pool_), env=G.env, stubs=STUBS,
                              bounds={"history length": K, "operations": pool_, "object": variant, "first operation": first,
                                      "list positions": "unbounded Int"},
                              leverage="list indices; otherwise choice feasibility only", max_paths=100000, path_wall_s=60))
    return obs
