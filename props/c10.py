"""C10 - defaults are per-instance, computed once, silent; instances are isolated.

(A) First reads through the interpreted C path (has_traits_getattro -> getattr_trait -> default_value_for from the clang AST
    of the current ctraits.c, ghost reference counts on) for every default kind the package produces; the default factories,
    _name_default methods and notifier wrappers are the real Python objects.  Oracle: declared default returned, stored in
    __dict__ as the very object returned, no change handler reached, second read returns the same object, the dynamic default
    ran at most once, container defaults are fresh per instance (not the template, not a sibling's), also for the
    'lazy loader' idiom where the default method itself assigns the trait.
(B) Isolation: bounded histories (k<=2/3) of operations on one instance (mutate default containers, register handlers,
    add instance traits, assign) with siblings created before and after; observations on siblings and on the class unchanged.
"""
NEED_AST = True

from vt import symx, csym, cenv
from vt.csym import NULL
from vt.oblig import Obligation
import props.c18 as c18

from traits.api import (HasTraits, Int, Str, Float, List, Dict, Set, Instance, Any, Tuple, Union, Either, Property, TraitError,
                        TraitType, observe, Undefined)

LEVEL = "model_checking"
ENCODED = [("traits/ctraits.c", ["has_traits_getattro", "getattr_trait", "default_value_for", "call_notifiers", "get_trait",
                                 "trait_clone", "call_class"]),
           ("traits/has_traits.py", ["HasTraits.add_trait", "HasTraits._trait", "HasTraits.on_trait_change"]),
           ("traits/trait_types.py", ["BaseTuple.__init__", "BaseTuple._get_default_value", "List.__init__", "Union.__init__"])]
EXPLANATION = ("First-read path interpreted from the C source for every default kind on real objects; sibling-isolation histories are "
               "bounded explorations. The solver contributes path feasibility (choices) only: the objects are heap objects.")
STUBS = c18.STUBS
ASSUMPTIONS = ["allocation failure out of scope"]


class Leaf(HasTraits):
    v = Int(0)


class InitList(TraitType):
    """user-defined trait type whose container default is set in the init() hook"""

    def init(self):
        self.default_value = [1]


class PostDict(TraitType):
    """... or after the base constructor has run"""

    def __init__(self, **metadata):
        super().__init__(**metadata)
        self.default_value = {"p": 1}


import collections
from traits.constants import ComparisonMode


class UList(list):
    """a user-defined list subclass"""


class PostOD(TraitType):
    """custom trait types whose (inferred) default is an instance of a dict / list SUBCLASS"""

    def __init__(self, **metadata):
        super().__init__(**metadata)
        self.default_value = collections.OrderedDict(p=1)


class InitUL(TraitType):
    def init(self):
        self.default_value = UList([1])


TEMPLATE_TUPLE = ([1, 2], 3)        # handed out by a default METHOD: the validated default must not share this list


# one reusable definition object (what Trait(...) returns is a CTrait) used for several attributes and classes
SHARED_DEF = __import__("traits.api", fromlist=["Trait"]).Trait(0.5)


class UsesSharedBefore(HasTraits):
    """created BEFORE the class that attaches a default method and a static handler to one attribute declared with SHARED_DEF"""
    w = SHARED_DEF


def mk_class():
    counters = {}

    class Base(HasTraits):
        c_int = Int(5)
        c_str = Str("dflt")
        l_copy = Any([1, 2])              # list copy default
        d_copy = Any({"a": 1})            # dict copy default
        lst = List(Int, [1, 2, 3])
        dct = Dict(Str, Int, {"k": 1})
        st = Set(Int, {1})
        inst = Instance(Leaf, ())         # callable_and_args
        dyn = Any()                       # _dyn_default method
        tup_c = Tuple(Int, Str)           # constant tuple default
        tup_m = Tuple(Str, List(Int))     # tuple with a container member: must not be shared
        uni = Union(List(Int), Int)       # union whose first member has a container default
        uni_s = Union(Set(Int), Int)
        uni_d = Union(Dict(Str, Int), None)
        uni_n = Union(Union(Set(Int), Str), Int)      # nested
        cust_i = InitList()
        cust_p = PostDict()
        cust_od = PostOD()
        cust_ul = InitUL()
        tup_dyn = Tuple(List(Int), Int)                 # the default method returns one shared template tuple
        cm_none = Any([1], comparison_mode=ComparisonMode.none)     # every assignment is a change - the first read of the default is none
        cm_ident = Int(4, comparison_mode=ComparisonMode.identity)

        def _tup_dyn_default(self):
            return TEMPLATE_TUPLE
        tr_dd = __import__("traits.api", fromlist=["Trait"]).Trait(collections.defaultdict(list, a=[1]), dict)
        od = Any(collections.OrderedDict(a=1))          # dict / list SUBCLASS defaults: copied per instance like plain ones
        cnt = Any(collections.Counter("aab"))
        sh_x = SHARED_DEF                              # two attributes from one definition; only sh_x has a default method / handler
        sh_y = SHARED_DEF

        def _sh_x_default(self):
            return 10.5

        def _sh_x_changed(self, new):
            self.__dict__.setdefault("_sh_calls", []).append(new)
        over = Int(1)
        log = List(Str, transient=True)

        def _dyn_default(self):
            counters["dyn"] = counters.get("dyn", 0) + 1
            return ["dynamic", counters["dyn"]]

        def _anytrait_changed(self, name, old, new):
            if name not in ("log", "log_items", "trait_added"):
                self.__dict__.setdefault("_calls", []).append(name)

    class Lazy(HasTraits):
        # no change handler here: with one attached, the assignment inside the default method needs the old value, i.e. the
        # default, and recurses (a user error, not the library's)
        lazy = List(Int)

        def _lazy_default(self):
            counters["lazy"] = counters.get("lazy", 0) + 1
            value = [7, 8]
            self.lazy = value             # the idiom: the method assigns the trait, then returns the value
            return value

    Base.LazyOwner = Lazy

    class Sub(Base):
        over = Int(2)                     # subclass-overridden default
        c_int = 9

    return Base, Sub, counters


NAMES = ["c_int", "c_str", "l_copy", "d_copy", "lst", "dct", "st", "inst", "dyn", "lazy", "tup_c", "tup_m", "uni", "over",
         "uni_s", "uni_d", "uni_n", "cust_i", "cust_p", "od", "cnt", "sh_x", "sh_y", "cust_od", "cust_ul", "tr_dd", "tup_dyn", "cm_none", "cm_ident"]
FRESH = {"l_copy", "d_copy", "lst", "dct", "st", "inst", "dyn", "lazy", "tup_m", "uni", "uni_s", "uni_d", "uni_n", "cust_i", "cust_p",
         "od", "cnt", "cust_od", "cust_ul", "tr_dd", "tup_dyn", "cm_none"}
EXPECT = {"c_int": 5, "c_str": "dflt", "l_copy": [1, 2], "d_copy": {"a": 1}, "lst": [1, 2, 3], "dct": {"k": 1}, "st": {1},
          "tup_c": (0, ""), "tup_m": ("", []), "uni": [], "over": 1, "lazy": [7, 8],
          "uni_s": set(), "uni_d": {}, "uni_n": set(), "cust_i": [1], "cust_p": {"p": 1},
          "od": collections.OrderedDict(a=1), "cnt": collections.Counter("aab"), "sh_x": 10.5, "sh_y": 0.5,
          "cust_od": collections.OrderedDict(p=1), "cust_ul": [1], "tr_dd": {"a": [1]}, "tup_dyn": ([1, 2], 3), "cm_none": [1], "cm_ident": 4}
# a valid non-default value per kind (reset obligations)
ASSIGN = {"c_int": lambda: 6, "c_str": lambda: "s", "l_copy": lambda: [9], "d_copy": lambda: {"z": 1}, "lst": lambda: [7],
          "dct": lambda: {"q": 2}, "st": lambda: {3}, "inst": lambda: Leaf(v=3), "dyn": lambda: ["mine"], "tup_c": lambda: (1, "a"),
          "tup_m": lambda: ("x", [1]), "uni": lambda: 3, "over": lambda: 5, "uni_s": lambda: 4, "uni_d": lambda: {"k": 1},
          "uni_n": lambda: "s", "cust_i": lambda: [5], "cust_p": lambda: {"q": 1}, "od": lambda: {"z": 2}, "cnt": lambda: {"q": 1},
          "sh_x": lambda: 2.5, "sh_y": lambda: 3.5, "cust_od": lambda: {"q": 1}, "cust_ul": lambda: [5], "tr_dd": lambda: {"z": [2]},
          "tup_dyn": lambda: ([7], 8), "cm_none": lambda: [9], "cm_ident": lambda: 10 ** 6}


def mutable_parts(v):
    """the mutable objects inside a default value (for the sharing check)"""
    if isinstance(v, (list, dict, set)) or isinstance(v, HasTraits):
        return [v]
    if isinstance(v, tuple):
        return [p for x in v for p in mutable_parts(x)]
    return []


def read(ex, it, o, name):
    if ex.sym:
        os_ = cenv.hastraits_struct(it, o)
        it.st.rc.clear()
        with cenv.python_side_env():
            r = it.call("has_traits_getattro", [os_, name])
        if r is NULL:
            e = it.st.err
            it.st.err = None
            return ("raised", e[0].__name__)
        bad = c18.neutral(it, r)
        ex.check(not bad, "first-read path is reference-neutral")
        return ("ok", cenv.finalize(r))
    try:
        return ("ok", getattr(o, name))
    except Exception as e:
        return ("raised", type(e).__name__)


def first_read_harness(name, sub):
    def harness(ex):
        Base, Sub, counters = mk_class()
        cls = Sub if sub else Base
        if name == "lazy":
            cls = Base.LazyOwner
        o, sib = cls(), cls()
        handlers = ex.flag("handlers") and name != "lazy"
        calls = []
        if handlers:
            o.on_trait_change(lambda: calls.append("otc"), name)
            o.observe(lambda e: calls.append("obs"), name)
        it = cenv.new_interp() if ex.sym else None
        r1 = read(ex, it, o, name)
        ex.check(r1[0] == "ok", "first read succeeds")
        if r1[0] != "ok":
            return {"name": name}
        v1 = r1[1]
        want = EXPECT.get(name)
        if sub and name == "over":
            want = 2
        if sub and name == "c_int":
            want = 9
        if name == "dyn":
            ex.check(v1 == ["dynamic", 1], "the _name_default method's result is the default")
        elif name == "inst":
            ex.check(type(v1) is Leaf and v1.v == 0, "the factory result is the default")
        else:
            ex.check(v1 == want, "the declared default is returned")
        ex.check(calls == [] and o.__dict__.get("_calls", []) == [], "the first read of a default reaches no change handler")
        ex.check(name in o.__dict__ and o.__dict__[name] is v1, "the default is stored on the instance as the very object returned")
        r2 = read(ex, it, o, name)
        ex.check(r2[0] == "ok" and r2[1] is v1, "later reads return the same object")
        ex.check(counters.get("dyn", 0) <= 1 and counters.get("lazy", 0) <= 1, "a _name_default method runs at most once per instance and attribute")
        if name in FRESH:
            s1 = read(ex, it, sib, name)
            ex.check(s1[0] == "ok", "sibling read succeeds")
            if s1[0] == "ok":
                mine, theirs = mutable_parts(v1), mutable_parts(s1[1])
                ex.check(all(a is not b for a in mine for b in theirs), "mutable defaults are not shared between instances")
                tmpl = cls.class_traits()[name].default_value()[1]
                if name == "tup_dyn":
                    tmpl = TEMPLATE_TUPLE
                ex.check(all(a is not t for a in mine for t in mutable_parts(tmpl)), "a mutable default is a fresh copy, not the class template")
                # mutate mine, sibling's stays
                before = repr(s1[1])
                for part in mine:
                    if isinstance(part, list):
                        part.append(99)
                    elif isinstance(part, dict):
                        part["zz"] = 99
                    elif isinstance(part, set):
                        part.add(99)
                    elif isinstance(part, Leaf):
                        part.v = 99
                ex.check(repr(read(ex, it, sib, name)[1]) == before, "mutating one instance's default does not change a sibling's")
        return {"name": name}
    return harness


def reset_harness(name):
    """assign, then delete / reset_traits with handlers attached: the default the handlers are told about is the object that
    later reads return, and it is computed once per reset"""
    def harness(ex):
        Base, Sub, counters = mk_class()
        o = Base()
        seen = []
        o.on_trait_change(lambda obj, n_, old, new: seen.append(("otc", new)), name)
        o.observe(lambda e: seen.append(("obs", e.new)), name)
        read_first = ex.flag("default_read_before_assignment")
        if read_first:
            getattr(o, name)
        setattr(o, name, ASSIGN[name]())
        how = ex.choice("how", 2)
        del seen[:]
        c0 = counters.get("dyn", 0)
        if how == 0:
            delattr(o, name)
        else:
            o.reset_traits([name])
        told = [v for _, v in seen]
        now = getattr(o, name)
        again = getattr(o, name)
        ex.check(now is again, "reads after a reset return the same object")
        ex.check(all(v is now for v in told), "the default handed to change handlers on a reset is the object later reads return")
        if name in FRESH and name not in ("lazy",):
            ex.check(len(told) >= 1, "a reset that changes the value is announced")
        ex.check(counters.get("dyn", 0) - c0 <= 1, "a _name_default method runs at most once per reset")
        if name == "dyn":
            ex.check(now[0] == "dynamic", "the _name_default result is the default again")
        elif name == "inst":
            ex.check(type(now) is Leaf and now.v == 0, "the factory result is the default again")
        else:
            ex.check(now == EXPECT[name], "after a reset the declared default is back")
        sib = Base()
        if name in FRESH:
            ex.check(all(a is not b for a in mutable_parts(now) for b in mutable_parts(getattr(sib, name))),
                     "the default after a reset is not shared with a sibling")
        return {"name": name, "how": how}
    return harness


OPS = ["mutate_lst", "mutate_tup_m", "mutate_uni", "otc", "observe", "add_trait_new", "add_trait_shadow", "assign", "read_all",
       "add_trait_shared_def"]


def isolation_harness(k):
    def harness(ex):
        Base, Sub, counters = mk_class()
        before_obj = Base()
        actor = Base()
        log = {"before": [], "actor": [], "after": []}
        shared_def = List(Int).as_ctrait()     # one definition object (a CTrait) handed to several instances' add_trait
        for step in range(k):
            op = OPS[ex.choice("op%d" % step, len(OPS))]
            if op == "mutate_lst":
                actor.lst.append(4)
                actor.dct["n"] = 2
                actor.st.add(5)
            elif op == "mutate_tup_m":
                actor.tup_m[1].append(3)
            elif op == "mutate_uni":
                if isinstance(actor.uni, list):
                    actor.uni.append(1)
                actor.uni_s.add(1)
                actor.uni_d["x"] = 1
                actor.uni_n.add(2)
                actor.cust_i.append(2)
                actor.cust_p["y"] = 2
                actor.cust_od["y"] = 2
                actor.cust_ul.append(2)
                actor.tr_dd["b"] = [2]
            elif op == "otc":
                actor.on_trait_change(lambda: log["actor"].append("c_int"), "c_int")
                actor.on_trait_change(lambda: log["actor"].append("lst_items"), "lst_items")
            elif op == "observe":
                actor.observe(lambda e: log["actor"].append("obs"), "c_str")
            elif op == "add_trait_new":
                actor.add_trait("extra", Int(3))
            elif op == "add_trait_shadow":
                actor.add_trait("c_str", Int(11))       # instance trait shadowing a class trait
            elif op == "assign":
                actor.c_int = 77
                actor.over = 78
            elif op == "read_all":
                for n_ in NAMES:
                    if n_ != "lazy":
                        getattr(actor, n_)
            elif op == "add_trait_shared_def":
                actor.add_trait("shared", shared_def)
                before_obj.add_trait("shared", shared_def)
                actor.on_trait_change(lambda: log["actor"].append("shared"), "shared")
                before_obj.on_trait_change(lambda: log["before"].append("shared"), "shared")
                before_obj.shared = [1]
                ex.check(log["actor"].count("shared") == 0, "a handler registered on one instance's added trait does not fire for another "
                                                           "instance that was given the same definition")
                log["before"].clear()
        after_obj = Base()
        for who, o in (("before", before_obj), ("after", after_obj)):
            o.on_trait_change(lambda w=who: None, "c_int")
            for n_ in NAMES:
                if n_ == "lazy":
                    continue
                v = getattr(o, n_)
                if n_ == "dyn":
                    ex.check(v[0] == "dynamic", "sibling's dynamic default intact")
                elif n_ == "inst":
                    ex.check(type(v) is Leaf and v.v == 0, "sibling's factory default intact")
                else:
                    ex.check(v == EXPECT[n_], "sibling created %s the operations sees the declared default of %s" % (who, n_))
            ex.check("extra" not in o.trait_names(), "an instance trait added to one instance does not appear on a sibling")
            ex.check(type(o.trait("c_str").handler).__name__ == "Str", "shadowing a class trait on one instance leaves the sibling's definition alone")
            try:
                o.c_str = 5
                rej = False
            except TraitError:
                rej = True
            ex.check(rej, "the sibling's class-level trait still validates as declared")
            n0 = len(log["actor"])
            o.c_int = 1234
            o.c_str = "changed"
            o.lst.append(6)
            ex.check(len(log["actor"]) == n0, "handlers registered on one instance are not called for changes of a sibling")
        ct = Base.class_traits()["c_int"]
        ex.check(ct._notifiers(False) in (None, []) or all("actor" not in repr(n) for n in (ct._notifiers(False) or [])),
                 "instance-level registration does not reach the class trait's notifier list")
        ex.check(Base().c_int == 5 and Base.class_traits()["c_str"].default_value()[1] == "dflt", "class-level defaults unchanged")
        p_ = Base()
        ex.check(p_.sh_y == 0.5 and p_.sh_x == 10.5 and UsesSharedBefore().w == 0.5,
                 "a default method attached to one attribute does not reach other attributes / classes declared with the same definition object")
        p_.sh_y = 4.5
        UsesSharedBefore().w = 6.5
        ex.check(p_.__dict__.get("_sh_calls", []) == [], "... nor does its static handler")
        return {"k": k}
    return harness


def wildcard_isolation_harness(ex):
    """names governed by a typed wildcard (opt_ = Int(5)): whatever one instance does with such a name first - registering a
    handler in any way before the name was ever used, assigning it, reading it - another instance of the class sees the declared
    default, validates as declared and never calls the first instance's handlers"""
    from traits.observation.api import trait as trait_

    class W(HasTraits):
        opt_ = Int(5)
        other = Int(0)

    a, b = W(), W()
    calls = []
    how = ex.choice("registration", 5)
    if how == 0:
        a.on_trait_change(lambda: calls.append("otc"), "opt_x")
    elif how == 1:
        a.observe(lambda e: calls.append("observe"), trait_("opt_x", optional=True))
    elif how == 2:
        a.observe(lambda e: calls.append("observe") if e.name == "opt_x" else None, "*")
    elif how == 3:
        a.on_trait_change(lambda obj, name, old, new: calls.append("anytrait") if name == "opt_x" else None)
    else:
        a.observe(lambda e: calls.append("observe"), trait_("opt_x", optional=True))
        a.on_trait_change(lambda: calls.append("otc"), "opt_x")
    first = ex.choice("first_use", 3)
    if first == 1:
        a.opt_x = 7
    elif first == 2:
        a.opt_x
    del calls[:]
    ex.check(b.opt_x == 5, "another instance reads the wildcard's declared default")
    b.opt_x = 9
    ex.check(calls == [], "handlers registered on one instance for a wildcard-governed name are not called for another instance")
    try:
        b.opt_x = "text"
        rej = False
    except TraitError:
        rej = True
    ex.check(rej and b.opt_x == 9, "the other instance validates the name as the wildcard declares")
    ex.check(a.opt_x == (7 if first == 1 else 5), "... and the first instance keeps its own value")
    c = W()
    c.opt_x = 11
    ex.check(calls == [], "... nor for an instance created later")
    n_ = len(calls)
    a.opt_x = 21
    if not (how in (1, 2) and first == 0):
        # (observe on a name that ANOTHER instance resolved first is the recorded class-cache finding of C08 / C09, not isolation)
        ex.check(len(calls) - n_ == (2 if how == 4 else 1), "the registering instance's own change calls its handlers once each")
    ct = W.class_traits().get("opt_x")
    ex.check(ct is None or not (ct._notifiers(False) or []), "instance-level registration does not reach the class-level (cached) wildcard trait")
    return {"how": how}


def obligations(tier, build):
    cenv.load_program(build)
    obs = []
    for name in NAMES:
        for sub in ((False, True) if name in ("over", "c_int", "lst", "tup_m") else (False,)):
            obs.append(Obligation("first_read/%s%s" % (name, "/subclass" if sub else ""), first_read_harness(name, sub), stubs=STUBS,
                                  bounds={"default kind": name, "handlers registered": "symbolic flag"},
                                  leverage="choice feasibility only (heap objects)"))
    for name in NAMES:
        if name != "lazy":
            obs.append(Obligation("reset/%s" % name, reset_harness(name),
                                  bounds={"default kind": name, "reset by": ["del", "reset_traits"], "default read before the assignment": "flag"},
                                  leverage="choice feasibility only (compiled code runs concretely)"))
    K = 2 if tier == "quick" else 3
    obs.append(Obligation("isolation/k=%d" % K, isolation_harness(K), bounds={"history length": K, "operations": OPS,
                                                                           "siblings": "one created before, one after"},
                          leverage="choice feasibility only", max_paths=100000))
    obs.append(Obligation("isolation/wildcard-names", wildcard_isolation_harness,
                          bounds={"registrations": ["on_trait_change(name)", "observe(trait(name, optional))", "observe('*')", "object-level handler", "two at once"],
                                  "first use on the registering instance": ["none", "assignment", "read"]}, leverage="choice feasibility only"))
    import props._owners as owners_
    for kind_ in ("list", "dict", "set"):
        obs.append(Obligation("sharing/%s" % kind_, owners_.sharing_harness(kind_),
                              bounds={"ways of handing a value on": owners_.SHARING_HOWS, "declarations": "x and y from ONE shared definition object"},
                              leverage="choice feasibility only", stubs=[]))
    return obs
