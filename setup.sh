#!/bin/sh
# Build the overlay venv the checks run in (offline). Idempotent; also called lazily by ./check.
set -e
cd "$(dirname "$0")"
V=.venv
if [ ! -x "$V/bin/python" ] || ! "$V/bin/python" -c "import z3, jsonschema" 2>/dev/null; then
  (
    flock 9
    if [ ! -x "$V/bin/python" ] || ! "$V/bin/python" -c "import z3, jsonschema" 2>/dev/null; then
      rm -rf "$V"
      /venv/bin/python -m venv "$V"
      SP=$("$V/bin/python" -c "import sysconfig; print(sysconfig.get_paths()['purelib'])")
      echo "import site; site.addsitedir('/venv/lib/python3.12/site-packages')" > "$SP/zz_venv_overlay.pth"
      PIP_NO_INDEX=1 "$V/bin/pip" install -q --no-index --find-links /opt/veriftools/wheels z3-solver jsonschema >/dev/null
    fi
  ) 9>.venv.lock
fi
"$V/bin/python" -c "import z3, jsonschema, numpy; print('overlay ok: z3', z3.get_version_string())"
