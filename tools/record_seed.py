#!/usr/bin/env python3
"""usage: record_seed.py <PROP> <mK> <detected: yes|no|partial> <check cmd run> [note]
Writes /verif/seeded/<PROP>-<mK>/meta.json (patch.diff, demo.py, notes.txt, confirm.log were copied by confirm_seed.sh)."""
import json, os, sys
prop, m, detected, cmd = sys.argv[1:5]
note = sys.argv[5] if len(sys.argv) > 5 else ""
d = "/verif/seeded/%s-%s" % (prop, m)
notes = open(os.path.join(d, "notes.txt")).read() if os.path.exists(os.path.join(d, "notes.txt")) else ""
confirm = open(os.path.join(d, "confirm.log")).read().strip().splitlines()[-1] if os.path.exists(os.path.join(d, "confirm.log")) else ""
files = [l[6:].strip() for l in open(os.path.join(d, "patch.diff")) if l.startswith("+++ b/")]
meta = {
    "breaks_property": prop,
    "files_changed": files,
    "what_it_needs_to_manifest": notes.strip(),
    "origin": "independent sub-agent given only the property text and a scratch worktree",
    "confirmed_in_scratch_worktree": confirm,
    "what_i_ran": ["tools/confirm_seed.sh %s %s  (pristine demo exit 0; patched demo exit != 0; full test suite passes with the patch)" % (prop, m),
                   "tools/try_seed.sh %s seeded/%s-%s/patch.diff %s" % (prop, prop, m, cmd)],
    "detected_by_check": detected,
    "detection_note": note,
}
json.dump(meta, open(os.path.join(d, "meta.json"), "w"), indent=1)
print("recorded", d, detected)
