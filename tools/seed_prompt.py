#!/usr/bin/env python3
"""Print the prompt given to a seeding sub-agent for one property (only the property text + its worktree)."""
import json, sys
pid = sys.argv[1]
n = int(sys.argv[2]) if len(sys.argv) > 2 else 3
for l in open('/verif/properties.jsonl'):
    p = json.loads(l)
    if p['id'] == pid:
        break
else:
    raise SystemExit('no such property')
wt = f"/tmp/wt/seed_{pid}"
out = f"/tmp/seed_out/{pid}"
print(f"""You are helping test a verification tool for the Python library enthought/traits (typed, validated, observable class attributes, with a C extension traits/ctraits.c). You have your own scratch git worktree of the library at {wt} (already built in place: the C extension has been compiled there). Work ONLY inside {wt} and {out}; do not touch /repo or /verif and do not read anything under /verif.

Here is a semantic property that the library is supposed to satisfy:

  Title: {p['title']}
  Statement: {p['statement']}
  Quantified over: {p['quantifier']['text']}
  Code it is anchored in: {', '.join(p['anchors']['files'])}

Your job: produce {n} DIFFERENT, independent, realistic changes (bugs) to the library source (Python files under traits/ or traits/ctraits.c; not the tests) each of which BREAKS this property while the library still compiles and the existing test suite still passes in full. Think of the kind of mistake a maintainer could plausibly make in a refactoring or an optimisation: an off-by-one in an index normalisation, a wrong comparison operator at a boundary, a missing case for an unusual input kind, a cache not invalidated on one path, a notification emitted before instead of after a state change, a cleanup skipped on one error path, two sites that each look fine alone but disagree. Prefer changes that need something SPECIFIC to manifest (an unusual input such as a negative step slice, NaN, a bool or int subclass, a huge int, an empty container, a duplicate key; a multi-step sequence of operations; a failure at a particular point; two cooperating sites) rather than ones that ordinary use would expose immediately. Each change should be small (a few lines). The {n} changes should touch different functions / different mechanisms of the property where possible, and at least one should be in traits/ctraits.c if the property is anchored there.

How to work:
  - cd {wt}. Edit the source. If you edit traits/ctraits.c rebuild with:  cd {wt} && /venv/bin/python setup.py -q build_ext --inplace
  - Run things against your worktree with:  cd {wt} && PYTHONPATH={wt} /venv/bin/python your_script.py   (check `import traits; traits.__file__` points into {wt}).
  - The full existing test suite must still pass with the change:  cd {wt} && PYTHONPATH={wt} /venv/bin/python -m pytest -q -p no:cacheprovider --timeout=900 -x -q 2>&1 | tail -5     (about 1 minute, 1618 tests, run it serially without -n). If a test fails, the change is not acceptable: pick another change. There is no network access.
  - For each change k = 1..{n} create the directory {out}/m<k>/ containing:
      patch.diff   - output of `git -C {wt} diff` for that change alone (relative to the pristine HEAD; it must apply with `git apply` to a pristine checkout)
      demo.py      - a small stand-alone program (uses only `import traits...` and the standard library; no pytest needed) that exits with status 0 on the pristine library and with a non-zero status (assertion failure) when the change is applied, demonstrating the property violation through the public API
      notes.txt    - 3-6 lines: what was changed, why it breaks the property, what specific input/sequence is needed to manifest, and confirmation of the test-suite result (the tail line of pytest output)
  - After saving a change's files, restore the worktree to pristine (`git -C {wt} checkout -- .` and rebuild the extension if you touched ctraits.c) before making the next change, so the patches are independent.
  - Before finishing, verify for each change: (a) pristine: demo.py exits 0; (b) with patch applied (and rebuilt if C): demo.py exits non-zero AND the full test suite passes. Leave the worktree pristine at the end.

Reply with a brief list of the {n} changes (one line each) and whether each was fully verified.""")
