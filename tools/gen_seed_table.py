#!/usr/bin/env python3
"""Regenerate the seeded-changes table between the markers in DESIGN.md from seeded/*/meta.json."""
import glob, json, os, re
HERE = os.path.dirname(os.path.dirname(os.path.abspath(__file__)))
rows = []
for d in sorted(glob.glob(os.path.join(HERE, "seeded", "C*-*"))):
    m = json.load(open(os.path.join(d, "meta.json")))
    sid = os.path.basename(d)
    files = ", ".join(os.path.basename(f) for f in m.get("files_changed", []))
    what = (m.get("what_it_needs_to_manifest") or "").strip().splitlines()
    first = what[0] if what else ""
    first = re.sub(r"^(Change|CHANGE|What was changed|What changed)\s*[:(]\s*", "", first)[:150]
    rows.append("| %s | %s | %s | %s | %s |" % (sid, files, first.replace("|", "/"), m.get("detected_by_check"),
                                               (m.get("detection_note") or "").replace("|", "/")[:230]))
table = "| seed | file | change (first line of the author's note) | detected | how / note |\n|---|---|---|---|---|\n" + "\n".join(rows)
p = os.path.join(HERE, "DESIGN.md")
s = open(p).read()
a, b = "<!-- SEED-TABLE-BEGIN -->", "<!-- SEED-TABLE-END -->"
if a in s and b in s:
    s = s[:s.index(a) + len(a)] + "\n" + table + "\n" + s[s.index(b):]
    open(p, "w").write(s)
    print("table updated:", len(rows), "rows;", sum(1 for r in rows if "| yes |" in r), "detected")
else:
    print(table)
