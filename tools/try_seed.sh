#!/bin/sh
# usage: try_seed.sh <PROP> <patch.diff> [extra check args]  -- apply a seeded change to /repo, run the check, undo it
P="$1"; D="$2"; shift 2
git -C /repo apply "$D" || { echo "patch does not apply"; exit 9; }
cd /verif && ./check "$P" "$@" > /tmp/try_seed.$$.log 2>&1; rc=$?
git -C /repo checkout -- .
grep -c "^VIOLATION" /tmp/try_seed.$$.log | sed "s/^/violations: /"
grep -m3 "^VIOLATION\|^INCONCLUSIVE\|^HARNESS" /tmp/try_seed.$$.log | cut -c1-400
tail -1 /tmp/try_seed.$$.log | cut -c1-200
echo "exit=$rc"; rm -f /tmp/try_seed.$$.log
exit $rc
