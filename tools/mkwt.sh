#!/bin/sh
# usage: mkwt.sh <name>  -- create a scratch git worktree of /repo under /tmp/wt/<name>, built in place
set -e
n="$1"; d="/tmp/wt/$n"
mkdir -p /tmp/wt
git -C /repo worktree add -f --detach "$d" HEAD >/dev/null 2>&1
cp /repo/traits/version.py "$d/traits/version.py"
(cd "$d" && /venv/bin/python setup.py -q build_ext --inplace >/dev/null 2>&1)
ls "$d"/traits/*.so >/dev/null
echo "$d"
