#!/bin/sh
# usage: confirm_seed.sh <PROP> <mK> [<source root, default /tmp/seed_out> [<dest tag, e.g. r2>]]
# Independently confirm a seeded change in a fresh scratch worktree:
#   pristine: demo exits 0; patched (rebuilt): demo exits non-zero and the full test suite passes.
# On success copy it to /verif/seeded/<PROP>-<mK>/ and write confirm.log there.
P="$1"; M="$2"; ROOT="${3:-/tmp/seed_out}"; TAG="$4"; SRC="$ROOT/$P/$M"; N="confirm_${P}_${TAG}${M}"; WT="/tmp/wt/$N"
LOG="$SRC/confirm.log"; : > "$LOG"
/verif/tools/mkwt.sh "$N" >/dev/null || { echo "$P $M: worktree failed"; exit 2; }
# note: worktree is at /repo HEAD (includes fix: commits)
run_demo() { (cd "$WT" && PYTHONPATH="$WT" timeout 300 /venv/bin/python "$SRC/demo.py" >>"$LOG" 2>&1); echo $?; }
r0=$(run_demo)
if ! git -C "$WT" apply "$SRC/patch.diff" 2>>"$LOG"; then echo "$P $M: PATCH DOES NOT APPLY to HEAD" | tee -a "$LOG"; /verif/tools/rmwt.sh "$N"; exit 3; fi
if grep -q "ctraits.c" "$SRC/patch.diff"; then (cd "$WT" && /venv/bin/python setup.py -q build_ext --inplace >>"$LOG" 2>&1); fi
r1=$(run_demo)
(cd "$WT" && PYTHONPATH="$WT" /venv/bin/python -m pytest -q -p no:cacheprovider --timeout=900 -x 2>&1 | tail -3 >>"$LOG")
tests=$(grep -E "passed|failed|error" "$LOG" | tail -1)
/verif/tools/rmwt.sh "$N"
echo "demo pristine exit=$r0 ; demo patched exit=$r1 ; tests: $tests" >> "$LOG"
ok=no
if [ "$r0" = "0" ] && [ "$r1" != "0" ] && echo "$tests" | grep -q "passed" && ! echo "$tests" | grep -q "failed\|error"; then ok=yes; fi
echo "$P $M: pristine=$r0 patched=$r1 tests=[$tests] confirmed=$ok"
if [ "$ok" = yes ]; then
  D="/verif/seeded/$P-$TAG$M"; mkdir -p "$D"; cp "$SRC/patch.diff" "$SRC/demo.py" "$D/"; cp "$SRC/notes.txt" "$D/notes.txt" 2>/dev/null; cp "$LOG" "$D/confirm.log"
fi
