#!/usr/bin/env python3
"""Round-5 prompt for a seeding sub-agent: the round-1 prompt text with other paths, plus the sites used by rounds 1 and 2
(diff hunk headers of the kept patches - nothing else from /verif) and a request for subtler changes."""
import glob, json, re, subprocess, sys
pid = sys.argv[1]
base = subprocess.check_output([sys.executable, "/verif/tools/seed_prompt.py", pid]).decode()
base = base.replace("/tmp/wt/seed_%s" % pid, "/tmp/wt/seed5_%s" % pid).replace("/tmp/seed_out/%s" % pid, "/tmp/seed_out5/%s" % pid)
sites = set()
for f in glob.glob("/verif/seeded/%s-*/patch.diff" % pid):
    for l in open(f):
        if l.startswith("+++ b/"):
            sites.add("file:" + l[6:].strip())
        m = re.match(r"@@ [^@]* @@ (.*)", l)
        if m and m.group(1).strip():
            sites.add(m.group(1).strip()[:70])
extra = ("\n\nAdditional constraints for this round (the fifth): several other engineers have already produced changes at these sites (diff hunk "
         "headers / files): " + "; ".join(sorted(sites)) + ". Choose DIFFERENT functions or mechanisms from those wherever the property "
         "leaves room (the same file is fine, the same function is not). Make the changes subtle: (a) an interplay between two features "
         "that are each fine alone (e.g. the property's mechanism combined with subclassing, with wildcard / instance traits, with "
         "comparison modes, with transient / metadata options, with pickling or copying, with deletion / reset of attributes, with "
         "quiet updates, with delegation, with dynamically added traits, with dispatch to handlers registered in unusual ways), (b) a "
         "state that only arises after a specific multi-step history, (c) an error / cleanup / rollback path, (d) a rarely used but "
         "documented API entry point of the same mechanism, or (e) an unusual but legal input class (subclasses of built-ins, objects "
         "with custom __eq__ / __hash__ / __bool__ / __len__ / __index__, NaN, infinities, very large values, empty or nested containers). "
         "This round, also consider: numeric and boundary behaviour (off-by-one in index / length / count arithmetic, the sign of a "
         "step or an offset, comparisons at a bound, integer overflow of C longs, float special values), string handling (prefix / suffix "
         "slicing of attribute names, name mangling, parsing of names with unusual but legal characters), ordering (which of two equal "
         "candidates wins, iteration order of a set or dict deciding an outcome), and reference handling in C on rarely taken exits. "
         "Prefer parts of the code base that the property depends on but that sit one step away from its obvious "
         "anchor: helper modules, base classes, caches, class-construction code (metaclass), C helper functions shared by several "
         "callers, notification dispatch variants (ui / new / fast_ui are out of scope without a GUI, but 'same' and 'extended' are in), "
         "and the places where Python and C implementations of the same thing must agree. "
         "Each demo must still fail reliably with the change and pass without it, and the full test suite must pass with the change.")
print(base.rstrip() + extra)
