ENGINES = [
    {"name": "csym", "path": "vt/csym.py", "serves_properties": ["C01", "C02", "C03", "C10", "C11", "C13", "C14", "C17", "C18"],
     "kind_free_text": "symbolic interpreter of traits/ctraits.c over clang's JSON AST (regenerated from the current source on every run), "
                       "CPython API contracts in vt/capi.py, shared path condition with symx; memory-safety assertions on every path"},
    {"name": "symx", "path": "vt/symx.py", "serves_properties": ["C01", "C03", "C04", "C05", "C06", "C07", "C08", "C09", "C11", "C12", "C16", "C13", "C15", "C17", "C19", "C20"],
     "kind_free_text": "symbolic execution of the real Python code on z3-backed proxies (DFS over decision prefixes by re-execution), "
                       "environment models for built-ins (vt/envmodels.py), concrete replay of every counterexample and one witness per path"},
]
NOTES = ("Exit codes: 0 held within the stated bounds; 1 VIOLATION (counterexample replayed on the real build); "
         "3 inconclusive or harness error (never reported as success). Every run copies /repo's working tree to a scratch "
         "directory, builds the extension there and analyses that copy. Known findings: known_findings.json.")
NOT_BUILT = "check not built yet (build in progress; see DESIGN.md section 4 for the planned obligations)"
CHECKS = {
    "C05": dict(
        text="Bounded model checking by symbolic execution: every TraitList mutator is run on z3 Int proxies for index, slice fields, "
             "insert/pop position, *= factor and sort keys; z3 shows, per explored path, that refinement of list, the replay law and the "
             "normal form of the event hold for all integer values; list length n<=4 (slices n<=3, thorough 6), replacement length <=2 (4). "
             "One-step obligations from an arbitrary state are inductive over histories because TraitList has no hidden state (asserted).",
        design_ref="DESIGN.md section 4 C05", technique="symbolic execution of the real Python code with z3 (symx), counterexamples replayed",
        note="Trusted: z3; the MSlice/ListModel/operator.index environment models (differentially self-tested against the built-ins on "
             "every run); CPython's list. Bounds: list length, replacement length, *= factor <= 3 for non-empty lists, |step| <= 8 in the "
             "length-unbounded normalisation obligation. Outside: sort with a user key that raises or mutates, validators that mutate the list."),
}
CHECKS["C06"] = dict(
    text="Bounded model checking by symbolic execution of the real TraitDict methods: keys and values are unbounded z3 Ints held in a real "
         "dict under a constant-hash discipline, so which operation key aliases which stored key is decided by z3; refinement of dict "
         "(return values, exception classes), failure atomicity, event count and the reconstruction law are discharged on every path; "
         "stored entries s<=3 (4), update/|= arguments <=2 (3) pairs incl. duplicates; identity / rejecting / coercing validators; "
         "one-step obligations from an arbitrary valid state (inductive: no hidden state, asserted).",
    design_ref="DESIGN.md section 4 C06", technique="symbolic execution of the real Python code with z3 (symx), counterexamples replayed",
    note="Trusted: z3, CPython dict. Stub: hash(proxy)==0 for every key. setdefault under a coercing key validator follows the tested "
         "traits behaviour (raw-key containment first). Outside: unhashable or self-mutating keys, keys whose __eq__ has side effects.")
CHECKS["C07"] = dict(
    text="Bounded model checking by symbolic execution of the real TraitSet methods on a real set of constant-hash z3 Int proxies: overlap "
         "between stored and argument elements decided by z3; delta laws, silence of no-ops, refinement of set for identity/rejecting "
         "validators (delta laws + validity + atomicity for the coercing one), non-set operands of the operators; s<=2 (3) stored elements, "
         "1-2 argument iterables of <=2 (3) items. Copy/deepcopy/pickle(2-5) obligations are concrete enumerations (C boundary).",
    design_ref="DESIGN.md section 4 C07", technique="symbolic execution of the real Python code with z3 (symx), counterexamples replayed",
    note="Trusted: z3, CPython set. Stub: hash(proxy)==0. Which element pop() returns is unspecified and not compared. "
         "Outside: elements that are themselves sets/unhashable, iterables with side effects.")
CHECKS["C04"] = dict(
    text="Bounded model checking by symbolic execution of the real TraitListObject / TraitDictObject / TraitSetObject and List.validate on a "
         "real HasTraits owner: list indices, slice fields, *= factor and the trait's minlen/maxlen are unbounded z3 Ints (length bound "
         "discharged as a formula over minlen/maxlen); dict keys/values and set elements are z3 Ints validated by Python-level inner traits; "
         "list items from a concrete pool (valid / convertible True / invalid) at a symbolic position; on failure contents, the items "
         "event log, the whole-value log and the observe log must be unchanged. Nested List(List), Dict(Str, List): two-step choice histories.",
    design_ref="DESIGN.md section 4 C04", technique="symbolic execution of the real Python code with z3 (symx), counterexamples replayed",
    note="Trusted: z3, environment models (self-tested), the compiled Int validator and trait_items_event run concretely. Stubs: "
         "List.full_info (message text), ListModel/MSlice. Bounds: n<=3 (5), m<=2 (3), s<=2 (3). Outside: inner traits other than "
         "Int/Str/List/Python-validated, sort(key=raising), spurious rejections (the statement does not forbid them).")
CHECKS["C03"] = dict(
    category="translation_validation", engine="csym+symx",
    text="Translation validation of the two implementations of every fast-validated trait type: the C validator selected by the real "
         "_trait_set_validate is interpreted from clang's AST of the current ctraits.c, the real Python validate() runs natively, both on one "
         "abstract value (z3 Int / Float64 payloads incl. NaN/inf/-0.0, int/float/complex subclasses, objects with nondeterministic "
         "__index__/__float__/__complex__, numpy scalars, None, strings, tuples, instances, classes, callables). Per path z3 decides "
         "accept-agreement, payload equality and 'Python TraitError => fast TraitError'; 40 configurations incl. symbolic float Range bounds "
         "and exclude flags, Enum, Map, Tuple, Instance/adapt modes, This, Callable, casts, compound nestings of <= 3 alternatives.",
    design_ref="DESIGN.md section 4 C03", technique="symbolic interpretation of the C source (clang AST) and of the Python code with z3; counterexamples replayed on the compiled extension",
    note="Trusted: z3; the CPython API contracts (vt/capi.py) and built-in shadows (vt/pymodel.py), validated by replaying one witness per path "
         "against the compiled extension and the real validate(). Bounds: int->double for |i|<2**63 or beyond the double range; int(float) for "
         "|f|<2**63; bytes(n) n<2**16; tuple arity<=3; concrete strings. Outside: Array, Date/Time, File, regex traits, allocation failure.")
CHECKS["C01"] = dict(
    engine="csym+symx",
    text="Bounded model checking of the real assignment path: has_traits_setattro -> setattr_trait -> validator -> __dict__ store / "
         "raise_trait_error is interpreted from the AST of ctraits.c on a real HasTraits object (its __dict__ shared with the interpreter), "
         "Python validators (int Range, String, Union, Type, ...) run natively on proxies. Oracle = reference predicate Dom_T written from the "
         "documentation: stored value is the documented conversion and inside the domain (Range bounds/exclusivity, String length with "
         "symbolic minlen/maxlen, Enum/Map membership + mapped shadow, tuple shape, instance class, allow_none), no spurious rejection, "
         "rejection = TraitError naming the attribute or the value's own protocol exception, rejected assignment leaves __dict__ and handler "
         "log unchanged. 26 configurations x value kinds.",
    design_ref="DESIGN.md section 4 C01", technique="symbolic interpretation of the C source (clang AST) and of the Python code with z3; counterexamples replayed on the compiled extension",
    note="Trusted: z3, API contracts, Dom_T reference predicates (props/c01.py). trait_set and constructor-keyword entry points are exercised "
         "only in the concrete witness replays (they reach the same has_traits_setattro). Array traits: dtypes and casting rules are "
         "enumerated (numpy is a C boundary; can_cast on concrete dtypes is the reference), dimensions <= 32, <= 3 dimensions. Outside: "
         "Date/Time/UUID/File, symbolic strings beyond the stated configurations, allocation failure.")
CHECKS["C18"] = dict(
    engine="csym",
    text="Per-function bounded model checking of ctraits.c from clang's AST, NOT the dynamic reading of the property (arbitrary API programs "
         "on a sanitised build are not what a solver decides and are not claimed). Decided: (1) for every function designator that any "
         "feasible path of trait_new/_trait_set_validate/_trait_delegate/_trait_set_property or any direct assignment stores into a trait's "
         "getattr/setattr/post_setattr/validate/delegate_attr_name field (set generated from the AST + symbolic exploration), func_index "
         "terminates inside the table __getstate__ uses and finds it; (2) every static-table subscript of those four functions is inside "
         "the initialiser for all integer arguments (symbolic, lazily chosen descriptor shapes); (3) on every path of all validators "
         "(C03's configurations x value kinds) and of first-read / assignment (getattr_trait, default_value_for for 6 default kinds, "
         "setattr_trait, call_notifiers) the interpreter's memory-safety assertions hold and ghost reference counts are neutral.",
    design_ref="DESIGN.md section 4 C18", technique="symbolic interpretation of the C source (clang AST) with memory-safety assertions and ghost reference counts, z3",
    note="Trusted: the interpreter and API contracts (validated in C01/C03 by witness replay on the compiled extension). Memory-safety findings "
         "cannot be confirmed by a sanitizer here; the table finding is replayed in a subprocess (crash = reproduced), path findings are "
         "re-interpreted concretely. Outside: type slots, GC traverse/clear, module init, _has_traits_items_event, allocation failure, "
         "callbacks that drop references the function does not own, hand-written nested descriptors.")
CHECKS["C02"] = dict(
    engine="csym+symx",
    text="Bounded model checking of assignment histories (k=2 quick, 3 thorough) through the interpreted C path (has_traits_setattro, "
         "setattr_trait, setattr_event, getattr_trait, call_notifiers from the AST of ctraits.c) with the real Python notifier wrappers "
         "(static _x_changed, two on_trait_change handlers, observe) running natively; value payloads are z3 Ints / Float64s so that "
         "equal-but-not-identical, NaN and raising/ambiguous comparisons are decided by the solver; 3 comparison modes x Any/Int/Event/"
         "Expression traits x which handler raises x first-read-of-default; oracle: each mechanism is called exactly once iff the assignment "
         "is a change under the mode, old/new are the objects readable before/after, rejected assignments and default reads are silent.",
    design_ref="DESIGN.md section 4 C02", technique="symbolic interpretation of the C source (clang AST) plus native symbolic execution of the Python wrappers, z3; counterexamples replayed",
    note="Comparison mode is concrete per obligation (the Python filters read it from the real CTrait). Assumes consistent ==/!=, int payloads "
         "outside the small-int cache, |int|<=2**53 in int/float comparisons. Outside: dispatch='ui'/'new', handlers mutating notifier lists.")
CHECKS["C13"] = dict(
    engine="symx+csym",
    text="(a) Symbolic execution of the real HasTraits.__prefix_trait__ on a symbolic attribute name (z3 String, unbounded length over "
         "[A-Za-z0-9_]) for 7 fixture hierarchies (nested/overlapping wildcards, subclass adding longer and shorter prefixes, strict and "
         "private classes, a delegate): z3 decides per path that the returned trait is the template of the LONGEST table prefix that is a "
         "prefix of the name, dunder names as documented, table ordered longest-first. (b) Bounded histories (k=2 quick, 3 thorough) of "
         "read/write/delete/add_trait/remove_trait through has_traits_getattro/setattro, get_prefix_trait, get_trait and the "
         "readonly/constant/disallow/event/python handlers interpreted from ctraits.c's AST on real objects, incl. a trait_added listener "
         "that adds an instance trait during resolution; oracle: independent statement of the governing rule and of each policy.",
    design_ref="DESIGN.md section 4 C13", technique="symbolic execution with z3 strings (Python) and symbolic interpretation of the C source (clang AST); counterexamples replayed",
    note="Part (b) has concrete names: the solver contributes path feasibility only there (exhaustive bounded enumeration, labelled so in the "
         "evidence). Assumes names without statically named _<name>_changed handlers. Fixture classes are created per run because resolved "
         "wildcard names are cached per class.")
CHECKS["C20"] = dict(
    text="Bounded model checking by symbolic execution of the real sync_trait / _sync_trait_modified / _sync_trait_items_modified on real "
         "objects: every list mutator with unbounded symbolic index / slice fields / factor on either side of a mutual, one-way or aliased "
         "link (list length <=3 quick, 4 thorough): after the step both lists are equal (mutual) or the reverse direction is inert "
         "(one-way), each side's handlers fire at most once, nothing reaches the notification exception handler. The write-back slice on "
         "the receiving side carries the symbolic normalised index, whose feasible values are enumerated exhaustively. Scalar histories "
         "(k=2/3: assign either side, remove the link from either side in one or both directions, collect a partner, re-assign the same "
         "value; 1-2 partners) are bounded choice explorations.",
    design_ref="DESIGN.md section 4 C20", technique="symbolic execution of the real Python code with z3 (symx), counterexamples replayed",
    note="Trusted: z3, ListModel/MSlice environment models (self-tested), compiled Int validator and trait_items_event run concretely. "
         "Scalar histories: solver contributes choice feasibility only. Outside: more than two partners, chains of synchronised objects, "
         "non-list containers, threads.")
CHECKS["C15"] = dict(
    text="Token level, solver-decided: the LALR tables of the current _generated_parser.py are interpreted (shift/reduce/goto as lark's "
         "feed_token) on a symbolic token sequence of symbolic length <= L (6 quick, 8 thorough); each path is one viable-prefix class. "
         "Reference: a bounded CYK-style z3 formula of the grammar written from the user manual. Accepting path: z3 proves the reference "
         "accepts; rejecting path: z3 proves that no completion (any remaining tokens, any length <= L) is accepted by the reference. "
         "Text level (one rendered witness per path, two spellings: sampling): real parse() acceptance, denotation of the graphs "
         "(path set, notify iff last or followed by '.', items = 4 optional alternatives), parse twice / other whitespace / extra "
         "brackets give equal patterns, compile_str succeeds.",
    design_ref="DESIGN.md section 4 C15", technique="symbolic execution of an interpreter of the generated LALR tables against a bounded-CYK z3 formula; witnesses replayed through the real parser",
    note="Trusted: the reference grammar (props/c15.py, from the manual), the 50-line table driver. The character-level lexer, whitespace and "
         "NAME spellings are covered only through rendered witnesses (sampling, seeded by VERIF_SEED). Two known findings (star inside "
         "brackets; duplicate parallel branches fail to compile). Outside: sequences longer than L, inequality of different patterns.")
CHECKS["C17"] = dict(
    text="Symbolic execution of the real AdaptationManager search on a fresh manager: offers m<=3 (4) with endpoints over a fixed 5-protocol "
         "hierarchy (inheritance, multiple inheritance, ABC registration) chosen by symbolic selectors; one symbolic Boolean per "
         "(offer, predecessor) = 'this conditional factory returns None' (path-dependent factories included), decided lazily when the "
         "search calls the factory. Oracle: z3 formula over those Booleans for 'some simple chain of applicable offers succeeds'; "
         "adapter returned <=> formula, chain length minimal, more specific single-step offer preferred, object itself when it already "
         "provides the protocol; on a None result z3 proves no chain can succeed for ANY value of the outcomes never read. Plus "
         "AdaptsTo/Supports assignment histories through the interpreted C path.",
    design_ref="DESIGN.md section 4 C17", technique="symbolic execution of the real Python code with z3 (symx) against a z3 formula over all simple chains; counterexamples replayed",
    note="Assumes a factory's outcome depends only on which offer produced its adaptee. Endpoints/hierarchy: choice enumeration. "
         "Outside: more than 4 offers, other hierarchies, register_provides with Interface classes, cached protocol look-ups.")
CHECKS["C14"] = dict(
    engine="csym+symx",
    text="(i) Trait-definition round trip decided on the C source: for 28 trait kinds built by the package's own constructors (scalars, "
         "containers, ReadOnly, Constant, Event, Enum, Map, Range, Tuple, Either, delegates, four Property variants incl. validated and "
         "cached/observed, items and trait_added events) the abstract record bridged from the real CTrait goes through the interpreted "
         "_trait_getstate/_trait_setstate (clang AST): all five function designators, flags, default, delegate fields, handler and "
         "descriptor are restored; the compiled pickle(2-5)/deepcopy round trip is replayed concretely (a crash of the worker is a "
         "violation). (ii) Bounded histories (k=2 quick, 3 thorough state-building operations x 8 copiers): value equality, transient "
         "reset, no shared containers, preserved aliasing, write-once stays written, and liveness probes on the copy (invalid scalar / "
         "item / nested item rejected, items handlers of the copy only, observed and cached properties, declared observers and listeners).",
    design_ref="DESIGN.md section 4 C14", technique="symbolic interpretation of the C source (clang AST) for the definition round trip; bounded exploration with concrete copies for object histories",
    note="Part (ii): pickle and copy are C boundaries, so the solver contributes choice feasibility only (exhaustive bounded enumeration, "
         "labelled so). Two known findings (post_init nested listeners not re-attached on copies; ReadOnly singleton and cached_property "
         "definition objects not picklable by name). func_index termination: C18's table obligations.")
CHECKS["C10"] = dict(
    engine="csym+symx",
    text="(A) First reads through has_traits_getattro -> getattr_trait -> default_value_for interpreted from the clang AST of ctraits.c (ghost "
         "reference counts on) for 14 default kinds on real objects (constants, list/dict copies, List/Dict/Set objects, callable-and-args "
         "Instance, _name_default method incl. the lazy-loader idiom that assigns the trait inside the method, constant and container-"
         "bearing Tuple, Union with a container member, subclass-overridden defaults), with and without registered handlers: declared "
         "default returned, stored as the very object returned, no handler reached, later reads identical, default method ran at most "
         "once, container defaults fresh (not the template, not a sibling's). (B) Sibling isolation: bounded histories (k=2/3) of "
         "operations on one instance incl. add_trait with a shared CTrait definition.",
    design_ref="DESIGN.md section 4 C10", technique="symbolic interpretation of the C source (clang AST) on real objects; bounded exploration for isolation histories",
    note="All objects are heap objects: the solver contributes choice feasibility only (exhaustive bounded enumeration, labelled so in the "
         "evidence); what the family adds is the interpreted C path with reference-count and memory-safety assertions. Outside: defaults of "
         "Array/Date traits, threads.")
CHECKS["C09"] = dict(
    text="(a) Count algebra, solver-decided for unbounded counts: the real TraitEventNotifier.add_to/remove_from/equals run on a stub "
         "observable with n<=3 other entries (targets equal by value but distinct), the equal entry at a symbolic position (or absent) "
         "with _ref_count = c, an unbounded z3 Int >= 1: add S(c)->S(c+1) / append with count 1, remove S(c+1)->S(c), S(1)->absent, "
         "absent->NotifierNotFound with nothing changed, other entries and order untouched; by induction: n registrations then n removals "
         "restore the state for every n, the (n+1)-th raises. (b) Bounded histories (k=2/3) on real graphs: observe/remove of 2 handlers x "
         "5 expressions interleaved with graph mutations and 5 failing registrations at different walk positions: call counts, "
         "NotifierNotFound, populations of every notifier list back to zero, failing registration leaves nothing; weak references "
         "(handler owner, detached leaf, root collected).",
    design_ref="DESIGN.md section 4 C09", technique="symbolic execution of the real Python code with z3 (symx) for the count algebra; bounded exploration for histories",
    note="(a) assumes the representation invariant (at most one equal entry per list, counts >= 1). (b): solver contributes choice "
         "feasibility only. Outside: dispatch='ui'/'new', ObserverChangeNotifier counting (it is not counted by design), gc at every "
         "point of a history (three fixed points only).")
CHECKS["C11"] = dict(
    engine="symx+csym",
    text="(a) Solver-decided: Delegate.__init__'s prefix classification runs natively on a symbolic prefix string (z3 String, length <= 6): "
         "prefix_type and stored prefix match the documented rule ('' / explicit name / 'p*' / '*') for every string; the classified "
         "definition is replayed on a real object (reads the documented target attribute). (b) Bounded histories (k=2/3) on real objects "
         "through the compiled code: assign via the deferring object, on the current delegate, on a non-current one, swap the delegate, "
         "delete the local value, invalid assignment, for 4 prefix styles x DelegatesTo/PrototypedFrom x chain depth 1-2: read coherence, "
         "store-into-delegate-only / local copy, rejection by the target's trait, notification iff linked (on_trait_change and observe); a "
         "chain through never-materialised default delegates; a delegation cycle must end with a Python exception (a crash of the worker "
         "is a violation).",
    design_ref="DESIGN.md section 4 C11", technique="symbolic execution with z3 strings (prefix classification, the forwarding listener's name arithmetic) and symbolic interpretation of the C name functions (clang AST); bounded exploration through the compiled extension for histories",
    note="Part (b) is exhaustive bounded enumeration (the compiled code runs concretely; the solver contributes choice feasibility only). "
         "Known finding: wildcard prefix styles never notify. getattr_delegate/setattr_delegate are not interpreted symbolically (type-slot "
         "calls and instance-trait cloning would need models beyond the time available): said in DESIGN.md.")
CHECKS["C19"] = dict(
    text="(1) Solver-decided k-th-invocation faults: the real TraitList / TraitDict / TraitSet mutators run on proxies with an item "
         "validator that raises at its q-th invocation, q an unbounded symbolic Int compared with a call counter, exception class symbolic "
         "among TraitError/ValueError/AttributeError/RuntimeError: on failure contents and event log are exactly as before, the exception "
         "reaches the caller unchanged, a follow-up operation behaves as on a fault-free twin; fault-free paths equal the twin. "
         "(2) HasTraits-level callbacks through the compiled code (8 scenarios x 4 exception classes): custom validator, _name_default, "
         "property setter, cached observed getter failing on a read / inside the notification, legacy depends_on getter, change handler, "
         "PrototypedFrom validator: outcome-deciding callbacks leave no effect, handlers neither undo the operation nor starve other "
         "handlers, and later operations behave as if the failure never happened.",
    design_ref="DESIGN.md section 4 C19", technique="symbolic execution of the real Python code with z3 (symx) with a symbolic fault index; bounded exploration through the compiled extension for HasTraits-level callbacks",
    note="Part (2): choice feasibility only. Adapter-factory faults are covered by C17's symbolic factory outcomes (None results, not "
         "raising factories). Outside: faults in handlers that mutate notifier lists, threads.")
CHECKS["C08"] = dict(
    text="Bounded exploration (through the symbolic explorer) of mutation histories (k=2 quick, 3 thorough) under 8 observed expressions "
         "(series with '.' and ':', list/dict/set items, two-level paths) on a pool of real nodes with an initial duplicate: reassignment, "
         "self-cycle, grandchild, list append/insert/del/setitem/insert-duplicate/*=/clear/moved-items/remove with SYMBOLIC positions "
         "(ListModel classification), dict set/del/identical re-assignment, set add/remove, default reads; then every node ever seen is "
         "probed. Oracle: independent from-scratch reachability evaluator: handler called exactly once iff the node is currently "
         "reachable, event identifies object and trait, ':' links silent, container events on notifying links. Plus '*' and '+metadata' "
         "first-assignment histories (wildcard-resolved and added traits).",
    design_ref="DESIGN.md section 4 C08", technique="bounded exploration through the symbolic explorer with symbolic list indices; oracle = independent reachability evaluator",
    note="Callback graphs over heap objects: the solver decides list indices and choice feasibility only; this is an exhaustive bounded "
         "enumeration and is labelled so. Two known findings (breaking a self-cycle; '*' on a second instance misses a class-cached "
         "wildcard name). Outside: expressions beyond the 10 listed, pools larger than 3 initial nodes, threads.")
CHECKS["C12"] = dict(
    text="Bounded exploration (through the symbolic explorer, list positions symbolic) of dependency-mutation histories (k=2 quick, 3 "
         "thorough; 13 operations: nested value changes, list append/insert-duplicate/del/replace-one-by-two-of-the-same/remove/reverse, "
         "Instance reassignment, dict set/del, scalar) interleaved with reads, on the original object, an unpickled copy and a clone, for "
         "four observe-declared properties (cached over list items, over an Instance path, over dict items; uncached): every read equals "
         "an independent recomputation, a cached getter runs at most once between relevant changes, a value-changing dependency change "
         "delivers a notification carrying the new value.",
    design_ref="DESIGN.md section 4 C12", technique="bounded exploration through the symbolic explorer with symbolic list indices; oracle = recomputation",
    note="No arithmetic in the code under test: the solver decides list indices and choice feasibility only (exhaustive bounded enumeration, "
         "labelled so). Legacy depends_on properties are outside the property's statement (they go stale with repeated items - observed, "
         "not claimed).")
CHECKS["C16"] = dict(
    text="Differential bounded exploration (through the symbolic explorer, list positions symbolic): the same handler is registered through "
         "on_trait_change with an extended name and through observe with the corresponding expression on one tree-shaped graph (fresh "
         "object at every insertion); 7 names (Instance, list and dict links with '.' and ':', two-level paths) x handler signatures x "
         "histories (k=2 quick, 3 thorough) of reassignment (incl. None <-> object), list append/insert/del/setitem/reverse/sort/clear/"
         "whole-list assignment, dict set/del/mixed update/assignment; after every step every node ever seen is probed: legacy call count "
         "== observe call count == independent reachability; '.' links report link changes, ':' links do not; removal stops all calls.",
    design_ref="DESIGN.md section 4 C16", technique="differential bounded exploration through the symbolic explorer with symbolic list indices; third party = independent reachability evaluator",
    note="No arithmetic, no kernel with equivalence classes in the code under test: the solver decides list indices and choice feasibility "
         "only - this is an exhaustive bounded enumeration and is labelled so (DESIGN.md named C16 as the first candidate for "
         "not_applicable; it is kept because the harness turned out free of false alarms). 1- and 2-argument handlers only where the "
         "legacy API documents them as compatible.")
# ---- additions made while strengthening against the second round of seeded changes (DESIGN.md 9.5) ----
ADDED = {
    "C01": " Added: dynamic Range (bounds / default named by other traits) histories (k=3 quick, 4 thorough) in which every assigned value, "
           "bound and default is an unbounded z3 Int and the real _get/_set/_validate/_set_value run natively on the proxies, against a "
           "reference model of the documented behaviour; a mapped compound configuration (Trait(default, mapping, List(Int))).",
    "C02": " Added: Float trait histories (an exact float is stored as the object assigned; re-assigning it - NaN included - is no change); "
           "failing quiet updates (trait_setq / trait_set(trait_change_notify=False) run natively) must not leave notifications off; "
           "observe's default exception handler with values whose repr raises.",
    "C03": " Added: the float Range descriptor is now produced by the REAL Range constructor run on symbolic bounds; Map is built by the real "
           "constructor and its defining mapping may change afterwards; compounds with several tuple alternatives; definitions derived by "
           "calling a trait type with other metadata (clone).",
    "C04": " Added: whole-value assignment from 8 kinds of source object (self, copy, deepcopy, pickle, another owner, a lax owner holding "
           "invalid items, an inner container of a nested trait, a plain container), with an invalid item smuggled into detached copies "
           "through the built-in base class; type-based invalid items that EQUAL a member for Set traits.",
    "C05": " Added: the same one-step obligations on an owner-backed TraitListObject (List trait value) with the legacy items handler and two "
           "observe handlers attached: every observe handler receives exactly one event per change notification with the same (index, "
           "removed, added), a delivered event is not modified afterwards; items are equal-but-distinct twins; falsy owner.",
    "C06": " Added: the same obligations on an owner-backed TraitDictObject with 1 legacy + 2 observe handlers (mirror obligations: same delta, "
           "delivered events not modified afterwards), falsy owner.",
    "C07": " Added: type-based validity (a wrong-typed item that EQUALS a member) on bare and owner-backed sets; owner-backed TraitSetObject "
           "with mirror obligations and falsy owner; copies of Set trait values (copy, deepcopy, owner pickled / cloned / copy_traits, "
           "assignment of copies with a smuggled invalid member).",
    "C08": " Added: links that admit objects lacking the observed trait (hook-up fails half way; what hangs below a failed object is "
           "unspecified, everything detached must be silent), metadata-filtered links, reassignment of an EQUAL container, stale "
           "containers, a constant default that is itself observable.",
    "C09": " Added to the histories: multiplicity-changing list mutations, a graph mutation whose hook-up fails (the replaced object must be "
           "detached), multi-expression registrations with duplicated patterns and a failing tail. Known finding: sibling maintainers are "
           "skipped after a failed hook-up.",
    "C10": " Added: Union-of-Set / Dict / nested Union and user-defined TraitType default kinds; reset obligations (del / reset_traits with "
           "handlers attached: the default handed to handlers is the object later reads return, computed once per reset).",
    "C11": " Added: two-level chains over every pair of prefix styles, subclass variants (declarations inherited / redefined), assignment of "
           "the target's current value, a decoy attribute of the delegate.",
    "C12": " Added: a dict-of-instances dependency, a dependency on a never-assigned constant default object, whole-container hook-up with "
           "repeated items (initially, by assignment, after unpickling / cloning), 22 operations.",
    "C13": " Added: wildcards added after class creation (P8), remove_trait post-conditions, invalid writes for typed traits and typed Events "
           "with and without listeners. The attribute name is bounded to 16 characters.",
    "C14": " Added: definitions with non-default comparison modes, pickle protocols 0 and 1, never-written write-once attributes, aliasing "
           "through a Set(Instance) trait.",
    "C15": " Added to the concrete witness checks: compile_str, the list form of an expression and HasTraits.observe agree with parse() on "
           "rejection; compiling is pure (list-form use does not change what a string alone denotes); registration by text and removal by "
           "an equivalent spelling through HasTraits.observe.",
    "C16": " Added: value-equal 'twin' objects (value-based __eq__, identity hash) and a failing sibling registration under the same name.",
    "C17": " Added: the adapting trait in 10 positions (stand-alone, compound, Union, List/Dict/Set/Tuple member, class given by name), falsy "
           "adapters, a protocol whose class NAME equals another protocol's in a different module.",
    "C18": " Added under ghost counts: dynamic defaults that fail validation (incl. traits storing the original value), look-up through a "
           "delegation cycle (recursion-limit exit), trait_property_changed with a raising handler; property get/set/delete of every arity.",
    "C19": " Added scenarios: a failing adapter factory (stand-alone, in a compound, in a Union), the library's default notification exception "
           "handler with RuntimeError-family exceptions whose first argument is not a string.",
    "C20": " Added: NaN and array-like values (identity of the objects on both sides, no raise), a link removed or moved to another partner by "
           "an earlier handler of the change being dispatched.",
}
ADDED3 = {
    "C01": " Round 3: validated Property(<inner>) configurations, cloned Instance definitions, ValidatedTuple with numeric strings, the "
           "pure-Python Base* types, PrefixList / PrefixMap decided for every string of length <= 8.",
    "C02": " Round 3: deferring traits with handlers attached late, the default legacy exception handler with unprintable values, an "
           "inherited @observe method with a magic name, definitions inherited with a new default / used a second time.",
    "C03": " Round 3: This with a subclass instance, cast types with raising __str__/__bytes__/__bool__, forward references in compounds.",
    "C04": " Round 3: sharing obligations (one definition object, two attributes / two objects), Undefined items, list refinement.",
    "C05": " Round 3: unnamed object-level handler route, traits added with add_trait next to silent foreign twins, the list itself as operand, "
           "index objects in replays.",
    "C06": " Round 3: owner variants (anytrait route, added traits, falsy owner), typed validators with equal-but-wrong-typed keys.",
    "C07": " Round 3: the set itself as operand, sets of frozensets with mutable-set arguments, frozen members.",
    "C08": " Round 3: add_trait under a metadata-filtered link, Any-typed boxes and dict children, deletion of links.",
    "C09": " Round 3: the maintainer multiset algebra (value-equal owners are different owners), decorated observers through a diamond.",
    "C10": " Round 3: dict-subclass defaults, one definition object carrying a default method for one attribute only, shared definitions.",
    "C11": " Round 3: delegate objects that all compare equal, targets with comparison_mode none re-assigned their identical value.",
    "C12": " Round 3: identity-mode dependency, cached getter overridden in a subclass, an object with only an unnamed listener.",
    "C13": " Round 3: writes through renaming delegations onto strict / private delegates (setattr_delegate interpreted), definitions "
           "transplanted with add_trait (as is, copy, deepcopy, pickle), remove_trait takes the value away.",
    "C14": " Round 3: Dict keyed by nodes, mapped shadow under a quiet restore, copy.copy of definitions, the original definition unaffected.",
    "C15": " Round 3: derivations of 9-15 tokens (group with a common first name inside a series), '+items', metadata-filter semantics.",
    "C16": " Round 3: registration forms - equal listener objects, decorated with post_init / constructor arguments, re-declared by a subclass.",
    "C17": " Round 3: stand-in objects whose __class__ lies, supports_protocol against adapt, @provides declarations.",
    "C18": " Round 3: raising post_setattr, class prefix without __prefix__, garbage-collector support (traverse / clear against the struct "
           "declarations), the constructor path.",
    "C19": " Round 3: default method failing inside an assignment, observer filter failing at its k-th call during removal.",
    "C20": " Round 3: run-time added list traits with a bystander, rejected quiet updates followed by ordinary traffic.",
}
ADDED4 = {
    "C01": " Round 4: Array / CArray / ArrayOrNone (dtype and shape: the real AbstractArray constructor and validate on SYMBOLIC shape "
           "specifications and arrays with symbolic shapes - an ndarray subclass reporting z3 Int dimensions; dtypes x casting rules go "
           "through numpy on concrete dtypes), the governing definition reached by other routes (two-hop deferral with a renaming first hop, "
           "an inherited long wildcard under a shorter one, a validated Property whose setter a subclass overrides, a re-declared default), "
           "Trait(float) / Trait(complex) coercion.",
    "C02": " Round 4: deferral onto Event traits (DelegatesTo / PrototypedFrom, listenable or not), ONE CTrait object declared for several "
           "attributes and another class, each with its own static handlers.",
    "C03": " Round 4: Trait(float) / Trait(complex) / Trait(str) (TraitCoerceType: both implementations coerce and use instance checks).",
    "C04": " Round 4: container traits as alternatives of Union / Either, CList / CSet, nested containers of classes named by forward reference.",
    "C05": " Round 4: owner-backed extended slices selecting >= 2 items (n = 3) with the slice model visible to the observation event "
           "factories, a third observe handler registered through a metadata filter before the value exists, equal container re-assigned, "
           "validators rejecting with a bare TraitError, containers added over a name that held another container kind, containers that "
           "outlive their place in the owner (remove_trait / re-assignment / reset / owner collected).",
    "C06": " Round 4: as C05 for Dict (filtered third observer, bare TraitError, added-over, detached containers); any exception class other "
           "than the built-in's / TraitError is a violation.",
    "C07": " Round 4: as C05 for Set; members that are sets hashable by identity.",
    "C08": " Round 4: a Dict value replaced under its key by an equal-but-distinct object, wildcard-governed names (also underscore "
           "prefixes) that hold a value when the handler is registered.",
    "C09": " Round 4: value-equal dict values in the histories, collectability after a failing notification, names a wildcard will govern "
           "registered beforehand (trait(name, optional), '*') and removed again.",
    "C10": " Round 4: isolation of wildcard-governed names across instances (five registration forms), custom trait types / Trait(x, dict) "
           "whose inferred default is an instance of a dict / list subclass.",
    "C11": " Round 4: target attributes holding List / Dict / Set (items events under the deferring name; deferring names shorter than, as "
           "long as, longer than the target name), deferrals declared with listenable=False.",
    "C12": " Round 4: one update() naming a new key twice, a cached base getter called by a plain override, a metadata filter one level down "
           "with component traits added before / after hook-up.",
    "C13": " Round 4: undeclared __xxx__ names on all three class kinds (has_traits_setattro interpreted, constructor keyword), companion "
           "names of added container / mapped traits after remove_trait.",
    "C14": " Round 4: transient containers with declared observers created while the state is applied, attributes derived from ONE reusable "
           "definition, Expression (mapped shadow is a code object).",
    "C15": " Round 4: '*' semantics at the notification level (names like items events, underscore names, traits added later), a connector "
           "after '+name' (defaults created later, equal objects assigned later).",
    "C16": " Round 4: final attributes selected by metadata ('child:+mtag': true / false / undefined), containers in terminal position "
           "changed in place, exceptions from graph mutations are violations.",
    "C17": " Round 4: default METHODS returning objects that need adapting, the module-level adapt / supports_protocol entry points against "
           "the manager's methods.",
    "C18": " Round 4: hand-written fast-validation descriptor shapes (every loop of validate_trait_coerce_type), objects handed back without "
           "any reference operation, failure atomicity of every method-table function (a call that raises leaves the record as it was).",
    "C19": " Round 4: removal of a two-graph expression failing in the second graph, observe's default exception handler with unprintable events.",
    "C20": " Round 4: synchronised Expression traits (the trait stores the original text, validation yields a code object).",
}
ADDED5 = {
    "C01": " Round 5: wildcards added to a finished class (add_class_trait), one-character 'p*' deferrals.",
    "C02": " Round 5: the handler population changed during a dispatch (named / name-less / observe routes), comparison mode switched "
           "after the definition was made, listener objects registered with add_trait_listener; SOLVER-DECIDED: the compiled comparison-mode "
           "setter / getter on an arbitrary 32-bit flag word (bit-vector) and an unbounded integer mode.",
    "C03": " Round 5: classes with virtual subclasses (ABC.register, __subclasshook__, collections.abc.Sized), stand-in values in every "
           "Adapt configuration.",
    "C04": " Round 5: defaults of every container trait (also Trait(<default>, List(...))), falsy-constant inner traits, falsy owners.",
    "C05": " Round 5: the list model distinguishes indices beyond a C ssize_t (insert / pop raise OverflowError there), static items handlers "
           "of subclasses / equal listener objects / Undefined items (class-routes), wildcard-declared lists, notifiers taken at construction, "
           "detached containers that equal the current value after their next change.",
    "C06": " Round 5: class-routes (as C05), Undefined as key / value.",
    "C07": " Round 5: one-shot iterables, arguments the built-in refuses (a list ending in an unhashable item, a non-iterable), class-routes.",
    "C08": " Round 5: two roots that compare equal sharing a child (each registration its own).",
    "C09": " Round 5: a metadata-filtered link re-assigned an equal object, one object under two keys of an observed Dict, closure handlers "
           "that refer back to the observed object (collectable cycles).",
    "C10": " Round 5: default methods returning a shared template tuple, defaults of comparison-mode-none traits (PyObject_RichCompareBool "
           "contract added).",
    "C11": " Round 5: SOLVER-DECIDED name arithmetic - the forwarding listener's slicing on z3 strings (deferring name, target name, suffix) "
           "and the compiled name functions of the four prefix styles interpreted on symbolic name / prefix; base_trait() / validate_trait() "
           "along the chain; identity-compared targets.",
    "C12": " Round 5: a dependency selected by falsy metadata, values compared by content, a Set changed with symmetric_difference_update.",
    "C13": " Round 5: instance traits over class-level Events in the access histories.",
    "C14": " Round 5: a write-once attribute written with None, a cached property read while the state is applied, bare TraitLists validated "
           "by a bound method of their owner.",
    "C15": " Round 5: non-ASCII names and every ignored whitespace character in the rendered witnesses, a trait NAMED items added later.",
    "C16": " Round 5: bracketed groups of links, Dict names ending like the items suffix, metadata traits added later, the "
           "_<attribute>_changed_for_<link> spelling.",
    "C17": " Round 5: strict owners, instance clones of the definition, the global manager's life cycle (install, reset, re-install).",
    "C18": " Round 5: the setter sweep assigns the same value a second time; stand-ins in the Adapt validators.",
    "C19": " Round 5: a failing default under a dynamic Range assigned before it was ever read.",
    "C20": " Round 5: three objects synchronised pairwise with static handlers, re-raised handler exceptions and collectability; "
           "synchronised Expression traits.",
}
for _k, _v in ADDED5.items():
    ADDED4[_k] = ADDED4.get(_k, "") + _v
for _k, _v in ADDED4.items():
    ADDED3[_k] = ADDED3.get(_k, "") + _v
for _k, _v in ADDED3.items():
    ADDED[_k] = ADDED.get(_k, "") + _v
for _k, _v in ADDED.items():
    if _k in CHECKS:
        CHECKS[_k]["text"] = CHECKS[_k]["text"] + _v
NOT_APPLICABLE = {p: NOT_BUILT for p in ["C%02d" % i for i in range(1, 21)]}
