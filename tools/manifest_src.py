ENGINES = [
    {"name": "symx", "path": "vt/symx.py", "serves_properties": ["C05"],
     "kind_free_text": "symbolic execution of the real Python code on z3-backed proxies (DFS over decision prefixes by re-execution), "
                       "environment models for built-ins (vt/envmodels.py), concrete replay of every counterexample and one witness per path"},
]
NOTES = ("Exit codes: 0 held within the stated bounds; 1 VIOLATION (counterexample replayed on the real build); "
         "3 inconclusive or harness error (never reported as success). Every run copies /repo's working tree to a scratch "
         "directory, builds the extension there and analyses that copy. Known findings: known_findings.json.")
NOT_BUILT = "check not built yet (build in progress; see DESIGN.md section 4 for the planned obligations)"
CHECKS = {
    "C05": dict(
        text="Bounded model checking by symbolic execution: every TraitList mutator is run on z3 Int proxies for index, slice fields, "
             "insert/pop position, *= factor and sort keys; z3 shows, per explored path, that refinement of list, the replay law and the "
             "normal form of the event hold for all integer values; list length n<=4 (slices n<=3, thorough 6), replacement length <=2 (4). "
             "One-step obligations from an arbitrary state are inductive over histories because TraitList has no hidden state (asserted).",
        design_ref="DESIGN.md section 4 C05", technique="symbolic execution of the real Python code with z3 (symx), counterexamples replayed",
        note="Trusted: z3; the MSlice/ListModel/operator.index environment models (differentially self-tested against the built-ins on "
             "every run); CPython's list. Bounds: list length, replacement length, *= factor <= 3 for non-empty lists, |step| <= 8 in the "
             "length-unbounded normalisation obligation. Outside: sort with a user key that raises or mutates, validators that mutate the list."),
}
NOT_APPLICABLE = {p: NOT_BUILT for p in ["C%02d" % i for i in range(1, 21)]}
