#!/bin/sh
# usage: proc_seed3.sh <PROP>  -- confirm the three round-5 seeds of a property in fresh worktrees, drop its seeding worktree, try them
P="$1"
for M in m1 m2 m3; do /verif/tools/confirm_seed.sh $P $M /tmp/seed_out5 r5; done
/verif/tools/rmwt.sh seed5_$P
for M in m1 m2 m3; do
  if [ -f /verif/seeded/$P-r5$M/patch.diff ]; then
    echo "=== $P r5$M"; /verif/tools/try_seed_wt.sh $P /verif/seeded/$P-r5$M/patch.diff 2>&1 | cut -c1-330
  fi
done
