#!/bin/sh
# usage: try_seed_wt.sh <PROP> <patch.diff> [-R] [extra check args]
# Run a check against a scratch worktree of /repo HEAD with the patch applied (-R: reverse-applied), leaving /repo untouched
# (VERIF_REPO points the scratch build at the worktree).  Evidence written by such a run is NOT kept: the evidence file is restored.
P="$1"; D="$2"; shift 2
REV=""; if [ "$1" = "-R" ]; then REV="-R"; shift; fi
N="try_$$"; WT="/tmp/wt/$N"; mkdir -p /tmp/wt
git -C /repo worktree add -f --detach "$WT" HEAD >/dev/null 2>&1 || { echo "worktree failed"; exit 9; }
if ! git -C "$WT" apply $REV "$D"; then echo "patch does not apply"; git -C /repo worktree remove --force "$WT"; exit 9; fi
EV=/verif/evidence/$P.json; cp "$EV" /tmp/ev_$$.json 2>/dev/null
L=/tmp/try_seed.$$.log
cd /verif && VERIF_REPO="$WT" ./check "$P" "$@" > $L 2>&1; rc=$?
[ -f /tmp/ev_$$.json ] && mv /tmp/ev_$$.json "$EV"
git -C /repo worktree remove --force "$WT"; git -C /repo worktree prune
grep -c "^VIOLATION" $L | sed "s/^/violations: /"
grep -m3 "^VIOLATION\|^INCONCLUSIVE\|^HARNESS" $L | cut -c1-400
tail -1 $L | cut -c1-200
echo "exit=$rc"; rm -f $L
exit $rc
