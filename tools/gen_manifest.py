#!/usr/bin/env python3
"""Regenerate MANIFEST.json from tools/manifest_src.py (keeps it valid against the schema)."""
import json, os, sys
HERE = os.path.dirname(os.path.dirname(os.path.abspath(__file__)))
sys.path.insert(0, os.path.join(HERE, "tools"))
import manifest_src as m
props = [json.loads(l)["id"] for l in open(os.path.join(HERE, "properties.jsonl"))]
checks = []
for pid in props:
    c = m.CHECKS.get(pid)
    if not c:
        continue
    checks.append({
        "property_id": pid,
        "quick_cmd": "./check %s --tier quick" % pid,
        "thorough_cmd": "./check %s --tier thorough" % pid,
        "evidence_file": "/verif/evidence/%s.json" % pid,
        "replay_cmd_template": "./check %s --replay {path}" % pid,
        "engine": c.get("engine", "symx"),
        "level_claimed": {"category": c.get("category", "model_checking"), "text": c["text"], "design_ref": c["design_ref"]},
        "level_note": c["note"],
        "technique": c["technique"],
    })
na = [{"property_id": pid, "reason": m.NOT_APPLICABLE[pid]} for pid in props if pid not in m.CHECKS]
man = {
    "version": 1,
    "setup_cmd": "./setup.sh",
    "hooks": {"guard": "TRAITS_VERIF", "enable": "no hooks: checks analyse an unmodified copy of /repo's working tree (scratch build per run)",
              "baseline_off_cmd": "cd /repo && /venv/bin/python -m pytest -ra -q -p no:cacheprovider --timeout=900 --continue-on-collection-errors",
              "source_commits": [], "add_only": True},
    "engines": m.ENGINES,
    "checks": checks,
    "notes": m.NOTES,
    "not_applicable": na,
}
json.dump(man, open(os.path.join(HERE, "MANIFEST.json"), "w"), indent=1)
try:
    import jsonschema
    jsonschema.validate(man, json.load(open("/root/.vp/MANIFEST.schema.json")))
    print("MANIFEST.json valid;", len(checks), "checks;", len(na), "not_applicable")
except ImportError:
    print("written (jsonschema not available to validate)")
