#!/usr/bin/env python3
"""Print a python file with docstrings and comment-only/blank lines removed, keeping original line numbers."""
import ast, sys, tokenize, io
path = sys.argv[1]
lo = int(sys.argv[2]) if len(sys.argv) > 2 else 1
hi = int(sys.argv[3]) if len(sys.argv) > 3 else 10**9
src = open(path).read()
tree = ast.parse(src)
skip = set()
for node in ast.walk(tree):
    if isinstance(node, (ast.FunctionDef, ast.ClassDef, ast.AsyncFunctionDef, ast.Module)):
        b = node.body
        if b and isinstance(b[0], ast.Expr) and isinstance(getattr(b[0], 'value', None), ast.Constant) and isinstance(b[0].value.value, str):
            for l in range(b[0].lineno, b[0].end_lineno + 1):
                skip.add(l)
for i, line in enumerate(src.splitlines(), 1):
    if i < lo or i > hi or i in skip: continue
    s = line.strip()
    if not s or s.startswith('#'): continue
    print(f"{i:5d} {line}")
