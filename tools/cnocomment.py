#!/usr/bin/env python3
import re, sys
src=open(sys.argv[1]).read()
lo=int(sys.argv[2]); hi=int(sys.argv[3])
# strip /* */ comments preserving newlines
def repl(m): return re.sub(r'[^\n]', '', m.group(0))
src=re.sub(r'/\*.*?\*/', repl, src, flags=re.S)
for i,l in enumerate(src.split('\n'),1):
    if lo<=i<=hi and l.strip() and not l.strip().startswith('//'): print(f"{i:5d} {l.rstrip()}")
