"""Models of Python built-ins on abstract values (proxies).  Used twice, on purpose with the *same* code:
  * as shadows of `type`, `isinstance`, `int`, `float`, ... inside traits' Python modules (side P of C03), and
  * by the CPython-API models of csym (side F), which the compiled code reaches through PyObject_Call(int, ...),
    PyFloat_AsDouble, PyNumber_Index, ...
For real (concrete) Python objects every model simply does the real thing.

User-defined conversion protocols (__index__, __float__, __complex__) are *nondeterministic stubs*:
an object of class ProtoObj returns a fresh symbolic value of the right kind or raises an exception whose class is a
symbolic choice; the outcome is memoised on the object so that both sides of a comparison see the same one.
"""
import builtins
import operator as _operator

import z3

from . import symx
from .symx import SymInt, SymBool, SymFloat, SymComplex, SymOpaque, pytype_of, is_proxy

_real_type = builtins.type
_real_isinstance = builtins.isinstance
_real_issubclass = builtins.issubclass


class IntSub(int):
    pass


class FloatSub(float):
    pass


class ComplexSub(complex):
    pass


class StrSub(str):
    pass


class TupleSub(tuple):
    pass


class OtherError(Exception):
    """stands for 'any other exception class' raised by a user protocol method"""


PROTO_EXC = [TypeError, OverflowError, ValueError, OtherError]


class ProtoObj:
    """user object implementing some of __index__/__float__/__complex__ with nondeterministic outcomes"""
    protocols = ()

    def __init__(self, tag, ex):
        self._tag = tag
        self._ex = ex
        self._memo = {}

    def _outcome(self, proto):
        if proto in self._memo:
            return self._memo[proto]
        ex = self._ex
        name = "%s.%s" % (self._tag, proto)
        if ex.sym:
            raises = ex.flag(name + ".raises")
            if raises:
                out = ("raise", PROTO_EXC[ex.choice(name + ".exc", len(PROTO_EXC))])
            elif proto == "__index__":
                # result kind: exact int / int subclass / bool
                kind = ex.choice(name + ".kind", 4)
                if kind == 2:
                    out = ("ok", ex.flag(name + ".bool"))
                elif kind == 3:     # an int beyond the double range (the OverflowError side of int -> float)
                    big = ex.int(name + ".huge")
                    ex.assume(z3.Or(big.e >= symx.I2D_OVERFLOW, big.e <= -symx.I2D_OVERFLOW))
                    out = ("ok", big)
                else:
                    out = ("ok", _copy_int(ex.int64(name + ".value"), pytype=int if kind == 0 else IntSub))
            elif proto == "__float__":
                out = ("ok", SymFloat(ex.fp(name + ".value").f))
            else:
                out = ("ok", SymComplex(ex.fp(name + ".re").f, ex.fp(name + ".im").f))
        else:
            raises = ex.flag(name + ".raises")
            if raises:
                out = ("raise", PROTO_EXC[ex.choice(name + ".exc", len(PROTO_EXC))])
            elif proto == "__index__":
                kind = ex.choice(name + ".kind", 4)
                if kind == 2:
                    out = ("ok", ex.flag(name + ".bool"))
                elif kind == 3:
                    out = ("ok", ex.int(name + ".huge"))
                else:
                    v = ex.int64(name + ".value")
                    out = ("ok", v if kind == 0 else IntSub(v))
            elif proto == "__float__":
                out = ("ok", ex.fp(name + ".value"))
            else:
                out = ("ok", complex(ex.fp(name + ".re"), ex.fp(name + ".im")))
        self._memo[proto] = out
        return out

    def _run(self, proto):
        kind, v = self._outcome(proto)
        if kind == "raise":
            raise v("raised by user %s" % proto)
        return v

    def __repr__(self):
        return "<%s %s>" % (_real_type(self).__name__, self._tag)


class IndexObj(ProtoObj):
    protocols = ("__index__",)

    def __index__(self):
        return self._run("__index__")


class FloatObj(ProtoObj):
    protocols = ("__float__",)

    def __float__(self):
        return self._run("__float__")


class ComplexObj(ProtoObj):
    protocols = ("__complex__",)

    def __complex__(self):
        return self._run("__complex__")


class IndexFloatObj(ProtoObj):
    """like a numpy integer scalar: has both __index__ and __float__ (and __int__)"""
    protocols = ("__index__", "__float__")

    def __index__(self):
        return self._run("__index__")

    def __float__(self):
        return self._run("__float__")


# ----------------------------------------------------------------------------------------
class _ShadowMeta(type):
    """a stand-in for a built-in type inside a shadowed module: callable like the type (through the model),
    usable in isinstance/issubclass, and identical to what the shadowed type() returns for that type"""

    def __call__(cls, *a, **k):
        return cls._model(*a, **k)

    def __instancecheck__(cls, obj):
        return m_isinstance(obj, cls._real)

    def __subclasscheck__(cls, sub):
        return _real_issubclass(unshadow(sub), cls._real)

    def __repr__(cls):
        return repr(cls._real)


SHADOW_OF = {}


def mk_shadow(real, model):
    sh = _ShadowMeta(real.__name__, (), {"_real": real, "_model": staticmethod(model)})
    SHADOW_OF[real] = sh
    return sh


def unshadow(cls):
    if _real_isinstance(cls, tuple):
        return tuple(unshadow(c) for c in cls)
    return getattr(cls, "_real", cls) if _real_isinstance(cls, _ShadowMeta) else cls


def m_type(*args):
    if len(args) != 1:
        return _real_type(*args)
    t = pytype_of(args[0])
    return SHADOW_OF.get(t, t)


def m_isinstance(obj, cls):
    cls = unshadow(cls)
    if is_proxy(obj):
        return _real_issubclass(pytype_of(obj), cls)
    return _real_isinstance(obj, cls)


def m_issubclass(sub, cls):
    return _real_issubclass(unshadow(sub), unshadow(cls))


def _late_z3():
    return z3


def _index_protocol(x):
    """operator.index(x) / PyNumber_Index: returns an int-like (real int/subclass, or SymInt) or raises"""
    if isinstance(x, SymInt):
        return x
    if isinstance(x, SymBool):
        return x
    if is_proxy(x):
        raise TypeError("'%s' object cannot be interpreted as an integer" % pytype_of(x).__name__)
    if isinstance(x, ProtoObj):
        if "__index__" not in x.protocols:
            raise TypeError("'%s' object cannot be interpreted as an integer" % _real_type(x).__name__)
        r = x.__index__()
        if isinstance(r, SymInt) or _real_isinstance(r, int):
            return r
        raise TypeError("__index__ returned non-int")
    return _operator.index(x)


def m_index(x):
    return _index_protocol(x)


def _copy_int(v, pytype=None):
    r = SymInt(v.e, pytype=pytype)
    if hasattr(v, "bv64"):
        r.bv64 = v.bv64
    return r


def exact_int(v):
    """PyNumber_Long / int() of an int-like: the exact-int copy"""
    if isinstance(v, SymInt):
        return v if v.pytype is int else _copy_int(v)
    if isinstance(v, SymBool):
        return SymInt(symx._z(v))
    return int(v)


def m_int(*args, **kw):
    if len(args) != 1 or kw:
        return int(*args, **kw)
    x = args[0]
    if isinstance(x, (SymInt, SymBool)):
        return exact_int(x)
    if isinstance(x, SymFloat):
        ex = symx.CUR
        if ex.decide(z3.fpIsNaN(x.f)):
            raise ValueError("cannot convert float NaN to integer")
        if ex.decide(z3.fpIsInf(x.f)):
            raise OverflowError("cannot convert float infinity to integer")
        return symx.double_to_int(x.f)
    if is_proxy(x):
        raise TypeError("int() argument must be a string, a bytes-like object or a real number, not '%s'"
                        % pytype_of(x).__name__)
    if isinstance(x, ProtoObj):
        # int(): __int__ (none here), then __index__, then __trunc__ (none)
        if "__index__" in x.protocols:
            return exact_int(_index_protocol(x))
        raise TypeError("int() argument must be a string, a bytes-like object or a real number")
    return int(x)


def int_to_double(v):
    """PyLong_AsDouble on an int-like proxy: SymFloat or OverflowError"""
    if getattr(v, "bv64", None) is None:
        e = symx._z(v)
        ex = symx.CUR
        if ex.decide(z3.Or(e >= symx.I2D_OVERFLOW, e <= -symx.I2D_OVERFLOW)):
            raise OverflowError("int too large to convert to float")
    return SymFloat(symx.int_to_double_term(v))


def as_double(x):
    """PyFloat_AsDouble: float subclasses are read directly; otherwise __float__, then __index__"""
    if isinstance(x, SymFloat):
        return x if x.pytype is float else SymFloat(x.f)
    if isinstance(x, (SymInt, SymBool)):
        return int_to_double(x)
    if is_proxy(x):
        raise TypeError("must be real number, not %s" % pytype_of(x).__name__)
    if isinstance(x, ProtoObj):
        if "__float__" in x.protocols:
            r = x.__float__()
            if isinstance(r, SymFloat):
                return r if r.pytype is float else SymFloat(r.f)
            if _real_isinstance(r, float):
                return float(r)
            raise TypeError("__float__ returned non-float")
        if "__index__" in x.protocols:
            r = _index_protocol(x)
            if isinstance(r, (SymInt, SymBool)):
                return int_to_double(r)
            return float(r)
        raise TypeError("must be real number, not %s" % _real_type(x).__name__)
    if _real_isinstance(x, float):
        return float.__float__(x)
    if _real_isinstance(x, (str, bytes, bytearray)):
        raise TypeError("must be real number, not %s" % _real_type(x).__name__)
    return float(x)      # real objects: __float__ / __index__ protocol by CPython itself


def m_float(*args):
    if len(args) != 1:
        return float(*args)
    x = args[0]
    if is_proxy(x) or isinstance(x, ProtoObj):
        return as_double(x)
    return float(x)


def as_ccomplex(x):
    """PyComplex_AsCComplex: complex subclasses read directly; __complex__; else PyFloat_AsDouble"""
    if isinstance(x, SymComplex):
        return x if x.pytype is complex else SymComplex(x.re, x.im)
    if isinstance(x, ProtoObj) and "__complex__" in x.protocols:
        r = x.__complex__()
        if isinstance(r, SymComplex):
            return r if r.pytype is complex else SymComplex(r.re, r.im)
        if _real_isinstance(r, complex):
            return complex(r)
        raise TypeError("__complex__ returned non-complex")
    if is_proxy(x) or isinstance(x, ProtoObj):
        d = as_double(x)
        if isinstance(d, SymFloat):
            return SymComplex(d.f, z3.FPVal(0.0, symx.F64))
        return complex(d, 0.0)
    if _real_isinstance(x, complex):
        return complex(x.real, x.imag)
    if _real_isinstance(x, (str, bytes, bytearray)):
        raise TypeError("complex number expected")
    if hasattr(_real_type(x), "__complex__"):
        return complex(x)
    return complex(float(x), 0.0)


def m_complex(*args):
    if len(args) != 1:
        return complex(*args)
    x = args[0]
    if is_proxy(x) or isinstance(x, ProtoObj):
        return as_ccomplex(x)
    return complex(x)


def _origin(x):
    if isinstance(x, SymInt):
        return ("int", pytype_of(x).__name__, x.e.get_id(), x.e)
    if isinstance(x, SymFloat):
        return ("float", pytype_of(x).__name__, x.f.get_id(), x.f)
    if isinstance(x, SymComplex):
        return ("complex", x.re.get_id(), x.im.get_id(), x.re, x.im)
    if isinstance(x, SymOpaque):
        return ("opaque",) + tuple(x.origin)
    return ("real", id(x))


def m_str(*args, **kw):
    if len(args) != 1 or kw:
        return str(*args, **kw)
    x = args[0]
    if is_proxy(x):
        if isinstance(x, SymOpaque) and x.pytype is str:
            return x
        return SymOpaque(str, ("str",) + _origin(x))
    return str(x)


def m_bytes(*args, **kw):
    if len(args) != 1 or kw:
        return bytes(*args, **kw)
    x = args[0]
    if isinstance(x, (SymInt, SymBool)):
        ex = symx.CUR
        if ex.decide(symx._z(x) < 0):
            raise ValueError("negative count")
        # bytes(n): n zero bytes; huge n hits the allocator (MemoryError) - outside the claim: stated bound n < 2**16
        ex.assume(symx._z(x) < 2 ** 16)
        return SymOpaque(bytes, ("bytes",) + _origin(x))
    if is_proxy(x):
        if isinstance(x, SymOpaque) and x.pytype is bytes:
            return x
        raise TypeError("cannot convert '%s' object to bytes" % pytype_of(x).__name__)
    return bytes(x)


def m_bool(*args):
    if len(args) != 1:
        return bool(*args)
    x = args[0]
    if isinstance(x, SymInt):
        return symx.CUR.decide(x.e != 0)
    if isinstance(x, SymBool):
        return symx.CUR.decide(x.e)
    if isinstance(x, SymFloat):
        return symx.CUR.decide(z3.Not(z3.fpIsZero(x.f)))
    if isinstance(x, SymComplex):
        return symx.CUR.decide(z3.Not(z3.And(z3.fpIsZero(x.re), z3.fpIsZero(x.im))))
    if isinstance(x, SymOpaque):
        raise symx.HarnessError("truth value of an opaque conversion result")
    return bool(x)


def py_eq(a, b):
    """bool(a == b) for possibly abstract values (what PyObject_RichCompareBool / `in` / == compute)"""
    if a is b:
        return True
    r = (a == b)
    if isinstance(r, SymBool):
        return symx.CUR.decide(r)
    return bool(r)


class ModelDict(dict):
    """a dict whose membership test / lookup accepts proxies: keys are compared with == (hashable proxy kinds only)"""

    def _find(self, key):
        if is_proxy(key):
            if isinstance(key, SymOpaque):
                raise symx.HarnessError("opaque value used as a dict key")
            for k in dict.keys(self):
                if py_eq(k, key):
                    return k
            return _MISSING
        return key if dict.__contains__(self, key) else _MISSING

    def __contains__(self, key):
        return self._find(key) is not _MISSING

    def __getitem__(self, key):
        k = self._find(key)
        if k is _MISSING:
            raise KeyError(key)
        return dict.__getitem__(self, k)

    def get(self, key, default=None):
        k = self._find(key)
        return default if k is _MISSING else dict.__getitem__(self, k)


_MISSING = object()


class OperatorShadow:
    index = staticmethod(m_index)

    def __getattr__(self, name):
        return getattr(_operator, name)


BUILTIN_MODELS = {int: m_int, float: m_float, complex: m_complex, str: m_str, bytes: m_bytes, bool: m_bool}
IntShadow = mk_shadow(int, m_int)
FloatShadow = mk_shadow(float, m_float)
ComplexShadow = mk_shadow(complex, m_complex)
StrShadow = mk_shadow(str, m_str)
BytesShadow = mk_shadow(bytes, m_bytes)
BoolShadow = mk_shadow(bool, m_bool)


def call_builtin(fn, args):
    """PyObject_Call(fn, args) where fn may be one of the modelled built-in types"""
    m = BUILTIN_MODELS.get(fn)
    if m is not None and any(is_proxy(a) or isinstance(a, ProtoObj) for a in args):
        return m(*args)
    return fn(*args)


# ----------------------------------------------------------------------------------------
def same_value(a, b):
    """z3 condition (or python bool): a and b are 'an equal value of the same exact type'
    (numbers: same exact type and bitwise-identical payload, NaN == NaN, +0 != -0; tuples: element-wise;
    everything else: identity or == with the same type)."""
    if a is b:
        return True
    ta, tb = pytype_of(a), pytype_of(b)
    if ta is not tb:
        return False
    if isinstance(a, SymOpaque) or isinstance(b, SymOpaque):
        if not (isinstance(a, SymOpaque) and isinstance(b, SymOpaque)):
            return False
        oa = tuple(x for x in a.origin if not z3.is_expr(x))
        ob = tuple(x for x in b.origin if not z3.is_expr(x))
        return oa == ob
    if isinstance(a, (SymInt, SymBool)) or isinstance(b, (SymInt, SymBool)):
        if _real_isinstance(a, (int, SymInt, SymBool)) and _real_isinstance(b, (int, SymInt, SymBool)):
            return symx._z(a) == symx._z(b)
        return False
    if isinstance(a, SymFloat) or isinstance(b, SymFloat):
        fa, fb = symx.fpval(a), symx.fpval(b)
        if fa is NotImplemented or fb is NotImplemented:
            return False
        return fa == fb     # SMT-LIB '=' on floats: NaN = NaN, +0 != -0 (exactly the observable identity)
    if isinstance(a, SymComplex) or isinstance(b, SymComplex):
        def parts(c):
            if isinstance(c, SymComplex):
                return c.re, c.im
            return z3.FPVal(c.real, symx.F64), z3.FPVal(c.imag, symx.F64)
        (ar, ai), (br, bi) = parts(a), parts(b)
        eq = lambda x, y: x == y
        return z3.And(eq(ar, br), eq(ai, bi))
    if _real_isinstance(a, (tuple, list)) and _real_isinstance(b, (tuple, list)):
        if len(a) != len(b):
            return False
        conds = [same_value(x, y) for x, y in zip(a, b)]
        if any(c is False for c in conds):
            return False
        zs = [c for c in conds if c is not True]
        return z3.And(*zs) if zs else True
    if _real_isinstance(a, float) and _real_isinstance(b, float):
        import math, struct
        return struct.pack("<d", a) == struct.pack("<d", b) or (math.isnan(a) and math.isnan(b))
    if _real_isinstance(a, complex) and _real_isinstance(b, complex):
        return same_value(a.real, b.real) and same_value(a.imag, b.imag)
    try:
        return bool(a == b)
    except Exception:
        return False
