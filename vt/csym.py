"""csym: symbolic interpreter for traits/ctraits.c over clang's JSON AST (regenerated from the current source).

C pointers to Python objects are references to *real* Python objects or to proxies (symx.SymInt, SymFloat, ...).
CPython API functions are models (vt/capi.py); concrete arguments are handled by doing the real thing in Python.
Symbolic branch conditions go through the active symx explorer, so interpreted C and natively running Python
share one path condition.  Memory-safety assertions (NULL dereference, tuple index out of range, static table
subscript out of range, NULL function pointer call) are checked on every path and reported through `MemSafety`.
"""
import json
import z3

from . import symx
from .symx import SymInt, SymBool, SymFloat, SymComplex


class CNullType:
    _inst = None

    def __new__(cls):
        if cls._inst is None:
            cls._inst = object.__new__(cls)
        return cls._inst

    def __bool__(self):
        return False

    def __repr__(self):
        return "NULL"


NULL = CNullType()


class MemSafety(Exception):
    """a memory-safety assertion failed on the current path (this is a finding, not a harness error)"""


class Unsupported(Exception):
    """AST construct or API function without semantics: harness error, never skipped silently"""


class FnPtr:
    def __init__(self, name):
        self.name = name

    def __eq__(self, o):
        return isinstance(o, FnPtr) and o.name == self.name

    def __hash__(self):
        return hash(self.name)

    def __repr__(self):
        return "&" + self.name


class Ref:
    """pointer to a C variable / struct field (for &x and out-parameters)"""

    def __init__(self, get, set_):
        self.get, self.set = get, set_


class ItemsRef:
    """((PyTupleObject*)t)->ob_item  /  ((PyListObject*)l)->ob_item"""

    def __init__(self, base):
        self.base = base


class Struct:
    """a C struct instance (trait_object, has_traits_object, Py_complex, ...): named fields"""

    def __init__(self, ctype, **fields):
        self.__dict__["ctype"] = ctype
        self.__dict__["f"] = dict(fields)

    def __getattr__(self, k):
        try:
            return self.__dict__["f"][k]
        except KeyError:
            raise AttributeError(k)

    def __setattr__(self, k, v):
        self.__dict__["f"][k] = v

    def __repr__(self):
        return "<%s>" % self.ctype


class StaticArray:
    """a file-scope array with an initialiser list (the handler tables)"""

    def __init__(self, name, items):
        self.name, self.items = name, items


class _Return(Exception):
    def __init__(self, v):
        self.v = v


class _Break(Exception):
    pass


class _Continue(Exception):
    pass


class _Goto(Exception):
    def __init__(self, label):
        self.label = label


INT_TYPES = {
    "int": (32, True), "unsigned int": (32, False), "long": (64, True), "unsigned long": (64, False),
    "Py_ssize_t": (64, True), "size_t": (64, False), "long long": (64, True), "unsigned long long": (64, False),
    "char": (8, True), "unsigned char": (8, False), "short": (16, True), "unsigned short": (16, False),
    "Py_UCS4": (32, False), "Py_UCS1": (8, False), "Py_UCS2": (16, False), "Py_hash_t": (64, True),
    "uint32_t": (32, False), "int32_t": (32, True), "uint64_t": (64, False), "int64_t": (64, True),
    "_Bool": (8, False), "Py_uintptr_t": (64, False), "uintptr_t": (64, False),
}


def int_type(node):
    t = node.get("type", {})
    q = t.get("desugaredQualType") or t.get("qualType") or ""
    q = q.replace("const ", "").strip()
    if q in INT_TYPES:
        return INT_TYPES[q]
    q2 = (t.get("qualType") or "").replace("const ", "").strip()
    return INT_TYPES.get(q2)


def is_ptr_node(n):
    """static C type of the expression is a pointer (object pointer, function pointer, decayed array)"""
    t = n.get("type", {})
    q = (t.get("desugaredQualType") or t.get("qualType") or "").strip()
    return q.endswith("*") or "(*)" in q or q.endswith("]") or q.endswith("*const") or q.endswith("* const")


def wrap(v, bits, signed):
    if not isinstance(v, int) or isinstance(v, bool):
        return v
    m = 1 << bits
    v &= m - 1
    if signed and v >= m >> 1:
        v -= m
    return v


class Program:
    """the functions, tables and globals of one translation unit"""

    def __init__(self, ast_path, main_file_suffix="ctraits.c"):
        with open(ast_path) as f:
            tu = json.load(f)
        self.functions = {}
        self.header_functions = {}
        self.global_decls = {}
        self.enums = {}
        self.records = {}
        self.record_types = {}
        anon_records = {}
        cur = None
        for n in tu["inner"]:
            loc = n.get("loc", {})
            f = loc.get("file") or loc.get("spellingLoc", {}).get("file") or loc.get("expansionLoc", {}).get("file")
            if f:
                cur = f
            main = bool(cur and cur.endswith(main_file_suffix))
            k = n.get("kind")
            if k == "FunctionDecl":
                if any(c.get("kind") == "CompoundStmt" for c in n.get("inner", [])):
                    (self.functions if main else self.header_functions)[n["name"]] = n
            elif k == "VarDecl" and main:
                self.global_decls[n["name"]] = n
            elif k == "EnumDecl":
                for c in n.get("inner", []):
                    if c.get("kind") == "EnumConstantDecl":
                        self.enums[c["name"]] = c
            elif k == "RecordDecl" and main and not n.get("name"):
                anon_records[n.get("id")] = {c["name"]: c.get("type", {}).get("qualType", "") for c in n.get("inner", [])
                                             if c.get("kind") == "FieldDecl"}
            elif k == "TypedefDecl" and main:
                def _ids(x):
                    if isinstance(x, dict):
                        for key in ("ownedTagDecl", "decl"):
                            if isinstance(x.get(key), dict) and x[key].get("id"):
                                yield x[key]["id"]
                        for c in x.get("inner", []):
                            yield from _ids(c)
                for i_ in _ids(n):
                    if i_ in anon_records:
                        self.records[n["name"]] = list(anon_records[i_])
                        self.record_types[n["name"]] = anon_records[i_]
            elif k == "RecordDecl" and main and n.get("name"):
                self.records[n["name"]] = [c["name"] for c in n.get("inner", []) if c.get("kind") == "FieldDecl"]
                self.record_types[n["name"]] = {c["name"]: c.get("type", {}).get("qualType", "") for c in n.get("inner", [])
                                                if c.get("kind") == "FieldDecl"}
        del tu
        self.labels = {}
        for name, fn in self.functions.items():
            body = self.body_of(fn)
            labs = {}
            for i, st in enumerate(body.get("inner", [])):
                if st.get("kind") == "LabelStmt":
                    labs[st["name"]] = i
            self.labels[name] = labs

    @staticmethod
    def body_of(fn):
        return [c for c in fn["inner"] if c.get("kind") == "CompoundStmt"][0]

    @staticmethod
    def params_of(fn):
        return [p.get("name", "_p%d" % i) for i, p in enumerate(c for c in fn["inner"] if c.get("kind") == "ParmVarDecl")]

    def function_span(self, name):
        fn = self.functions[name]
        r = fn.get("range", {})
        b = r.get("begin", {})
        e = r.get("end", {})
        lb = b.get("line") or b.get("expansionLoc", {}).get("line") or b.get("spellingLoc", {}).get("line")
        le = e.get("line") or e.get("expansionLoc", {}).get("line") or e.get("spellingLoc", {}).get("line")
        return lb, le


class Interp:
    MAX_LOOP = 4096
    MAX_DEPTH = 200

    def __init__(self, program, api, globals_):
        self.p = program
        self.api = api            # name -> python callable(interp, *args)
        self.globals = globals_   # name -> value for file-scope variables (PyObject* globals, types, ...)
        self.statics = {}         # lazily evaluated static arrays
        self.depth = 0
        self.trace = []           # (function name) call log for evidence / debugging
        self.called = set()
        api_state = getattr(api, "state", None)

    # ------------------------------------------------------------------------------------
    def truth(self, v, n=None):
        if n is not None and is_ptr_node(n):
            if v is Uninit:
                raise MemSafety("test of an uninitialised pointer")
            return v is not NULL
        if v is NULL:
            return False
        if isinstance(v, bool):
            return v
        if isinstance(v, int):
            return v != 0
        if isinstance(v, float):
            return v != 0.0
        if isinstance(v, SymBool):
            return symx.CUR.decide(v)
        if isinstance(v, SymInt):
            return symx.CUR.decide(v.e != 0)
        if isinstance(v, SymFloat):
            return symx.CUR.decide(z3.Not(z3.fpIsZero(v.f)))
        if z3.is_expr(v):
            if z3.is_bool(v):
                return symx.CUR.decide(v)
            if z3.is_bv(v):
                return symx.CUR.decide(v != 0)
            raise Unsupported("truth of z3 term %r" % (v,))
        if v is NULL:
            return False
        return True      # non-NULL pointer

    # ------------------------------------------------------------------------------------
    def call(self, name, args):
        if isinstance(name, FnPtr):
            name = name.name
        if name in self.api:
            return self.api[name](self, *args)
        fn = self.p.functions.get(name)
        if fn is None:
            raise Unsupported("call to function without a body or a model: %s" % name)
        self.depth += 1
        if self.depth > self.MAX_DEPTH:
            self.depth -= 1
            raise Unsupported("C recursion depth limit exceeded in %s" % name)
        self.called.add(name)
        params = self.p.params_of(fn)
        if len(params) != len(args):
            raise Unsupported("arity mismatch calling %s" % name)
        env = dict(zip(params, args))
        body = self.p.body_of(fn)
        stmts = body.get("inner", [])
        start = 0
        try:
            while True:
                try:
                    for st in stmts[start:]:
                        self.exec(st, env)
                    return None
                except _Goto as g:
                    labs = self.p.labels[name]
                    if g.label not in labs:
                        raise Unsupported("goto to a label that is not at function top level: %s in %s" % (g.label, name))
                    start = labs[g.label]
        except _Return as r:
            return r.v
        finally:
            self.depth -= 1

    # ------------------------------------------------------------------------------------
    def exec(self, n, env):
        k = n["kind"]
        if k == "CompoundStmt":
            for c in n.get("inner", []):
                self.exec(c, env)
        elif k == "DeclStmt":
            for v in n["inner"]:
                if v["kind"] != "VarDecl":
                    continue
                init = [c for c in v.get("inner", []) if c.get("kind") not in ("UnusedAttr",)]
                if init:
                    val = self.eval(init[0], env)
                    it = int_type(v)
                    if it:
                        val = wrap(val, *it)
                    env[v["name"]] = val
                else:
                    q = v["type"].get("desugaredQualType") or v["type"]["qualType"]
                    if q.startswith("Py_complex"):
                        env[v["name"]] = Struct("Py_complex", real=0.0, imag=0.0)
                    else:
                        env[v["name"]] = Uninit
        elif k == "IfStmt":
            c = n["inner"]
            if self.truth(self.eval(c[0], env), c[0]):
                self.exec(c[1], env)
            elif len(c) > 2:
                self.exec(c[2], env)
        elif k == "ReturnStmt":
            raise _Return(self.eval(n["inner"][0], env) if n.get("inner") else None)
        elif k == "ForStmt":
            init, _condvar, cond, inc, body = n["inner"]
            if init:
                self.exec(init, env)
            it = 0
            while True:
                if cond and not self.truth(self.eval(cond, env), cond):
                    break
                it += 1
                if it > self.MAX_LOOP:
                    raise Unsupported("unwinding assertion: for loop exceeded %d iterations" % self.MAX_LOOP)
                try:
                    self.exec(body, env)
                except _Break:
                    break
                except _Continue:
                    pass
                if inc:
                    self.eval(inc, env)
        elif k == "WhileStmt":
            cond, body = n["inner"][-2], n["inner"][-1]
            it = 0
            while self.truth(self.eval(cond, env), cond):
                it += 1
                if it > self.MAX_LOOP:
                    raise Unsupported("unwinding assertion: while loop exceeded %d iterations" % self.MAX_LOOP)
                try:
                    self.exec(body, env)
                except _Break:
                    break
                except _Continue:
                    pass
        elif k == "DoStmt":
            body, cond = n["inner"]
            it = 0
            while True:
                it += 1
                if it > self.MAX_LOOP:
                    raise Unsupported("unwinding assertion: do loop exceeded %d iterations" % self.MAX_LOOP)
                try:
                    self.exec(body, env)
                except _Break:
                    break
                except _Continue:
                    pass
                if not self.truth(self.eval(cond, env), cond):
                    break
        elif k == "SwitchStmt":
            self.exec_switch(n, env)
        elif k == "BreakStmt":
            raise _Break()
        elif k == "ContinueStmt":
            raise _Continue()
        elif k == "GotoStmt":
            raise _Goto(self.label_name(n))
        elif k == "LabelStmt":
            for c in n.get("inner", []):
                self.exec(c, env)
        elif k == "NullStmt":
            pass
        elif k in ("CaseStmt", "DefaultStmt"):
            # reached by fall-through inside a switch body: execute the sub-statement
            self.exec(n["inner"][-1], env)
        else:
            self.eval(n, env)

    def label_name(self, n):
        # clang's JSON gives targetLabelDeclId only; names are recovered from the function's labels
        tid = n.get("targetLabelDeclId")
        name = self._label_ids.get(tid)
        if name is None:
            raise Unsupported("goto with unknown label id")
        return name

    @property
    def _label_ids(self):
        m = getattr(self, "_lids", None)
        if m is None:
            m = {}

            def walk(x):
                if isinstance(x, dict):
                    if x.get("kind") == "LabelStmt":
                        m[x.get("declId")] = x["name"]
                    for c in x.get("inner", []):
                        walk(c)
            for fn in self.p.functions.values():
                walk(fn)
            self._lids = m
        return m

    def exec_switch(self, n, env):
        cond = self.eval(n["inner"][-2], env)
        body = n["inner"][-1]
        stmts = body.get("inner", []) if body["kind"] == "CompoundStmt" else [body]
        # find entry index
        entry = None
        default = None
        for i, st in enumerate(stmts):
            s = st
            while s.get("kind") in ("CaseStmt", "DefaultStmt"):
                if s["kind"] == "DefaultStmt":
                    default = i
                    s = s["inner"][-1]
                    continue
                cv = self.eval(s["inner"][0], env)
                if entry is None and self.truth(self.binop("==", cond, cv, None)):
                    entry = i
                s = s["inner"][-1]
            if entry is not None:
                break
        if entry is None:
            entry = default
        if entry is None:
            return
        try:
            for st in stmts[entry:]:
                self.exec(st, env)
        except _Break:
            pass

    # ------------------------------------------------------------------------------------
    def lvalue(self, n, env):
        """return a Ref for an lvalue expression"""
        k = n["kind"]
        if k == "ParenExpr":
            return self.lvalue(n["inner"][0], env)
        if k == "DeclRefExpr":
            name = n["referencedDecl"]["name"]
            if name in env:
                return Ref(lambda: env[name], lambda v: env.__setitem__(name, v))
            if name in self.globals:
                g = self.globals
                return Ref(lambda: g[name], lambda v: g.__setitem__(name, v))
            raise Unsupported("lvalue of unknown variable %s" % name)
        if k == "MemberExpr":
            base = self.eval(n["inner"][0], env)
            field = n["name"]
            if base is NULL or base is Uninit:
                raise MemSafety("NULL / uninitialised pointer dereference (->%s)" % field)
            if isinstance(base, Ref):
                base = base.get()
            if isinstance(base, Struct):
                return Ref(lambda: getattr(base, field), lambda v: setattr(base, field, v))
            return Ref(lambda: self.api["__member__"](self, base, field),
                       lambda v: self.api["__setmember__"](self, base, field, v))
        if k == "UnaryOperator" and n["opcode"] == "*":
            p = self.eval(n["inner"][0], env)
            if p is NULL or p is Uninit:
                raise MemSafety("NULL / uninitialised pointer dereference (*p)")
            if isinstance(p, Ref):
                return p
            if isinstance(p, FnPtr):
                return Ref(lambda: p, None)       # *fp designates the function itself
            raise Unsupported("dereference of non-reference %r" % (p,))
        if k == "ArraySubscriptExpr":
            base = self.eval(n["inner"][0], env)
            idx = self.eval(n["inner"][1], env)
            return self.subscript_ref(base, idx)
        if k in ("ImplicitCastExpr", "CStyleCastExpr"):
            return self.lvalue(n["inner"][0], env)
        raise Unsupported("lvalue of %s" % k)

    def subscript_ref(self, base, idx):
        if isinstance(base, ItemsRef):
            return Ref(lambda: self.api["__getitem__"](self, base.base, idx),
                       lambda v: self.api["__setitem__"](self, base.base, idx, v))
        if isinstance(base, StaticArray):
            def get():
                i = self.concrete_index(idx, len(base.items), "static table %s" % base.name)
                return base.items[i]
            return Ref(get, lambda v: (_ for _ in ()).throw(Unsupported("write to static table")))
        raise Unsupported("subscript of %r" % (base,))

    def concrete_index(self, idx, n, what):
        """index into a C array of n elements: assert 0 <= idx < n for every value on this path"""
        if isinstance(idx, int):
            if not (0 <= idx < n):
                raise MemSafety("%s subscripted out of range: index %d, size %d" % (what, idx, n))
            return idx
        e = symx._z(idx) if isinstance(idx, (SymInt, SymBool)) else idx
        ex = symx.CUR
        if z3.is_bv(e):
            inr = z3.ULT(e, n) if not getattr(idx, "signed", True) else z3.And(e >= 0, e < n)
        else:
            inr = z3.And(e >= 0, e < n)
        if not ex.check(inr, "memory safety: %s subscript within [0,%d)" % (what, n)):
            raise MemSafety("%s subscripted out of range (symbolic index)" % what)
        ex._add(inr)
        for i in range(n):
            if ex.decide(e == i):
                return i
        raise MemSafety("%s: no feasible index" % what)

    # ------------------------------------------------------------------------------------
    def eval(self, n, env):
        k = n["kind"]
        if k in ("ParenExpr", "ConstantExpr"):
            return self.eval(n["inner"][0], env)
        if k == "ImplicitCastExpr" or k == "CStyleCastExpr":
            ck = n.get("castKind")
            if ck == "NullToPointer":
                return NULL
            if ck == "ToVoid":
                self.eval(n["inner"][0], env)
                return None
            if ck == "FunctionToPointerDecay" or ck == "ArrayToPointerDecay" or ck == "BuiltinFnToFnPtr":
                return self.eval(n["inner"][0], env)
            v = self.eval(n["inner"][0], env)
            if ck == "IntegralCast":
                it = int_type(n)
                if it:
                    v = self.int_cast(v, it, n)
                return v
            if ck == "IntegralToBoolean":
                return 1 if self.truth(v) else 0
            if ck == "PointerToBoolean":
                return 0 if v is NULL else 1
            if ck == "IntegralToFloating":
                return float(v) if isinstance(v, int) else v
            if ck == "PointerToBoolean":
                return 0 if v is NULL else 1
            if ck == "IntegralToPointer":
                if v == 0:
                    return NULL
                raise Unsupported("integer to pointer cast")
            if ck == "PointerToIntegral":
                return 0 if v is NULL else id(v)
            return v   # LValueToRValue, BitCast, NoOp, FloatingCast...
        if k == "IntegerLiteral":
            return int(n["value"])
        if k == "CharacterLiteral":
            return int(n["value"])
        if k == "FloatingLiteral":
            return float(n["value"])
        if k == "StringLiteral":
            v = n["value"]
            return json.loads(v) if v.startswith('"') else v
        if k == "DeclRefExpr":
            rd = n["referencedDecl"]
            name = rd["name"]
            if rd["kind"] in ("VarDecl", "ParmVarDecl"):
                if name in env:
                    v = env[name]
                    return v
                return self.global_value(name)
            if rd["kind"] == "FunctionDecl":
                return FnPtr(name)
            if rd["kind"] == "EnumConstantDecl":
                return self.enum_value(name)
            raise Unsupported("DeclRefExpr to %s" % rd["kind"])
        if k == "UnaryOperator":
            return self.unary(n, env)
        if k == "BinaryOperator":
            return self.binary(n, env)
        if k == "CompoundAssignOperator":
            ref = self.lvalue(n["inner"][0], env)
            rhs = self.eval(n["inner"][1], env)
            op = n["opcode"][:-1]
            v = self.binop(op, ref.get(), rhs, n)
            it = int_type(n)
            if it:
                v = wrap(v, *it)
            ref.set(v)
            return v
        if k == "ConditionalOperator":
            c, a, b = n["inner"]
            return self.eval(a, env) if self.truth(self.eval(c, env), c) else self.eval(b, env)
        if k == "MemberExpr":
            return self.lvalue(n, env).get()
        if k == "ArraySubscriptExpr":
            return self.lvalue(n, env).get()
        if k == "CallExpr":
            f = self.eval(n["inner"][0], env)
            args = [self.eval(a, env) for a in n["inner"][1:]]
            if f is NULL or f is Uninit:
                raise MemSafety("call through a NULL function pointer")
            if not isinstance(f, FnPtr):
                raise Unsupported("call of non-function %r" % (f,))
            return self.call(f.name, args)
        if k == "InitListExpr":
            return [self.eval(c, env) for c in n.get("inner", [])]
        if k == "UnaryExprOrTypeTraitExpr":
            raise Unsupported("sizeof")
        if k == "StmtExpr":
            raise Unsupported("statement expression")
        raise Unsupported("expression kind %s" % k)

    def enum_value(self, name):
        c = self.p.enums[name]
        for ch in c.get("inner", []):
            try:
                return self.eval(ch, {})
            except Unsupported:
                pass
        raise Unsupported("enum constant without value: %s" % name)

    def global_value(self, name):
        if name in self.globals:
            return self.globals[name]
        if name in self.statics:
            return self.statics[name]
        d = self.p.global_decls.get(name)
        if d is not None:
            init = [c for c in d.get("inner", []) if c.get("kind") == "InitListExpr"]
            if init:
                arr = StaticArray(name, [self.eval(c, {}) for c in init[0].get("inner", [])])
                self.statics[name] = arr
                return arr
        raise Unsupported("global variable without a model: %s" % name)

    def int_cast(self, v, it, n):
        bits, signed = it
        if isinstance(v, int) and not isinstance(v, bool):
            return wrap(v, bits, signed)
        if isinstance(v, bool):
            return int(v)
        if isinstance(v, SymBool):
            return v
        if z3.is_expr(v) and z3.is_bv(v):
            w = v.size()
            if w == bits:
                return v
            if w > bits:
                return z3.Extract(bits - 1, 0, v)
            return z3.SignExt(bits - w, v) if getattr(v, "c_signed", False) else z3.ZeroExt(bits - w, v)
        if isinstance(v, SymInt):
            # mathematical integer standing for a C integer: the value must fit the target type
            lo, hi = (-(1 << (bits - 1)), (1 << (bits - 1)) - 1) if signed else (0, (1 << bits) - 1)
            fits = z3.And(v.e >= lo, v.e <= hi)
            ex = symx.CUR
            if ex.decide(fits):
                return v
            if signed:
                raise Unsupported("implementation-defined narrowing of a symbolic integer to a signed type")
            return SymInt(z3.simplify(v.e % (1 << bits)))
        return v

    def unary(self, n, env):
        op = n["opcode"]
        if op == "&":
            inner = n["inner"][0]
            while inner["kind"] == "ParenExpr":
                inner = inner["inner"][0]
            if inner["kind"] == "DeclRefExpr":
                rd = inner["referencedDecl"]
                name = rd["name"]
                if rd["kind"] == "FunctionDecl":
                    return FnPtr(name)
                if name not in env:
                    if ("&" + name) in self.globals:
                        return self.globals["&" + name]
                    if name in self.globals or name in self.p.global_decls:
                        v = self.global_value(name)
                        if isinstance(v, StaticArray):
                            return v
                        g = self.globals
                        return Ref(lambda: g[name], lambda x: g.__setitem__(name, x))
            return self.lvalue(inner, env)
        if op == "*":
            return self.lvalue(n, env).get()
        if op in ("++", "--"):
            ref = self.lvalue(n["inner"][0], env)
            old = ref.get()
            new = self.binop("+" if op == "++" else "-", old, 1, n)
            it = int_type(n)
            if it:
                new = wrap(new, *it)
            ref.set(new)
            return old if n.get("isPostfix") else new
        v = self.eval(n["inner"][0], env)
        if op == "!":
            return 0 if self.truth(v, n["inner"][0]) else 1
        if op == "-":
            if isinstance(v, SymFloat):
                return SymFloat(z3.fpNeg(v.f))
            if isinstance(v, (int, float)):
                r = -v
                it = int_type(n)
                return wrap(r, *it) if it and isinstance(r, int) else r
            if isinstance(v, SymInt):
                return -v
            if z3.is_expr(v):
                return -v
        if op == "~":
            if isinstance(v, int):
                it = int_type(n) or (32, True)
                return wrap(~v, *it)
            if z3.is_expr(v) and z3.is_bv(v):
                return ~v
        if op == "+":
            return v
        raise Unsupported("unary %s on %r" % (op, v))

    def binary(self, n, env):
        op = n["opcode"]
        a_n, b_n = n["inner"]
        if op == "=":
            v = self.eval(b_n, env)
            ref = self.lvalue(a_n, env)
            it = int_type(a_n)
            if it:
                v = self.int_cast(v, it, a_n) if not isinstance(v, int) or isinstance(v, bool) else wrap(v, *it)
            ref.set(v)
            return v
        if op == "&&":
            return 1 if (self.truth(self.eval(a_n, env), a_n) and self.truth(self.eval(b_n, env), b_n)) else 0
        if op == "||":
            return 1 if (self.truth(self.eval(a_n, env), a_n) or self.truth(self.eval(b_n, env), b_n)) else 0
        if op == ",":
            self.eval(a_n, env)
            return self.eval(b_n, env)
        a = self.eval(a_n, env)
        b = self.eval(b_n, env)
        if op in ("==", "!=") and (is_ptr_node(a_n) or is_ptr_node(b_n)):
            if a is Uninit or b is Uninit:
                raise MemSafety("comparison of an uninitialised pointer")
            same = self.same_pointer(a, b)
            return (1 if same else 0) if op == "==" else (0 if same else 1)
        r = self.binop(op, a, b, n)
        it = int_type(n)
        if it and isinstance(r, int) and not isinstance(r, bool) and op not in ("==", "!=", "<", ">", "<=", ">="):
            r = wrap(r, *it)
        return r

    @staticmethod
    def _is_ptr(v):
        return v is NULL or not (isinstance(v, (int, float, SymInt, SymBool, SymFloat)) or z3.is_expr(v)) or v is None

    def binop(self, op, a, b, n):
        cmpops = ("==", "!=", "<", ">", "<=", ">=")
        if a is Uninit or b is Uninit:
            raise MemSafety("use of an uninitialised value")
        # floating point
        if isinstance(a, (float, SymFloat)) or isinstance(b, (float, SymFloat)):
            if isinstance(a, (int, float)) and isinstance(b, (int, float)):
                return self._concrete(op, float(a), float(b))
            fa, fb = symx.fpval(a), symx.fpval(b)
            if op in cmpops:
                fn = {"<": z3.fpLT, "<=": z3.fpLEQ, ">": z3.fpGT, ">=": z3.fpGEQ, "==": z3.fpEQ, "!=": z3.fpNEQ}[op]
                return SymBool(z3.simplify(fn(fa, fb)))
            fn = {"+": z3.fpAdd, "-": z3.fpSub, "*": z3.fpMul, "/": z3.fpDiv}[op]
            return SymFloat(fn(symx.RNE, fa, fb))
        if isinstance(a, SymBool):
            a = SymInt(symx._z(a))
        if isinstance(b, SymBool):
            b = SymInt(symx._z(b))
        if isinstance(a, int) and isinstance(b, int):
            return self._concrete(op, int(a), int(b))
        # bit-vectors (flag words)
        if (z3.is_expr(a) and z3.is_bv(a)) or (z3.is_expr(b) and z3.is_bv(b)):
            w = a.size() if z3.is_expr(a) and z3.is_bv(a) else b.size()
            if isinstance(a, int):
                a = z3.BitVecVal(a, w)
            if isinstance(b, int):
                b = z3.BitVecVal(b, w)
            if isinstance(a, SymInt) or isinstance(b, SymInt):
                raise Unsupported("mixing mathematical and bit-vector integers")
            if a.size() != b.size():
                m = max(a.size(), b.size())
                a = z3.ZeroExt(m - a.size(), a) if a.size() < m else a
                b = z3.ZeroExt(m - b.size(), b) if b.size() < m else b
            it = int_type(n) if n else None
            unsigned = bool(it and not it[1])
            if op in cmpops:
                if op == "==":
                    return SymBool(z3.simplify(a == b))
                if op == "!=":
                    return SymBool(z3.simplify(a != b))
                # comparison signedness follows the operand type; flag words are unsigned
                fn = {"<": z3.ULT, "<=": z3.ULE, ">": z3.UGT, ">=": z3.UGE}[op]
                return SymBool(z3.simplify(fn(a, b)))
            fn = {"&": lambda x, y: x & y, "|": lambda x, y: x | y, "^": lambda x, y: x ^ y,
                  "+": lambda x, y: x + y, "-": lambda x, y: x - y, "<<": lambda x, y: x << y,
                  ">>": (z3.LShR if unsigned else (lambda x, y: x >> y))}.get(op)
            if fn is None:
                raise Unsupported("bit-vector operator %s" % op)
            return z3.simplify(fn(a, b))
        # mathematical integers (SymInt) standing for C integers that are asserted to be in range
        if isinstance(a, SymInt) or isinstance(b, SymInt):
            if op in cmpops:
                r = {"==": lambda x, y: x == y, "!=": lambda x, y: x != y, "<": lambda x, y: x < y,
                     "<=": lambda x, y: x <= y, ">": lambda x, y: x > y, ">=": lambda x, y: x >= y}[op](a, b)
                return r if not isinstance(r, bool) else int(r)
            if op == "+":
                return self.range_checked(a + b, n)
            if op == "-":
                return self.range_checked(a - b, n)
            if op == "*":
                return self.range_checked(a * b, n)
            if op == "&" and isinstance(b, int) and b >= 0:
                # x & (2**k - 1) or x & single bit, on a non-negative or two's-complement integer
                if b & (b + 1) == 0:
                    return a % (b + 1)
                if b & (b - 1) == 0:
                    return ((a // b) % 2) * b
            if op == "&" and isinstance(a, int):
                return self.binop(op, b, a, n)
            raise Unsupported("operator %s on a mathematical symbolic integer" % op)
        raise Unsupported("binary %s on %r, %r" % (op, a, b))

    def range_checked(self, v, n):
        it = int_type(n) if n else None
        if it and isinstance(v, SymInt):
            bits, signed = it
            lo, hi = (-(1 << (bits - 1)), (1 << (bits - 1)) - 1) if signed else (0, (1 << bits) - 1)
            ex = symx.CUR
            ok = z3.And(v.e >= lo, v.e <= hi)
            if signed:
                if not ex.check(ok, "undefined behaviour: signed integer overflow"):
                    raise MemSafety("signed integer overflow")
            elif not ex.decide(ok):
                return SymInt(z3.simplify(v.e % (1 << bits)))
        return v

    @staticmethod
    def _concrete(op, a, b):
        import operator as o
        if op in ("/", "%") and isinstance(a, int):
            if b == 0:
                raise MemSafety("division by zero")
            q = abs(a) // abs(b)
            q = q if (a >= 0) == (b >= 0) else -q
            return q if op == "/" else a - b * q
        f = {"==": o.eq, "!=": o.ne, "<": o.lt, ">": o.gt, "<=": o.le, ">=": o.ge, "+": o.add, "-": o.sub,
             "*": o.mul, "&": o.and_, "|": o.or_, "^": o.xor, "<<": o.lshift, ">>": o.rshift, "/": o.truediv}[op]
        r = f(a, b)
        return int(r) if isinstance(r, bool) else r

    @staticmethod
    def same_pointer(a, b):
        return a is b or (isinstance(a, FnPtr) and isinstance(b, FnPtr) and a == b)


class _UninitType:
    def __repr__(self):
        return "<uninitialised>"


Uninit = _UninitType()
