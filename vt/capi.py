"""CPython C-API models for csym.  Each model is a contract; for concrete (real) Python objects it does the real
thing through the equivalent Python-level operation, for proxies it uses vt.pymodel (the same code the Python-side
shadows use).  Allocation never fails (allocation failure is out of scope, stated in every evidence file).

The error indicator is an explicit cell `st.err = (exc_type, exc_value) | None`.
Ghost reference counts: `st.rc[id(obj)] = [obj, delta]`.
"""
import z3

from . import symx, pymodel
from .symx import SymInt, SymBool, SymFloat, SymComplex, SymOpaque, pytype_of, is_proxy
from .csym import NULL, Struct, Ref, ItemsRef, FnPtr, MemSafety, Unsupported, StaticArray, Uninit

LONG_MIN, LONG_MAX = -(1 << 63), (1 << 63) - 1
INT_MIN, INT_MAX = -(1 << 31), (1 << 31) - 1


class NewTuple(list):
    """tuple under construction (PyTuple_New + PyTuple_SET_ITEM); pytype is tuple"""
    pytype = tuple


class State:
    def __init__(self):
        self.err = None
        self.rc = {}
        self.log = []          # notable events (callbacks made, errors set) for oracles
        self.api_calls = set()
        self.rec_depth = 0     # Py_EnterRecursiveCall / Py_LeaveRecursiveCall balance (a ghost like the reference counts)

    def incref(self, o, n=1):
        if o is NULL or o is None and False:
            return
        e = self.rc.setdefault(id(o), [o, 0])
        e[1] += n

    def set_err(self, typ, val=None):
        if val is None:
            val = typ()
        self.err = (typ, val)

    def from_exception(self, e):
        self.err = (type(e), e)


def final_tuple(nt):
    """the one Python tuple a finished NewTuple denotes (object identity matters: compute it once)"""
    f = getattr(nt, "_final", None)
    if f is None or len(f) != len(nt):
        f = tuple(topy(x) for x in nt)
        nt._final = f
    return f


def topy(v):
    """C-level value -> the Python object it denotes (for calls into Python code)"""
    if isinstance(v, Struct):
        po = v.f.get("pyobj")
        if po is None:
            raise Unsupported("C struct %r passed to Python code without a Python identity" % (v,))
        return po
    if isinstance(v, NewTuple):
        return final_tuple(v)
    if v is NULL:
        raise MemSafety("NULL passed where a Python object is required")
    if v is Uninit:
        raise MemSafety("uninitialised pointer passed to the Python API")
    return v


def fromc(v):
    return v


def is_tuple_like(v):
    return isinstance(v, (tuple, NewTuple)) or getattr(type(v), "_vt_pytype", None) is tuple


def build(interp_globals):
    """returns the api dict: name -> model(interp, *args)"""
    api = {}
    st = State()
    api["__state__"] = st

    def model(fn):
        name = fn.__name__[2:] if fn.__name__.startswith("m_") else fn.__name__

        def wrapped(interp, *args):
            st.api_calls.add(name)
            return fn(*args)
        api[name] = wrapped
        return fn

    def pycall(f, *args, **kw):
        """run Python code from C: exceptions become the error indicator"""
        try:
            return f(*args, **kw)
        except symx.PathAbort:
            raise
        except (MemSafety, Unsupported, symx.HarnessError):
            raise
        except Exception as e:
            st.from_exception(e)
            return NULL

    # ---- reference counting (ghost) ----
    @model
    def m_Py_INCREF(o):
        if o is NULL:
            raise MemSafety("Py_INCREF(NULL)")
        st.incref(o, 1)

    @model
    def m_Py_DECREF(o):
        if o is NULL:
            raise MemSafety("Py_DECREF(NULL)")
        st.incref(o, -1)

    @model
    def m_Py_XINCREF(o):
        if o is not NULL:
            st.incref(o, 1)

    @model
    def m_Py_XDECREF(o):
        if o is not NULL:
            st.incref(o, -1)

    @model
    def m_Py_NewRef(o):
        st.incref(o, 1)
        return o

    @model
    def m_Py_XNewRef(o):
        if o is not NULL:
            st.incref(o, 1)
        return o

    def new(o):
        """API returning a new reference"""
        if o is not NULL:
            st.incref(o, 1)
        return o

    # ---- types ----
    def ctype_of(o):
        if isinstance(o, Struct):
            po = o.f.get("pyobj")
            if po is not None:
                return type(po)
            t = o.f.get("pytype")
            if t is not None:
                return t
            raise Unsupported("Py_TYPE of struct without Python identity")
        if o is NULL or o is Uninit:
            raise MemSafety("Py_TYPE(NULL)")
        return pytype_of(o)

    @model
    def m_Py_TYPE(o):
        return ctype_of(o)

    @model
    def m_Py_IS_TYPE(o, t):
        return 1 if ctype_of(o) is t else 0

    @model
    def m_PyType_HasFeature(t, flag):
        if not isinstance(t, type):
            raise MemSafety("PyType_HasFeature on a non-type object %r" % (t,))
        return 1 if (t.__flags__ & flag) else 0

    @model
    def m_PyType_IsSubtype(a, b):
        if not isinstance(a, type) or not isinstance(b, type):
            raise MemSafety("PyType_IsSubtype on a non-type object")
        return 1 if b in a.__mro__ else 0

    @model
    def m_PyObject_TypeCheck(o, t):
        if not isinstance(t, type):
            raise MemSafety("PyObject_TypeCheck: second argument %r is not a type object "
                            "(cast of a non-type to PyTypeObject*)" % (t,))
        return 1 if t in ctype_of(o).__mro__ else 0

    @model
    def m_PyType_Check(o):
        return 1 if isinstance(o, type) else 0

    @model
    def m_PyObject_IsInstance(o, cls):
        o = topy(o)
        if is_proxy(o):
            r = pycall(issubclass, pytype_of(o), cls)
        else:
            r = pycall(isinstance, o, cls)
        if r is NULL:
            return -1
        return 1 if r else 0

    @model
    def m_PyCallable_Check(o):
        if o is NULL:
            return 0          # CPython: "if (x == NULL) return 0;"
        if is_proxy(o):
            return 0
        return 1 if callable(topy(o)) else 0

    @model
    def m_PyObject_IsTrue(o):
        r = pycall(pymodel.m_bool, topy(o))
        if r is NULL:
            return -1
        return 1 if r else 0

    # ---- tuples / lists ----
    @model
    def m_PyTuple_GET_SIZE(t):
        if not is_tuple_like(t):
            raise MemSafety("PyTuple_GET_SIZE on a non-tuple %r (reads ob_size of a foreign object)" % (type(t).__name__,))
        return len(t)

    @model
    def m_PyTuple_Pack(n, *items):
        if n != len(items):
            raise MemSafety("PyTuple_Pack count mismatch")
        for i in items:
            if i is NULL:
                raise MemSafety("PyTuple_Pack with NULL item")
        # the tuple's own references to its items are internal to the container: the caller's balance is unchanged
        return new(tuple(items))

    @model
    def m_PyTuple_New(n):
        if not isinstance(n, int):
            n = symx.CUR.enumerate_int(symx._z(n))
        return new(NewTuple([NULL] * n))

    @model
    def m_PyTuple_SET_ITEM(t, i, v):
        if not isinstance(t, NewTuple):
            raise MemSafety("PyTuple_SET_ITEM on a tuple that is not under construction")
        if not (isinstance(i, int) and 0 <= i < len(t)):
            raise MemSafety("PyTuple_SET_ITEM index out of range")
        t[i] = v
        st.incref(v, -1)     # steals the reference

    @model
    def m_PyList_GET_SIZE(l):
        if not isinstance(l, list):
            raise MemSafety("PyList_GET_SIZE on a non-list")
        return len(l)

    @model
    def m_PyList_New(n):
        return new([NULL] * n)

    @model
    def m_PyList_SET_ITEM(l, i, v):
        if not isinstance(l, list) or not (0 <= i < len(l)):
            raise MemSafety("PyList_SET_ITEM out of range")
        l[i] = v
        st.incref(v, -1)

    @model
    def m_PySequence_List(o):
        return new(pycall(list, topy(o)))

    def getitem(interp, base, idx):
        if isinstance(base, Struct) or base is NULL or base is Uninit:
            raise MemSafety("ob_item of a non-sequence")
        if not isinstance(base, (tuple, list)):
            raise MemSafety("ob_item read on an object that is neither tuple nor list: %r" % (type(base).__name__,))
        i = interp.concrete_index(idx, len(base), "ob_item of a %s of size %d" % (type(base).__name__, len(base)))
        return base[i]
    api["__getitem__"] = getitem

    def setitem(interp, base, idx, v):
        if not isinstance(base, (NewTuple, list)):
            raise MemSafety("ob_item write on an immutable / foreign object")
        i = interp.concrete_index(idx, len(base), "ob_item")
        base[i] = v
    api["__setitem__"] = setitem

    def member(interp, base, field):
        if field == "ob_item":
            if not isinstance(base, (tuple, list)):
                raise MemSafety("->ob_item on an object that is neither tuple nor list: %r" % (type(base).__name__,))
            return ItemsRef(base)
        if field == "tp_name":
            if not isinstance(base, type):
                raise MemSafety("->tp_name on a non-type")
            return base.__name__
        if field == "tp_dict":
            import gc as _gc
            d_ = base.__dict__
            if not isinstance(d_, dict):               # a mappingproxy: the real dict is what it wraps
                refs = [r_ for r_ in _gc.get_referents(d_) if isinstance(r_, dict)]
                if refs:
                    return refs[0]
            return d_
        if field == "tp_getattro":
            if not isinstance(base, type):
                raise MemSafety("->tp_getattro on a non-type")
            return FnPtr("__tp_getattro__")       # every type has one; the call is dispatched on the object's type below
        if field == "ob_fval":
            return m_PyFloat_AS_DOUBLE(base)
        if field in ("real", "imag") and isinstance(base, SymComplex):
            return SymFloat(base.re if field == "real" else base.im)
        if field in ("real", "imag") and isinstance(base, complex):
            return getattr(base, field)
        raise Unsupported("member %s of %r" % (field, type(base).__name__))
    api["__member__"] = member

    def setmember(interp, base, field, v):
        raise Unsupported("write to member %s of %r" % (field, type(base).__name__))
    api["__setmember__"] = setmember

    def tp_getattro(interp, o, name):
        """(*Py_TYPE(o)->tp_getattro)(o, name): a HasTraits object's slot is has_traits_getattro - interpreted from the source
        like any other C function; every other type's slot is modelled as PyObject_GetAttr"""
        try:
            import traits.ctraits as ctm
            is_ht = isinstance(o, ctm.CHasTraits)
        except Exception:
            is_ht = False
        if is_ht or (isinstance(o, Struct) and hasattr(o, "ctrait_dict")):
            return interp.call("has_traits_getattro", [o, name])
        return api["PyObject_GetAttr"](interp, o, name)
    api["__tp_getattro__"] = tp_getattro

    REC_LIMIT = 10            # the C recursion limit, scaled down (every interpreted C level costs dozens of Python frames)

    @model
    def m_Py_EnterRecursiveCall(where):
        st.rec_depth += 1
        if st.rec_depth > REC_LIMIT:
            st.rec_depth -= 1          # a failing Enter must not be paired with a Leave
            st.set_err(RecursionError, RecursionError("maximum recursion depth exceeded" + (where if isinstance(where, str) else "")))
            return 1
        return 0

    @model
    def m_Py_LeaveRecursiveCall():
        st.rec_depth -= 1
        if st.rec_depth < 0:
            raise MemSafety("Py_LeaveRecursiveCall without a matching successful Py_EnterRecursiveCall")
        return None

    # ---- numbers ----
    @model
    def m_PyFloat_AS_DOUBLE(o):
        if isinstance(o, SymFloat):
            return SymFloat(o.f)
        if isinstance(o, float):
            return float.__float__(o)
        raise MemSafety("PyFloat_AS_DOUBLE (ob_fval) on a non-float object of type %s" % pytype_of(o).__name__)

    @model
    def m_PyFloat_AsDouble(o):
        r = pycall(pymodel.as_double, topy(o))
        if r is NULL:
            return -1.0
        return r

    @model
    def m_PyFloat_FromDouble(d):
        if isinstance(d, SymFloat):
            return new(SymFloat(d.f))
        return new(float(d))

    @model
    def m_PyNumber_Index(o):
        return new(pycall(pymodel.m_index, topy(o)))

    @model
    def m_PyNumber_Long(o):
        return new(pycall(pymodel.m_int, topy(o)))

    @model
    def m_PyLong_AsLong(o):
        if o is NULL:
            st.set_err(SystemError, SystemError("bad argument to internal function"))     # CPython: PyErr_BadInternalCall()
            return -1
        o = topy(o)
        if isinstance(o, (SymInt, SymBool)):
            e = symx._z(o)
            if symx.CUR.decide(z3.And(e >= LONG_MIN, e <= LONG_MAX)):
                return SymInt(e) if not z3.is_int_value(z3.simplify(e)) else z3.simplify(e).as_long()
            st.set_err(OverflowError, OverflowError("Python int too large to convert to C long"))
            return -1
        if is_proxy(o):
            st.set_err(TypeError, TypeError("an integer is required"))
            return -1
        try:
            i = pymodel.m_index(o) if not isinstance(o, int) else o
            i = int(i)
        except symx.PathAbort:
            raise
        except Exception as e:
            st.from_exception(e)
            return -1
        if not (LONG_MIN <= i <= LONG_MAX):
            st.set_err(OverflowError, OverflowError("Python int too large to convert to C long"))
            return -1
        return i

    @model
    def m_PyLong_FromLong(v):
        if isinstance(v, SymInt):
            return new(SymInt(v.e))
        return new(int(v))

    @model
    def m_PyLong_FromUnsignedLong(v):
        if z3.is_expr(v) and z3.is_bv(v):
            return new(SymInt(z3.BV2Int(v, False)))
        return new(int(v))

    @model
    def m_PyComplex_AsCComplex(o):
        r = pycall(pymodel.as_ccomplex, topy(o))
        if r is NULL:
            return Struct("Py_complex", real=-1.0, imag=0.0)
        if isinstance(r, SymComplex):
            return Struct("Py_complex", real=SymFloat(r.re), imag=SymFloat(r.im), sym=r)
        return Struct("Py_complex", real=r.real, imag=r.imag)

    @model
    def m_PyComplex_FromCComplex(c):
        re, im = c.real, c.imag
        if isinstance(re, SymFloat) or isinstance(im, SymFloat):
            return new(SymComplex(symx.fpval(re), symx.fpval(im)))
        return new(complex(re, im))

    # ---- errors ----
    @model
    def m_PyErr_Occurred():
        return st.err[0] if st.err else NULL

    @model
    def m_PyErr_Clear():
        st.err = None

    @model
    def m_PyErr_ExceptionMatches(t):
        if st.err is None:
            return 0
        try:
            return 1 if issubclass(st.err[0], t) else 0
        except TypeError:
            return 0

    @model
    def m_PyErr_SetString(t, msg):
        st.set_err(t, t(msg))

    @model
    def m_PyErr_SetObject(t, v):
        st.set_err(t, t(topy(v)) if not isinstance(v, BaseException) else v)

    @model
    def m_PyErr_Format(t, fmt, *args):
        st.set_err(t, t("<formatted: %s>" % fmt[:40]))
        return NULL

    @model
    def m_PyErr_Fetch(pt, pv, ptb):
        e = st.err
        st.err = None
        pt.set(e[0] if e else NULL)
        pv.set(e[1] if e else NULL)
        ptb.set(NULL)

    @model
    def m_PyErr_Restore(t, v, tb):
        st.err = None if t is NULL else (t, v if v is not NULL else t())

    @model
    def m_PyErr_NormalizeException(pt, pv, ptb):
        pass

    @model
    def m_PyException_SetTraceback(e, tb):
        return 0

    @model
    def m_PyException_SetCause(e, c):
        pass

    @model
    def m_PyErr_WarnEx(cat, msg, lvl):
        st.log.append(("warn", cat, msg))
        return 0

    # ---- calls into Python ----
    @model
    def m_PyObject_Call(f, args, kw):
        if f is NULL:
            raise MemSafety("PyObject_Call(NULL, ...)")
        f = topy(f)
        a = tuple(topy(x) for x in args)
        k = {} if kw is NULL else dict(kw)
        st.log.append(("call", f, a))
        if k:
            return new(pycall(f, *a, **k))
        return new(pycall(pymodel.call_builtin, f, a))

    @model
    def m_PyObject_CallMethod(o, name, fmt, *args):
        o = topy(o)
        a = tuple(topy(x) for x in args)
        st.log.append(("callmethod", o, name, a))

        def run():
            return getattr(o, name)(*a)
        return new(pycall(run))

    @model
    def m_PyObject_GetAttr(o, name):
        return new(pycall(getattr, topy(o), topy(name)))

    @model
    def m_PyObject_GetAttrString(o, name):
        return new(pycall(getattr, topy(o), name))

    @model
    def m_PyObject_GenericGetAttr(o, name):
        return new(pycall(object.__getattribute__, topy(o), topy(name)))

    @model
    def m_PyObject_GenericSetAttr(o, name, value):
        if value is NULL:
            r = pycall(object.__delattr__, topy(o), topy(name))
        else:
            r = pycall(object.__setattr__, topy(o), topy(name), topy(value))
        return -1 if r is NULL else 0

    # ---- containers ----
    @model
    def m_PySequence_Contains(seq, v):
        seq, v = topy(seq), topy(v)

        def run():
            for item in seq:
                eq = pymodel_eq(item, v)
                if eq:
                    return True
            return False
        r = pycall(run)
        if r is NULL:
            return -1
        return 1 if r else 0

    def pymodel_eq(a, b):
        return pymodel.py_eq(a, b)

    @model
    def m_PyObject_RichCompareBool(a, b, op):
        # Py_LT 0, Py_LE 1, Py_EQ 2, Py_NE 3, Py_GT 4, Py_GE 5; identity implies equality for EQ / NE (as in CPython)
        a, b = topy(a), topy(b)
        import operator as _op

        def run():
            if op == 2:
                return True if a is b else bool(pymodel.py_eq(a, b))
            if op == 3:
                return False if a is b else not bool(pymodel.py_eq(a, b))
            return bool({0: _op.lt, 1: _op.le, 4: _op.gt, 5: _op.ge}[op](a, b))
        r = pycall(run)
        if r is NULL:
            return -1
        return 1 if r else 0

    api["__pyeq__"] = lambda interp, a, b: pymodel_eq(a, b)

    @model
    def m_PyDict_GetItem(d, k):
        if d is NULL:
            raise MemSafety("PyDict_GetItem(NULL dict)")
        if not isinstance(d, dict):
            return NULL
        try:
            return d.get(topy(k), NULL)      # borrowed; errors suppressed like the real one
        except symx.PathAbort:
            raise
        except Exception:
            return NULL

    @model
    def m_PyDict_GetItemWithError(d, k):
        if d is NULL:
            raise MemSafety("PyDict_GetItemWithError(NULL dict)")
        k = topy(k)
        if is_proxy(k):
            # symbolic key against a concrete dict: membership by == over the keys (hashable proxy kinds)
            for kk in dict.keys(d):
                if pymodel_eq(kk, k):
                    return dict.__getitem__(d, kk)
            return NULL
        try:
            return d.get(k, NULL)
        except symx.PathAbort:
            raise
        except Exception as e:
            st.from_exception(e)
            return NULL

    @model
    def m_PyDict_Next(d, pos_ref, key_ref, value_ref):
        """iteration by position over a snapshot of insertion order (the C code must not add keys while iterating; values it
        replaces are seen as replaced); borrowed references: no count changes"""
        if not isinstance(d, dict):
            raise MemSafety("PyDict_Next on a non-dict")
        i = pos_ref.get()
        if symx.is_proxy(i):
            raise Unsupported("symbolic position in PyDict_Next")
        items = list(d.items())
        if not (0 <= i < len(items)):
            return 0
        k_, v_ = items[i]
        if key_ref is not NULL:
            key_ref.set(k_)
        if value_ref is not NULL:
            value_ref.set(v_)
        pos_ref.set(i + 1)
        return 1

    @model
    def m_PyDict_SetItem(d, k, v):
        if not isinstance(d, dict):
            raise MemSafety("PyDict_SetItem on a non-dict")
        try:
            d[topy(k)] = topy(v)
        except symx.PathAbort:
            raise
        except Exception as e:
            st.from_exception(e)
            return -1
        return 0          # the dict takes its own references; the caller's balance is unchanged

    @model
    def m_PyDict_SetDefault(d, k, default):
        try:
            return d.setdefault(topy(k), topy(default))      # borrowed reference
        except symx.PathAbort:
            raise
        except Exception as e:
            st.from_exception(e)
            return NULL

    @model
    def m_PyDict_DelItem(d, k):
        try:
            del d[topy(k)]
        except symx.PathAbort:
            raise
        except Exception as e:
            st.from_exception(e)
            return -1
        return 0

    @model
    def m_PyType_GenericAlloc(tp, nitems):
        # only used for fresh CTrait objects (get_trait's instance-trait clone): a real, empty CTrait whose fields the
        # interpreted trait_clone then fills through the bridge
        from traits.ctrait import CTrait
        if tp is CTrait:
            return new(CTrait(0))
        raise Unsupported("PyType_GenericAlloc for %r" % (tp,))

    @model
    def m_PyDict_New():
        return new({})

    @model
    def m_PyDict_Size(d):
        return len(d)

    @model
    def m_PyDict_Copy(d):
        return new(dict(d))

    @model
    def m_PyMapping_Size(d):
        r = pycall(len, topy(d))
        return -1 if r is NULL else r

    # ---- strings ----
    @model
    def m_PyUnicode_FromString(s):
        return new(str(s))

    @model
    def m_PyUnicode_Concat(a, b):
        return new(pycall(lambda: topy(a) + topy(b)))

    @model
    def m_PyUnicode_READY(s):
        return 0

    @model
    def m_PyUnicode_GET_LENGTH(s):
        return len(s)

    # ---- argument parsing / building ----
    @model
    def m_PyArg_ParseTuple(args, fmt, *refs):
        spec = fmt.split(":")[0].split(";")[0]
        if spec.startswith("(") and spec.endswith(")") and spec.count("(") == 1:
            # one nested tuple argument: "(...)"
            if len(args) != 1 or not is_tuple_like(args[0]):
                st.set_err(TypeError, TypeError("argument must be a tuple"))
                return 0
            args = args[0]
            spec = spec[1:-1]
        optional = False
        nitems = len(args)          # items are looked at one by one below (lazily chosen argument tuples stay lazy)
        idx = 0
        r = 0
        codes = []
        i = 0
        while i < len(spec):
            c = spec[i]
            if c == "|":
                optional = True
            elif c == "O" and i + 1 < len(spec) and spec[i + 1] == "!":
                codes.append(("O!", optional))
                i += 1
            else:
                codes.append((c, optional))
            i += 1
        required = sum(1 for c, o in codes if not o)
        if not (required <= nitems <= len(codes)):
            st.set_err(TypeError, TypeError("function takes %d arguments (%d given)" % (len(codes), nitems)))
            return 0
        for j_, (c, o) in enumerate(codes[:nitems]):
            item = args[j_]
            if c == "O":
                refs[r].set(item)
                r += 1
            elif c == "O!":
                t = refs[r]
                if isinstance(t, Ref):
                    t = t.get()
                if t not in pytype_of(item).__mro__:
                    st.set_err(TypeError, TypeError("argument must be %s" % getattr(t, "__name__", t)))
                    return 0
                refs[r + 1].set(item)
                r += 2
            elif c in ("i", "l", "n", "I", "k"):
                bits = 32 if c in ("i", "I") else 64
                signed = c in ("i", "l", "n")
                if isinstance(item, (SymInt, SymBool)):
                    e = symx._z(item)
                    lo, hi = (-(1 << (bits - 1)), (1 << (bits - 1)) - 1)
                    if c in ("I", "k"):
                        # unsigned formats do no overflow checking: value taken modulo 2**bits
                        refs[r].set(SymInt(z3.simplify(e % (1 << bits))))
                    elif symx.CUR.decide(z3.And(e >= lo, e <= hi)):
                        refs[r].set(SymInt(e))
                    else:
                        st.set_err(OverflowError, OverflowError("signed integer is greater than maximum"))
                        return 0
                elif isinstance(item, float) or is_proxy(item) or isinstance(item, (str, bytes)) or item is None:
                    st.set_err(TypeError, TypeError("an integer is required"))
                    return 0
                else:
                    try:
                        v = int(pymodel.m_index(item))
                    except symx.PathAbort:
                        raise
                    except Exception as e:
                        st.from_exception(e)
                        return 0
                    if c in ("I", "k"):
                        v %= (1 << bits)
                    elif not (-(1 << (bits - 1)) <= v < (1 << (bits - 1))):
                        st.set_err(OverflowError, OverflowError("signed integer is greater than maximum"))
                        return 0
                    refs[r].set(v)
                r += 1
            elif c == "p":
                t = pycall(pymodel.m_bool, item)
                if t is NULL:
                    return 0
                refs[r].set(1 if t else 0)
                r += 1
            elif c == "U":
                if not issubclass(pytype_of(item), str):
                    st.set_err(TypeError, TypeError("argument must be str"))
                    return 0
                refs[r].set(item)
                r += 1
            else:
                raise Unsupported("PyArg_ParseTuple format code %r" % c)
        return 1

    @model
    def m_Py_BuildValue(fmt, *args):
        vals = []
        a = list(args)
        f = fmt.strip("()")
        for c in f:
            v = a.pop(0)
            # references owned by a container the C code builds are not part of the caller's balance (the same convention as
            # PyTuple_SET_ITEM, which takes over the reference the code acquired): "O" adds one that the tuple owns (net 0),
            # "N" hands the caller's reference to the tuple (-1)
            if c == "O":
                vals.append(v)
            elif c == "N":
                st.incref(v, -1)
                vals.append(v)
            elif c in "ilnIk":
                vals.append(SymInt(v.e) if isinstance(v, SymInt) else (SymInt(z3.BV2Int(v, c in "il")) if z3.is_expr(v) else int(v)))
            elif c == "s":
                vals.append(str(v))
            else:
                raise Unsupported("Py_BuildValue format %r" % c)
        if len(vals) == 1 and not fmt.startswith("("):
            return new(vals[0])
        return new(tuple(vals))

    return api
