"""symx: z3-backed proxies + depth-first re-execution explorer.

The real traits code runs natively on proxy objects.  A branch on a symbolic
condition asks the explorer, which checks both polarities with z3 under the
current path condition and explores every feasible one (by re-running the
harness with a decision prefix).  `check(cond)` discharges pc /\\ not cond.

The same harness function runs in two modes:
  * symbolic  (`ex.sym` true): inputs are proxies, environment models are in place;
  * concrete  (`ex.sym` false): inputs are ordinary Python values taken from a
    solver model, the environment is the real one.  This is the replay used for
    counterexamples and for validating one witness per explored path.
"""
import time
import z3

CUR = None  # the active symbolic explorer (proxies need it for __bool__ etc.)


class PathAbort(BaseException):
    """Ends the current path (infeasible assume, taint, budget).  BaseException on
    purpose; because traits has bare `except:` clauses the explorer also keeps a
    flag and re-raises on every later decision."""


class HarnessError(Exception):
    pass


def _z(x):
    """lift python/proxy value to z3 Int expr (or NotImplemented)"""
    if isinstance(x, SymInt):
        return x.e
    if isinstance(x, bool):
        return z3.IntVal(int(x))
    if isinstance(x, int):
        return z3.IntVal(x)
    if isinstance(x, SymBool):
        return z3.If(x.e, z3.IntVal(1), z3.IntVal(0))
    return NotImplemented


def zbool(x):
    if isinstance(x, SymBool):
        return x.e
    if isinstance(x, bool):
        return z3.BoolVal(x)
    if z3.is_expr(x) and z3.is_bool(x):
        return x
    raise HarnessError("not a boolean condition: %r" % (x,))


class SymBool:
    __slots__ = ("e", "simplified")

    def __init__(self, e, simplified=False):
        self.e = e
        self.simplified = simplified

    def __bool__(self):
        return CUR.decide(self.e, self.simplified)

    def __invert__(self):
        return SymBool(z3.Not(self.e))

    def __and__(self, o):
        return SymBool(z3.And(self.e, zbool(o)))

    __rand__ = __and__

    def __or__(self, o):
        return SymBool(z3.Or(self.e, zbool(o)))

    __ror__ = __or__

    def __eq__(self, o):
        if isinstance(o, (bool, SymBool)):
            return SymBool(self.e == zbool(o))
        return NotImplemented

    __hash__ = None

    def __repr__(self):
        return "<symbool>"


def pydiv(a, b):
    """Python floor division on z3 Ints (z3 div is Euclidean for ints: a = b*q + r, 0<=r<|b|)."""
    q = a / b
    r = a % b
    # python: r has sign of b. For b>0 euclid == floor. For b<0: if r != 0, floor q = q_e - 1
    return z3.If(z3.And(b < 0, r != 0), q - 1, q)


def pymod(a, b):
    r = a % b
    return z3.If(z3.And(b < 0, r != 0), r + b, r)


class SymInt:
    """Unbounded mathematical integer (z3 Int).  Deliberately NOT a subclass of int:
    C code can only get at it through __index__ (bounded-exhaustive forking or taint)."""
    const_hash = False  # switched on by harnesses that put proxies into dicts/sets
    pytype = int        # exact int unless a harness says otherwise (an int subclass)

    def __init__(self, e, pytype=None):
        self.e = e
        if pytype is not None:
            self.pytype = pytype

    def _bin(self, o, f):
        o = _z(o)
        if o is NotImplemented:
            return NotImplemented
        r = z3.simplify(f(self.e, o))
        if z3.is_int_value(r) and not SymInt.const_hash:
            return r.as_long()   # (under the constant-hash discipline every int must stay a proxy)
        return SymInt(r)

    def _cmp(self, o, f, opname=None):
        if isinstance(o, float):
            return self._cmp_float(o, opname)
        o = _z(o)
        if o is NotImplemented:
            return NotImplemented
        r = z3.simplify(f(self.e, o))
        if z3.is_true(r):
            return True
        if z3.is_false(r):
            return False
        return SymBool(r, True)

    def __add__(s, o): return s._bin(o, lambda a, b: a + b)
    def __radd__(s, o): return s._bin(o, lambda a, b: b + a)
    def __sub__(s, o): return s._bin(o, lambda a, b: a - b)
    def __rsub__(s, o): return s._bin(o, lambda a, b: b - a)
    def __mul__(s, o): return s._bin(o, lambda a, b: a * b)
    def __rmul__(s, o): return s._bin(o, lambda a, b: b * a)
    def __neg__(s): return SymInt(z3.simplify(-s.e))
    def __pos__(s): return s
    def __abs__(s): return SymInt(z3.simplify(z3.If(s.e < 0, -s.e, s.e)))

    def _nz(s, o):
        z = _z(o)
        if z is NotImplemented:
            return z
        if CUR.decide(z == 0):
            raise ZeroDivisionError("integer division or modulo by zero")
        return z

    def __floordiv__(s, o):
        z = s._nz(o)
        return z if z is NotImplemented else SymInt(z3.simplify(pydiv(s.e, z)))

    def __rfloordiv__(s, o):
        z = _z(o)
        if z is NotImplemented:
            return z
        if CUR.decide(s.e == 0):
            raise ZeroDivisionError("integer division or modulo by zero")
        return SymInt(z3.simplify(pydiv(z, s.e)))

    def __mod__(s, o):
        z = s._nz(o)
        return z if z is NotImplemented else SymInt(z3.simplify(pymod(s.e, z)))

    def __rmod__(s, o):
        z = _z(o)
        if z is NotImplemented:
            return z
        if CUR.decide(s.e == 0):
            raise ZeroDivisionError("integer division or modulo by zero")
        return SymInt(z3.simplify(pymod(z, s.e)))

    def _cmp_float(self, x, opname):
        """exact comparison of a mathematical integer with a concrete Python float (as CPython does it)"""
        import math
        if x != x:
            return opname == "ne"
        if x in (float("inf"), float("-inf")):
            pos = x > 0
            return {"eq": False, "ne": True, "lt": pos, "le": pos, "gt": not pos, "ge": not pos}[opname]
        if x == int(x):
            i = int(x)
            return {"eq": self == i, "ne": self != i, "lt": self < i, "le": self <= i, "gt": self > i,
                    "ge": self >= i}[opname]
        lo, hi = math.floor(x), math.ceil(x)
        return {"eq": False, "ne": True, "lt": self <= lo, "le": self <= lo, "gt": self >= hi, "ge": self >= hi}[opname]

    def __lt__(s, o): return s._cmp(o, lambda a, b: a < b, "lt")
    def __le__(s, o): return s._cmp(o, lambda a, b: a <= b, "le")
    def __gt__(s, o): return s._cmp(o, lambda a, b: a > b, "gt")
    def __ge__(s, o): return s._cmp(o, lambda a, b: a >= b, "ge")

    def __eq__(s, o):
        if isinstance(o, (SymFloat, SymComplex)):
            return NotImplemented
        r = s._cmp(o, lambda a, b: a == b, "eq")
        if r is NotImplemented and getattr(o, "__sym_reflect__", False):
            return NotImplemented          # like int: let the other operand's reflected __eq__ decide
        return False if r is NotImplemented else r

    def __ne__(s, o):
        if isinstance(o, (SymFloat, SymComplex)):
            return NotImplemented
        r = s._cmp(o, lambda a, b: a != b, "ne")
        if r is NotImplemented and getattr(o, "__sym_reflect__", False):
            return NotImplemented
        return True if r is NotImplemented else r

    def __bool__(s):
        return CUR.decide(s.e != 0)

    def __hash__(s):
        if SymInt.const_hash:
            return 0
        CUR.taint("hash() of a symbolic int (unmodelled C boundary)")

    def __index__(s):
        return CUR.enumerate_int(s.e)

    __int__ = __index__

    def __repr__(s): return "<sym>"
    __str__ = __repr__

    def __format__(s, spec): return "<sym>"


def sym_min(a, b):
    return b if b < a else a


def is_sym(x):
    return isinstance(x, (SymInt, SymBool))


# ----------------------------------------------------------------------------------------

import os as _os
XCHECK_EVERY = int(_os.environ.get("VT_XCHECK", "0") or 0)     # cross-check every n-th discharged check with second solvers (0 = off)


class Result:
    def __init__(self, name):
        self.name = name
        self.paths = 0
        self.aborted_paths = 0
        self.decisions = 0
        self.queries = 0
        self.solver_s = 0.0
        self.checks = 0
        self.paths_with_checks = 0
        self.violations = []      # dicts: label, values, reproduced(bool|None), detail
        self.inconclusive = []    # reasons
        self.witnesses = 0        # concrete replays of path witnesses that agreed
        self.witness_mismatch = []
        self.samples = []
        self.reached = set()      # labels of checks reached (vacuity guard)
        self.wall_s = 0.0
        self.exhausted = False
        self.xcheck = {}          # second-solver cross-checks of 'unsat' verdicts: {solver: {verdict: count}}


XCHECK_SOLVERS = [("z3-4.8.12", ["/usr/bin/z3", "-T:20", "-smt2"]), ("cvc5-1.0", ["cvc5", "--lang=smt2", "--tlimit=20000", "--strings-exp"])]


def cross_check_unsat(assertions, res):
    """re-decide a query our solver answered 'unsat' with independent solver binaries; returns the name of a solver that says
    'sat' (a disagreement), else None.  'unknown', time-outs and parse errors only count as 'not confirmed'."""
    import subprocess, tempfile, os
    tmp = z3.Solver()
    tmp.add(*assertions)
    text = "(set-logic ALL)\n" + tmp.to_smt2()
    fd, path = tempfile.mkstemp(suffix=".smt2", prefix="vt-xcheck-")
    try:
        with os.fdopen(fd, "w") as f:
            f.write(text)
        for name, cmd in XCHECK_SOLVERS:
            try:
                out = subprocess.run(cmd + [path], stdout=subprocess.PIPE, stderr=subprocess.STDOUT, timeout=40).stdout.decode(errors="replace")
            except Exception:
                out = "error"
            lines = [l.strip() for l in out.splitlines() if l.strip()]
            verdict = "error" if any(l.startswith("(error") for l in lines) else (lines[0] if lines and lines[0] in ("sat", "unsat", "unknown") else "other")
            d = res.xcheck.setdefault(name, {})
            d[verdict] = d.get(verdict, 0) + 1
            if verdict == "error" and _os.environ.get("VT_XCHECK_KEEP"):
                import shutil
                shutil.copy(path, path + "." + name + ".error")
                open(path + "." + name + ".error.out", "w").write(out[:2000])
            if verdict == "sat":
                keep = path + ".disagreement"
                os.replace(path, keep)
                path = None
                return "%s (query kept at %s)" % (name, keep)
    finally:
        if path and os.path.exists(path):
            os.unlink(path)
    return None


class IndexObj:
    """an index that is not an int: what numpy integers and friends are to list-like code"""
    __slots__ = ("i",)

    def __init__(self, i):
        self.i = int(i)

    def __index__(self):
        return self.i

    def __repr__(self):
        return "IndexObj(%d)" % self.i


class Concrete:
    """Concrete-mode context: same interface as Explorer, values come from a model."""
    sym = False
    index_objects = False

    def __init__(self, values):
        self.values = values
        self.failed = []
        self.reached = set()
        self.notes = {}

    def _get(self, name, default):
        return self.values.get(name, default)

    def int(self, name, lo=None, hi=None):
        return int(self._get(name, lo if lo is not None else 0))

    def bool(self, name):
        return bool(self._get(name, False))

    def flag(self, name):
        return bool(self._get(name, False))

    def choice(self, name, n):
        return int(self._get(name, 0))

    def opt_int(self, name):
        if self._get(name + "?none", True):
            return None
        return int(self._get(name, 0))

    def int64(self, name):
        return int(self._get(name, 0))

    def bv(self, name, width):
        return int(self._get(name, 0)) & ((1 << width) - 1)

    def str(self, name):
        return str(self._get(name, ""))

    def fp(self, name):
        v = self._get(name, 0.0)
        if isinstance(v, str):
            try:
                return float.fromhex(v)
            except ValueError:
                return float(v)
        return float(v)

    def assume(self, cond):
        if not cond:
            raise PathAbort("assumption false in concrete replay")

    def check(self, cond, label):
        self.reached.add(label)
        if not cond:
            self.failed.append(label)
        return bool(cond)

    def decide(self, cond):
        raise HarnessError("decide() on a z3 term in concrete mode")

    def note(self, k, v):
        self.notes[k] = v


class Explorer:
    sym = True

    def __init__(self, name="", query_timeout_ms=20000, max_paths=20000, path_wall_s=20.0, total_wall_s=None,
                 fast_fp=False):
        self.fast_fp = fast_fp      # also keep a bit-blasting tactic solver (much faster on FP/BV-only path conditions)
        self.res = Result(name)
        self.query_timeout_ms = query_timeout_ms
        self.max_paths = max_paths
        self.path_wall_s = path_wall_s
        self.total_wall_s = total_wall_s
        self.on_path_end = None  # callback(ex, outcome) run outside the harness (env restored)

    # ---- input declaration -------------------------------------------------------------
    def _decl(self, name, var, kind):
        if name in self.inputs and self.inputs[name][1] != kind:
            raise HarnessError("input %s redeclared with another kind" % name)
        self.inputs[name] = (var, kind)
        return var

    def int(self, name, lo=None, hi=None):
        v = self._decl(name, z3.Int(name), "int")
        if lo is not None:
            self._add(v >= lo)
            self.cur_model = None
        if hi is not None:
            self._add(v <= hi)
            self.cur_model = None
        return SymInt(v)

    def bool(self, name):
        return SymBool(self._decl(name, z3.Bool(name), "bool"))

    def flag(self, name):
        """a symbolic Boolean decided right away (fork)"""
        return self.decide(self._decl(name, z3.Bool(name), "bool"))

    def choice(self, name, n):
        """a symbolic selector in range(n), concretised right away by forking"""
        if n > 255:
            raise HarnessError("choice() supports at most 255 alternatives")
        v = self._decl(name, z3.BitVec(name, 8), "bv")     # bit-vector, so FP/BV-only paths stay Int-free
        self._add(z3.ULT(v, n))
        self.cur_model = None
        for k in range(n - 1):
            if self.decide(v == k):
                return k
        return n - 1

    def bv(self, name, width):
        """a raw bit-vector (a C flag word): returned as a z3 term, which is what the C interpreter computes flag words with"""
        return self._decl(name, z3.BitVec(name, width), "bv")

    def opt_int(self, name):
        isnone = self._decl(name + "?none", z3.Bool(name + "?none"), "bool")
        if self.decide(isnone):
            return None
        return SymInt(self._decl(name, z3.Int(name), "int"))

    def fp(self, name):
        return SymFloat(self._decl(name, z3.FP(name, F64), "fp"))

    def str(self, name):
        return SymStr(self._decl(name, z3.String(name), "str"))

    def int64(self, name):
        """an integer in [-2**63, 2**63) backed by a 64-bit bit-vector (exact, fast int -> double conversion)"""
        b = self._decl(name, z3.BitVec(name, 64), "sbv")
        v = SymInt(z3.BV2Int(b, True))
        v.bv64 = b
        return v

    # ---- solver plumbing ---------------------------------------------------------------
    def _add(self, c):
        self.pending.append(c)
        self.pc.append(c)

    def _flush(self):
        if self.pending:
            self.solver.add(*self.pending)
            if self.fast is not None:
                try:
                    self.fast.add(*self.pending)
                except z3.Z3Exception:
                    self.fast = None
            self.pending = []

    def _fast_check(self, extra):
        """try the FP/BV bit-blasting pipeline; None when it does not apply (e.g. Int terms present)"""
        if self.fast is None:
            return None
        try:
            self.fast.push()
            try:
                if extra:
                    self.fast.add(*extra)
                r = self.fast.check()
                if r == z3.sat:
                    self.last_model = self.fast.model()
                    return True
                if r == z3.unsat:
                    self.last_model = None
                    return False
            finally:
                self.fast.pop()
        except z3.Z3Exception:
            pass
        self.fast = None       # not applicable on this path: fall back to the general solver
        return None

    def _check(self, *extra):
        t = time.time()
        self.res.queries += 1
        self._flush()
        fr = self._fast_check(extra)
        if fr is not None:
            self.res.solver_s += time.time() - t
            return fr
        if extra:
            self.solver.push()
            self.solver.add(*extra)
            r = self.solver.check()
            self.last_model = self.solver.model() if r == z3.sat else None
            self.solver.pop()
        else:
            r = self.solver.check()
            self.last_model = self.solver.model() if r == z3.sat else None
        self.res.solver_s += time.time() - t
        if r == z3.unknown:
            self.taint("solver returned unknown (%s)" % self.solver.reason_unknown())
        return r == z3.sat

    def taint(self, reason):
        if not self.tainted:
            self.tainted = reason
        raise PathAbort(reason)

    def _tick(self):
        if self.tainted:
            raise PathAbort(self.tainted)
        if self.infeasible:
            raise PathAbort("infeasible")
        if time.time() - self.path_t0 > self.path_wall_s:
            self.taint("path wall-clock limit %.0fs exceeded" % self.path_wall_s)

    def decide(self, cond, simplified=False):
        self._tick()
        if isinstance(cond, SymBool):
            cond, simplified = cond.e, cond.simplified
        if isinstance(cond, bool):
            return cond
        if not simplified:
            cond = z3.simplify(cond)
            if z3.is_true(cond):
                return True
            if z3.is_false(cond):
                return False
        cid = cond.get_id()
        hit = self.cache.get(cid)
        if hit is not None:           # same condition already decided on this path
            return hit[0]
        if self.pos < len(self.log):
            d = self.log[self.pos]
            self.pos += 1
            if not isinstance(d, bool):
                raise HarnessError("non-deterministic harness: decision log mismatch (bool expected, got %r)" % (d,))
            self._add(cond if d else z3.Not(cond))
            self.cache[cid] = (d, cond)
            self.cur_model = None
            return d
        # a model of the current path condition tells us one feasible side for free
        known = None
        if self.cur_model is not None:
            known = z3.is_true(self.cur_model.eval(cond, model_completion=True))
        if known is None:
            t = self._check(cond)
            mt = self.last_model
            f = self._check(z3.Not(cond))
            mf = self.last_model
        elif known:
            t, mt = True, self.cur_model
            f = self._check(z3.Not(cond))
            mf = self.last_model
        else:
            f, mf = True, self.cur_model
            t = self._check(cond)
            mt = self.last_model
        if not t and not f:
            self.infeasible = True
            raise PathAbort("infeasible path condition")
        if XCHECK_EVERY and (t != f):
            # one side was pruned as infeasible: an 'unsat' verdict that, if wrong, would silently lose paths
            self.res.unsat_verdicts = getattr(self.res, "unsat_verdicts", 0) + 1
            if self.res.unsat_verdicts == 3 or self.res.unsat_verdicts % XCHECK_EVERY == 0:
                who = cross_check_unsat(list(self.solver.assertions()) + [z3.Not(cond) if t else cond], self.res)
                if who:
                    self.taint("solver disagreement on a pruned branch: %s says sat where z3 %s says unsat" % (who, z3.get_version_string()))
        if t and f:
            self.newforks.append(self.log[:self.pos] + [False])
            d = True
        else:
            d = t
        self.log.append(d)
        self.pos += 1
        self.res.decisions += 1
        self._add(cond if d else z3.Not(cond))
        self.cur_model = mt if d else mf
        self.cache[cid] = (d, cond)
        return d

    def enumerate_int(self, term, limit=64):
        """bounded-exhaustive forking of an integer term that is about to cross a C boundary"""
        self._tick()
        term = z3.simplify(term)
        if z3.is_int_value(term):
            return term.as_long()
        if self.pos < len(self.log):
            d = self.log[self.pos]
            self.pos += 1
            if not (isinstance(d, tuple) and d[0] == "v"):
                raise HarnessError("non-deterministic harness: decision log mismatch (value expected)")
            self._add(term == d[1])
            self.cur_model = None
            return d[1]
        vals = []
        while len(vals) <= limit:
            if not self._check(*( [term != v for v in vals] )):
                break
            vals.append(self.last_model.eval(term, model_completion=True).as_long())
        if not vals:
            self.infeasible = True
            raise PathAbort("infeasible path condition")
        if len(vals) > limit:
            self.taint("symbolic int with more than %d feasible values reached a C boundary (__index__)" % limit)
        vals.sort()
        for v in vals[1:]:
            self.newforks.append(self.log[:self.pos] + [("v", v)])
        self.log.append(("v", vals[0]))
        self.pos += 1
        self.res.decisions += 1
        self._add(term == vals[0])
        self.cur_model = None
        return vals[0]

    def assume(self, cond):
        cond = zbool(cond) if not isinstance(cond, bool) else z3.BoolVal(cond)
        self._add(cond)
        self.cur_model = None
        if not self._check():
            self.infeasible = True
            raise PathAbort("assumption infeasible")
        self.cur_model = self.last_model

    def check(self, cond, label):
        """discharge: under the path condition, cond holds for every value"""
        self._tick()
        self.res.checks += 1
        self.path_checks += 1
        self.res.reached.add(label)
        if isinstance(cond, SymBool):
            cond = cond.e
        if isinstance(cond, bool):
            if cond:
                return True
            if not self._check():
                return True
            self._violation(label, self.last_model)
            return False
        cond = z3.simplify(cond)
        if z3.is_true(cond):
            return True
        if self._check(z3.Not(cond)):
            self._violation(label, self.last_model)
            return False
        every = XCHECK_EVERY
        self.res.unsat_verdicts = getattr(self.res, "unsat_verdicts", 0) + 1
        if every and (self.res.unsat_verdicts == 3 or self.res.unsat_verdicts % every == 0):
            who = cross_check_unsat(list(self.solver.assertions()) + [z3.Not(cond)], self.res)
            if who:
                self.taint("solver disagreement: %s says sat where z3 %s says unsat" % (who, z3.get_version_string()))
        return True

    def model_values(self, model):
        vals = {}
        for name, (var, kind) in self.inputs.items():
            v = model.eval(var, model_completion=True)
            if kind == "int":
                vals[name] = v.as_long()
            elif kind == "bool":
                vals[name] = z3.is_true(v)
            elif kind == "str":
                vals[name] = v.as_string()
            elif kind == "fp":
                vals[name] = fp_to_py(v)
            elif kind == "bv":
                vals[name] = v.as_long()
            elif kind == "sbv":
                vals[name] = v.as_signed_long()
            else:
                raise HarnessError("unknown input kind " + kind)
        return vals

    def _violation(self, label, model):
        self.path_violations.append({"label": label, "values": self.model_values(model)})

    def note(self, k, v):
        pass

    # ---- driver ------------------------------------------------------------------------
    def run(self, harness, env=None):
        """env: optional context-manager factory establishing the environment models for symbolic runs"""
        global CUR
        res = self.res
        t_start = time.time()
        stack = [[]]
        while stack:
            if res.paths + res.aborted_paths >= self.max_paths:
                res.inconclusive.append("path budget (%d) exhausted" % self.max_paths)
                break
            if self.total_wall_s and time.time() - t_start > self.total_wall_s:
                res.inconclusive.append("obligation wall budget (%.0fs) exhausted" % self.total_wall_s)
                break
            prefix = stack.pop()
            self.log = list(prefix)
            self.pos = 0
            self.solver = z3.Solver()
            self.solver.set("timeout", self.query_timeout_ms)
            self.fast = None
            if self.fast_fp:
                self.fast = z3.Then("simplify", "fpa2bv", "bit-blast", "sat").solver()
                self.fast.set("timeout", self.query_timeout_ms)
            self.pc = []
            self.pending = []
            self.inputs = {}
            self.newforks = []
            self.tainted = None
            self.infeasible = False
            self.cache = {}
            self.cur_model = None
            self.path_violations = []
            self.path_checks = 0
            self.path_t0 = time.time()
            prev, CUR = CUR, self
            obs = None
            exc = None
            cm = env() if env else None
            try:
                if cm:
                    cm.__enter__()
                try:
                    obs = harness(self)
                finally:
                    if cm:
                        cm.__exit__(None, None, None)
            except PathAbort:
                pass
            except HarnessError:
                CUR = prev
                raise
            except Exception as e:  # an exception escaping the harness is a harness bug
                CUR = prev
                raise HarnessError("exception escaped harness %s on path %r: %r" % (res.name, self.log, e)) from e
            finally:
                CUR = prev
            stack.extend(self.newforks)
            if self.tainted:
                res.aborted_paths += 1
                res.inconclusive.append(self.tainted)
                continue
            if self.infeasible:
                res.aborted_paths += 1
                continue
            res.paths += 1
            if self.path_checks:
                res.paths_with_checks += 1
            if self.on_path_end:
                CUR = self
                try:
                    self.on_path_end(self, obs)
                finally:
                    CUR = prev
        else:
            res.exhausted = True
        res.wall_s = time.time() - t_start
        return res

    def path_model(self):
        self._flush()
        if self._fast_check(()) is True:
            return self.last_model
        if self.solver.check() != z3.sat:
            return None
        return self.solver.model()


def fp_to_py(v):
    """z3 FP numeral -> python float (exact)"""
    if z3.is_fp(v):
        if v.isNaN():
            return float("nan")
        if v.isInf():
            return float("-inf") if v.isNegative() else float("inf")
        if v.isZero():
            return -0.0 if v.isNegative() else 0.0
        import struct
        bv = z3.simplify(z3.fpToIEEEBV(v)).as_long()
        return struct.unpack("<d", struct.pack("<Q", bv))[0]
    raise HarnessError("not an fp numeral: %r" % (v,))


def evaluate(obs, model):
    """evaluate an observation structure (nested lists/tuples/dicts with proxy leaves) under a model"""
    if isinstance(obs, SymInt):
        return model.eval(obs.e, model_completion=True).as_long()
    if isinstance(obs, SymBool):
        return z3.is_true(model.eval(obs.e, model_completion=True))
    if isinstance(obs, SymStr):
        return model.eval(obs.e, model_completion=True).as_string()
    if isinstance(obs, (list, tuple)):
        return type(obs)(evaluate(o, model) for o in obs) if type(obs) in (list, tuple) else [evaluate(o, model) for o in obs]
    if isinstance(obs, dict):
        return {k: evaluate(v, model) for k, v in obs.items()}
    if hasattr(obs, "__sym_eval__"):
        return obs.__sym_eval__(model)
    return obs


# ---------------------------------------------------------------------------------------
# floats / complex numbers / opaque conversion results (used by csym and the Python-side shadows)

F64 = z3.Float64()
RNE = z3.RNE()
TWO63 = 2 ** 63
# PyLong_AsDouble raises OverflowError iff the integer rounds to infinity: |v| >= 2**1024 - 2**970
I2D_OVERFLOW = 2 ** 1024 - 2 ** 970

_i2d_big = z3.Function("i2d_big", z3.IntSort(), F64)      # |v| >= 2**63: uninterpreted, constrained below
_d2i = z3.Function("d2i", F64, z3.IntSort())              # int(float) truncation, uninterpreted


def fpval(x):
    if isinstance(x, SymFloat):
        return x.f
    if isinstance(x, float):
        return z3.FPVal(x, F64)
    if isinstance(x, bool):
        return z3.FPVal(float(x), F64)
    if isinstance(x, int):
        return z3.FPVal(float(x), F64)
    if z3.is_fp(x):
        return x
    return NotImplemented


class SymFloat:
    """IEEE double (z3 Float64) - never a real.  pytype: float or a float subclass."""

    def __init__(self, f, pytype=float):
        self.f = f
        self.pytype = pytype

    def _cmp(s, o, fn):
        if isinstance(o, SymInt):
            # Python compares int with float exactly; the double conversion used here is exact only up to 2**53:
            # stated bound for mixed int/float comparisons
            b = getattr(o, "bv64", None)
            if b is not None:
                CUR.assume(z3.And(b >= -(2 ** 53), b <= 2 ** 53))      # signed bit-vector comparison: stays Int-free
            else:
                CUR.assume(z3.And(o.e >= -(2 ** 53), o.e <= 2 ** 53))
        z = fpval(o) if not isinstance(o, SymInt) else int_to_double_term(o)
        if z is NotImplemented:
            return NotImplemented
        r = z3.simplify(fn(s.f, z))
        if z3.is_true(r):
            return True
        if z3.is_false(r):
            return False
        return SymBool(r, True)

    def __lt__(s, o): return s._cmp(o, z3.fpLT)
    def __le__(s, o): return s._cmp(o, z3.fpLEQ)
    def __gt__(s, o): return s._cmp(o, z3.fpGT)
    def __ge__(s, o): return s._cmp(o, z3.fpGEQ)

    def __eq__(s, o):
        r = s._cmp(o, z3.fpEQ)
        return False if r is NotImplemented else r

    def __ne__(s, o):
        r = s._cmp(o, z3.fpNEQ)
        return True if r is NotImplemented else r

    def __bool__(s):
        return CUR.decide(z3.Not(z3.fpIsZero(s.f)))

    def __hash__(s):
        CUR.taint("hash() of a symbolic float (unmodelled C boundary)")

    def __float__(s):
        CUR.taint("float() of a symbolic float reached a C boundary")

    def __repr__(s): return "<symfloat>"
    __str__ = __repr__

    def __format__(s, spec): return "<symfloat>"


class SymComplex:
    def __init__(self, re, im, pytype=complex):
        self.re, self.im, self.pytype = re, im, pytype

    def _parts_of(self, o):
        if isinstance(o, SymComplex):
            return o.re, o.im
        if isinstance(o, complex):
            return z3.FPVal(o.real, F64), z3.FPVal(o.imag, F64)
        f = fpval(o) if not isinstance(o, SymInt) else int_to_double_term(o)
        if f is NotImplemented:
            return None
        return f, z3.FPVal(0.0, F64)

    def __eq__(self, o):
        p = self._parts_of(o)
        if p is None:
            return False
        return SymBool(z3.simplify(z3.And(z3.fpEQ(self.re, p[0]), z3.fpEQ(self.im, p[1]))))

    def __ne__(self, o):
        p = self._parts_of(o)
        if p is None:
            return True
        return SymBool(z3.simplify(z3.Not(z3.And(z3.fpEQ(self.re, p[0]), z3.fpEQ(self.im, p[1])))))

    def __repr__(s): return "<symcomplex>"
    __str__ = __repr__

    def __format__(s, spec): return "<symcomplex>"

    def __hash__(s):
        CUR.taint("hash() of a symbolic complex")


class SymOpaque:
    """result of a conversion we do not compute (str(x), bytes(n), int(float)): identified by its origin"""

    def __init__(self, pytype, origin):
        self.pytype = pytype
        self.origin = origin      # hashable description incl. z3 term ids

    def __repr__(s): return "<opaque %s>" % s.pytype.__name__
    __str__ = __repr__

    def __format__(s, spec): return repr(s)


def int_to_double_term(v):
    """z3 FP term for PyLong_AsDouble(v) under the *current path*: forks on |v| < 2**63 (exact, bit-vector based)
    versus the stub range (uninterpreted, finite, magnitude >= 2**63).  Overflow is decided by the caller."""
    b = getattr(v, "bv64", None)
    if b is not None:
        return z3.fpSignedToFP(RNE, b, F64)
    e = z3.simplify(_z(v))
    if z3.is_int_value(e):
        return z3.FPVal(float(e.as_long()), F64)
    # stated bound: a mathematical integer that gets converted to a double is inside [-2**63, 2**63)
    # (the caller has already split off the OverflowError range; 2**63 <= |v| < 2**1024 is outside the claim)
    CUR.assume(z3.And(e >= -TWO63, e < TWO63))
    return z3.fpSignedToFP(RNE, z3.Int2BV(e, 64), F64)


def double_to_int(f):
    """int(float) for a finite double: truncation toward zero.  Stated bound: |f| < 2**63 (beyond is outside the claim)."""
    lim = z3.FPVal(float(TWO63), F64)
    CUR.assume(z3.And(z3.fpLT(f, lim), z3.fpGT(f, z3.fpNeg(lim))))
    b = z3.fpToSBV(z3.RTZ(), f, z3.BitVecSort(64))
    r = SymInt(z3.BV2Int(b, True))
    r.bv64 = b
    return r


def pytype_of(x):
    vt = getattr(type(x), "_vt_pytype", None)
    if vt is not None:
        return vt
    t = getattr(x, "pytype", None)
    if t is not None and isinstance(x, (SymInt, SymFloat, SymComplex, SymOpaque, SymStr)):
        return t
    return type(x)


def is_proxy(x):
    return isinstance(x, (SymInt, SymFloat, SymComplex, SymOpaque, SymBool, SymStr))


# ---------------------------------------------------------------------------------------
STR_CONST_HASH = [False]     # switched on by obligations whose code under test keys a dict by a symbolic string


class SymStr:
    """symbolic str (z3 String, unbounded length).  Supports what attribute-name handling code does:
    ==, slicing with concrete bounds, startswith/endswith, concatenation with str.  Formatting gives a placeholder."""
    pytype = str

    def __init__(self, e):
        self.e = e

    @staticmethod
    def _lift(o):
        if isinstance(o, SymStr):
            return o.e
        if isinstance(o, str):
            return z3.StringVal(o)
        return NotImplemented

    def __eq__(self, o):
        z = self._lift(o)
        if z is NotImplemented:
            return False
        return SymBool(z3.simplify(self.e == z))

    def __ne__(self, o):
        z = self._lift(o)
        if z is NotImplemented:
            return True
        return SymBool(z3.simplify(self.e != z))

    def __hash__(self):
        if STR_CONST_HASH[0]:
            return 0        # constant-hash discipline (as for SymInt keys): dict / set membership is decided by == forks
        CUR.taint("hash() of a symbolic string (unmodelled C boundary)")

    def __len__(self):
        return CUR.enumerate_int(z3.Length(self.e))

    def find(self, sub, *a):
        if a:
            CUR.taint("str.find with bounds on a symbolic string")
        return SymInt(z3.IndexOf(self.e, self._lift(sub), z3.IntVal(0)))

    def length(self):
        return SymInt(z3.Length(self.e))

    def __getitem__(self, key):
        if not isinstance(key, slice) or key.step not in (None, 1):
            CUR.taint("unsupported index into a symbolic string")
        n = z3.Length(self.e)

        def norm(v, default):
            if v is None:
                return default
            if isinstance(v, SymInt):
                v = v.e
                return z3.If(v < 0, z3.If(n + v < 0, z3.IntVal(0), n + v), z3.If(v > n, n, v))
            v = int(v)
            if v < 0:
                return z3.If(n + v < 0, z3.IntVal(0), n + v)
            return z3.If(n < v, n, z3.IntVal(v))
        a = norm(key.start, z3.IntVal(0))
        b = norm(key.stop, n)
        ln = z3.If(b > a, b - a, z3.IntVal(0))
        return SymStr(z3.simplify(z3.SubString(self.e, a, ln)))

    def startswith(self, p):
        return SymBool(z3.simplify(z3.PrefixOf(self._lift(p), self.e)))

    def endswith(self, p):
        return SymBool(z3.simplify(z3.SuffixOf(self._lift(p), self.e)))

    def __add__(self, o):
        z = self._lift(o)
        return NotImplemented if z is NotImplemented else SymStr(z3.Concat(self.e, z))

    def __radd__(self, o):
        z = self._lift(o)
        return NotImplemented if z is NotImplemented else SymStr(z3.Concat(z, self.e))

    def __str__(self):
        return "<symstr>"

    __repr__ = __str__

    def __format__(self, spec):
        return "<symstr>"
