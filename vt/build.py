"""Scratch build of /repo's *current working tree*: copy, build_ext, optional clang AST dump.

Every check run starts here, so the encoding is regenerated from the current source.
The scratch directory lives under $TMPDIR (outside /repo and /verif) and is removed at exit.
"""
import atexit, hashlib, json, os, shutil, subprocess, sys, tempfile, time

REPO = os.environ.get("VERIF_REPO", "/repo")
PYINC = "/root/.pyenv/versions/3.12.1/include/python3.12"


class Build:
    def __init__(self, root):
        self.root = root
        self.ast_path = None
        self.times = {}

    def src(self, rel):
        return os.path.join(self.root, rel)

    def sha(self, rel):
        with open(self.src(rel), "rb") as f:
            return hashlib.sha256(f.read()).hexdigest()[:16]


def _rm(path):
    shutil.rmtree(path, ignore_errors=True)


def prepare(need_ext=True, need_ast=False, keep=False):
    t0 = time.time()
    root = tempfile.mkdtemp(prefix="vt-build-")
    if not keep:
        atexit.register(_rm, root)
    b = Build(root)
    subprocess.run(
        ["rsync", "-a", "--exclude", "*.so", "--exclude", "__pycache__", "--exclude", "build",
         os.path.join(REPO, "traits"), os.path.join(REPO, "setup.py"), os.path.join(REPO, "pyproject.toml"),
         os.path.join(REPO, "setup.cfg"), os.path.join(REPO, "README.rst"), root + "/"],
        check=True)
    if not os.path.exists(os.path.join(root, "traits", "version.py")):
        with open(os.path.join(root, "traits", "version.py"), "w") as f:
            f.write('version = "0.0.0"\ngit_revision = "unknown"\n')
    b.times["copy"] = time.time() - t0
    if need_ext:
        t1 = time.time()
        env = dict(os.environ)
        env.pop("PYTHONPATH", None)
        r = subprocess.run([sys.executable, "setup.py", "-q", "build_ext", "--inplace"], cwd=root,
                           stdout=subprocess.PIPE, stderr=subprocess.STDOUT, env=env)
        so = [f for f in os.listdir(os.path.join(root, "traits")) if f.startswith("ctraits") and f.endswith(".so")]
        if r.returncode != 0 or not so:
            sys.stdout.write(r.stdout.decode(errors="replace")[-4000:])
            raise SystemExit("HARNESS-ERROR: build_ext of /repo working tree failed")
        shutil.rmtree(os.path.join(root, "build"), ignore_errors=True)
        b.times["build_ext"] = time.time() - t1
    if need_ast:
        t2 = time.time()
        b.ast_path = os.path.join(root, "ctraits.ast.json")
        with open(b.ast_path, "wb") as out:
            r = subprocess.run(["clang", "-fsyntax-only", "-DNDEBUG", "-Xclang", "-ast-dump=json", "-I", PYINC,
                                os.path.join(root, "traits", "ctraits.c")], stdout=out, stderr=subprocess.PIPE)
        if r.returncode != 0:
            sys.stdout.write(r.stderr.decode(errors="replace")[-4000:])
            raise SystemExit("HARNESS-ERROR: clang AST dump of ctraits.c failed")
        b.times["clang_ast"] = time.time() - t2
    return b


def activate(b):
    """Make `import traits` resolve to the scratch build in this process and in child processes."""
    for k in [k for k in sys.modules if k == "traits" or k.startswith("traits.")]:
        del sys.modules[k]
    sys.path.insert(0, b.root)
    os.environ["PYTHONPATH"] = b.root + (os.pathsep + os.environ["PYTHONPATH"] if os.environ.get("PYTHONPATH") else "")
    import traits
    assert os.path.dirname(os.path.dirname(os.path.abspath(traits.__file__))) == os.path.abspath(b.root), traits.__file__
    import traits.ctraits as ct
    assert os.path.abspath(ct.__file__).startswith(os.path.abspath(b.root)), ct.__file__
