"""Environment models: built-ins that the traits code calls and that would otherwise be a C boundary.

MSlice      pure-Python slice; indices() written after CPython's PySlice_AdjustIndices.
OpModel     stands in for the `operator` module (index()).
ListModel   list subclass inserted into the MRO *behind* TraitList: classifies a symbolic index / slice
            against the concrete current length by forking, then performs the operation on the real
            list with an explicit list of concrete positions (never rebuilds a built-in slice).

All of them are differentially tested against the real built-ins on a concrete grid at the start
of every run that uses them (selftest()).
"""
import itertools
import operator as _operator

from . import symx
from .symx import SymInt, SymBool


class MSlice:
    __slots__ = ("start", "stop", "step")

    def __init__(self, *args):
        if len(args) == 1:
            self.start, self.stop, self.step = None, args[0], None
        elif len(args) == 2:
            self.start, self.stop, self.step = args[0], args[1], None
        elif len(args) == 3:
            self.start, self.stop, self.step = args
        else:
            raise TypeError("slice expected at most 3 arguments")

    def indices(self, length):
        step = 1 if self.step is None else self.step
        if step == 0:
            raise ValueError("slice step cannot be zero")
        neg = step < 0
        if neg:
            lower, upper = -1, length - 1
        else:
            lower, upper = 0, length

        def adj(v, dflt):
            if v is None:
                return dflt
            if v < 0:
                v = v + length
                if v < lower:
                    v = lower
                return v
            if v > upper:
                v = upper
            return v

        start = adj(self.start, upper if neg else lower)
        stop = adj(self.stop, lower if neg else upper)
        return start, stop, step

    def __eq__(self, other):
        if isinstance(other, (MSlice, slice)):
            return (self.start, self.stop, self.step) == (other.start, other.stop, other.step)
        return NotImplemented

    __hash__ = None

    def __repr__(self):
        return "MSlice(%r, %r, %r)" % (self.start, self.stop, self.step)

    def __sym_eval__(self, model):
        return slice(symx.evaluate(self.start, model), symx.evaluate(self.stop, model), symx.evaluate(self.step, model))


class _SliceShadowMeta(type):
    """`slice` inside a shadowed module: calling it builds an MSlice; isinstance() accepts MSlice and real slices
    (a literal a[i:j] in the code under test still creates a built-in slice)"""

    def __call__(cls, *a):
        return MSlice(*a)

    def __instancecheck__(cls, obj):
        return isinstance(obj, (MSlice, slice))


SliceShadow = _SliceShadowMeta("slice", (), {})


def is_slice(x):
    return isinstance(x, (MSlice, slice))


class OpModel:
    """shadow for the `operator` module: index() of an int-like proxy is the proxy"""

    @staticmethod
    def index(x):
        if isinstance(x, SymInt):
            return x
        if isinstance(x, SymBool):
            return SymInt(symx._z(x))
        return _operator.index(x)

    def __getattr__(self, name):
        return getattr(_operator, name)


def classify(x, lo, hi):
    """Concrete representative of a (possibly symbolic) int w.r.t. the window [lo, hi]:
    every value below lo -> lo-1, every value above hi -> hi+1, values inside -> themselves (by forking)."""
    if not isinstance(x, SymInt):
        if isinstance(x, SymBool):
            x = SymInt(symx._z(x))
        else:
            x = _operator.index(x)
            return max(lo - 1, min(hi + 1, x))
    if x < lo:
        return lo - 1
    for k in range(lo, hi + 1):
        if x == k:
            return k
    return hi + 1


def positions(key, n):
    """Concrete list of positions selected by slice `key` on a list of length n,
    plus the clamped (start, stop, step) triple as the code under test would see it."""
    start, stop, step = key.indices(n)   # real slice: concrete ints; MSlice: possibly symbolic
    cstart = classify(start, -1, n)
    cstop = classify(stop, -1, n)
    cstep = classify(step, -n - 1, n + 1)
    # clamped start/stop are always inside [-1, n] so the classes are exact values;
    # |step| > n selects at most one element from start, exactly like +-(n+1).
    return list(range(cstart, cstop, cstep)), (cstart, cstop, cstep)


class ListModel(list):
    """Sits behind TraitList in the MRO.  All methods accept symbolic indices/slices."""

    def _index(self, key):
        n = len(self)
        c = classify(key, -n, n - 1)
        return c

    def __getitem__(self, key):
        if is_slice(key):
            pos, _ = positions(key, len(self))
            return [list.__getitem__(self, p) for p in pos]
        return list.__getitem__(self, self._index(key))

    def __delitem__(self, key):
        if is_slice(key):
            pos, _ = positions(key, len(self))
            for p in sorted(pos, reverse=True):
                list.__delitem__(self, p)
            return
        list.__delitem__(self, self._index(key))

    def __setitem__(self, key, value):
        if is_slice(key):
            n = len(self)
            pos, (cstart, cstop, cstep) = positions(key, n)
            value = list(value)
            if cstep == 1:
                # list_ass_slice: replace [start, max(start, stop)) by value
                hi = max(cstart, cstop)
                list.__setitem__(self, slice(cstart, hi, None), value)
                return
            if len(value) != len(pos):
                raise ValueError("attempt to assign sequence of size %d to extended slice of size %d"
                                 % (len(value), len(pos)))
            for p, v in zip(pos, value):
                list.__setitem__(self, p, v)
            return
        list.__setitem__(self, self._index(key), value)

    @staticmethod
    def _ssize_t(index):
        """insert() and pop() convert their index to a C ssize_t: outside that range CPython raises OverflowError (the
        subscript forms turn the same failure into IndexError, which the out-of-range classes already cover)"""
        if isinstance(index, SymBool):
            return
        if isinstance(index, SymInt) or isinstance(index, int):
            if index >= 2 ** 63 or index < -2 ** 63:
                raise OverflowError("Python int too large to convert to C ssize_t")

    def insert(self, index, obj):
        self._ssize_t(index)
        n = len(self)
        c = classify(index, -n, n)
        list.insert(self, c, obj)

    def pop(self, index=-1):
        self._ssize_t(index)
        return list.pop(self, self._index(index))

    # factor classes for *=: everything < 1 behaves like 0; larger factors are bounded by the harness
    IMUL_MAX = 3

    def __imul__(self, value):
        if len(self) == 0:
            # any factor leaves [] unchanged; still let proxies through without forking
            if isinstance(value, (SymInt, SymBool)):
                return self
            return list.__imul__(self, value)
        c = classify(value, 1, self.IMUL_MAX)
        if c > self.IMUL_MAX:
            symx.CUR.taint("list *= factor above the stated bound %d" % self.IMUL_MAX)
        return list.__imul__(self, c)


# ---------------------------------------------------------------------------------------
def selftest(maxlen=5, span=8):
    """Differential test of MSlice / ListModel against the built-ins on a concrete grid.
    Returns the number of comparisons; raises AssertionError on a mismatch."""
    count = 0
    vals = [None] + list(range(-span, span + 1))
    for n in range(maxlen + 1):
        base = list(range(100, 100 + n))
        for a, b, c in itertools.product(vals, vals, vals):
            if c == 0:
                continue
            rs, ms = slice(a, b, c), MSlice(a, b, c)
            assert rs.indices(n) == ms.indices(n), (n, a, b, c)
            ref = list(base)
            mod = ListModel(base)
            assert ref[rs] == mod[ms], ("get", n, a, b, c)
            del ref[rs]
            del mod[ms]
            assert ref == list(mod), ("del", n, a, b, c)
            count += 3
            if (abs(a or 0) <= 3 and abs(c or 1) <= 3) or n <= 3:
                for m in range(0, 4):
                    ref = list(base)
                    mod = ListModel(base)
                    new = list(range(200, 200 + m))
                    try:
                        ref[rs] = new
                        e1 = None
                    except ValueError as e:
                        e1 = type(e)
                    try:
                        mod[ms] = new
                        e2 = None
                    except ValueError as e:
                        e2 = type(e)
                    assert e1 == e2 and ref == list(mod), ("set", n, a, b, c, m)
                    count += 1
        for i in list(range(-span, span + 1)) + [2 ** 63 - 1, 2 ** 63, -2 ** 63, -2 ** 63 - 1, 2 ** 70]:
            for opname in ("get", "set", "del", "insert", "pop"):
                ref = list(base)
                mod = ListModel(base)
                r1 = r2 = e1 = e2 = None
                try:
                    if opname == "get": r1 = ref[i]
                    elif opname == "set": ref[i] = 7
                    elif opname == "del": del ref[i]
                    elif opname == "insert": ref.insert(i, 7)
                    else: r1 = ref.pop(i)
                except (IndexError, OverflowError) as e:
                    e1 = type(e)
                try:
                    if opname == "get": r2 = mod[i]
                    elif opname == "set": mod[i] = 7
                    elif opname == "del": del mod[i]
                    elif opname == "insert": mod.insert(i, 7)
                    else: r2 = mod.pop(i)
                except (IndexError, OverflowError) as e:
                    e2 = type(e)
                assert (r1, e1, ref) == (r2, e2, list(mod)), (opname, n, i)
                count += 1
            if -1 <= i <= ListModel.IMUL_MAX:
                ref = list(base); mod = ListModel(base)
                ref *= i; mod *= i
                assert ref == list(mod)
                count += 1
    return count
