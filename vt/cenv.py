"""Glue between csym and the traits package: interpreter construction, module globals of ctraits.c,
abstract trait_object / has_traits_object records built from real handlers and real HasTraits objects."""
import contextlib

from . import csym, capi, pymodel, symx
from .csym import NULL, Struct, FnPtr

PROGRAM = None


def load_program(build):
    global PROGRAM
    if PROGRAM is None:
        PROGRAM = csym.Program(build.ast_path)
    return PROGRAM


def module_globals():
    """file-scope PyObject* variables of ctraits.c as the running package sets them, plus CPython's globals"""
    import traits.ctraits as ct
    from traits.trait_errors import TraitError, DelegationError
    from traits.trait_base import Undefined, Uninitialized
    from traits.trait_list_object import TraitListObject
    from traits.trait_set_object import TraitSetObject
    from traits.trait_dict_object import TraitDictObject
    from traits.adaptation.adaptation_manager import adapt
    from traits.ctrait import CTrait
    import builtins
    g = {
        "TraitError": TraitError, "DelegationError": DelegationError, "Undefined": Undefined,
        "Uninitialized": Uninitialized, "TraitListObject": TraitListObject, "TraitSetObject": TraitSetObject,
        "TraitDictObject": TraitDictObject, "adapt": adapt, "ctrait_type": CTrait,
        "class_traits": "__class_traits__", "listener_traits": "__listener_traits__",
        "editor_property": "editor", "class_prefix": "__prefix__", "trait_added": "trait_added",
        "&_Py_NoneStruct": None, "&_Py_TrueStruct": True, "&_Py_FalseStruct": False,
        "&_Py_NotImplementedStruct": NotImplemented,
        "&has_traits_type": ct.CHasTraits, "&trait_type": ct.cTrait,
        "&PyFloat_Type": float, "&PyLong_Type": int, "&PyTuple_Type": tuple, "&PyComplex_Type": complex,
        "&PyBool_Type": bool, "&PyUnicode_Type": str, "&PyDict_Type": dict, "&PyList_Type": list,
        "&PyType_Type": type, "&PyBaseObject_Type": object,
    }
    for name in dir(builtins):
        obj = getattr(builtins, name)
        if isinstance(obj, type) and issubclass(obj, BaseException):
            g["PyExc_" + name] = obj
    return g


INTERPS = []          # every interpreter created in this (worker) process: their `called` sets are the measured coverage


def c_functions_interpreted():
    out = set()
    for it in INTERPS:
        out |= set(it.called)
    return sorted(out)


def new_interp():
    api = capi.build(None)
    it = csym.Interp(PROGRAM, api, module_globals())
    INTERPS.append(it)
    if len(INTERPS) > 64:          # keep the names, drop the interpreters
        keep = c_functions_interpreted()
        del INTERPS[:]
        INTERPS.append(type("Called", (), {"called": set(keep)})())
    it.st = api["__state__"]
    install_bridge(it)
    install_ht_bridge(it)
    return it


TRAIT_FIELDS = ["flags", "getattr", "setattr", "post_setattr", "py_post_setattr", "validate", "py_validate",
                "default_value_type", "default_value", "delegate_name", "delegate_prefix", "delegate_attr_name",
                "notifiers", "handler", "obj_dict"]


def new_trait(handler=NULL, pyobj=None, **kw):
    f = dict(flags=0, getattr=NULL, setattr=NULL, post_setattr=NULL, py_post_setattr=NULL, validate=NULL,
             py_validate=NULL, default_value_type=0, default_value=NULL, delegate_name=NULL, delegate_prefix=NULL,
             delegate_attr_name=NULL, notifiers=NULL, handler=handler, obj_dict=NULL)
    f.update(kw)
    t = Struct("trait_object", **f)
    if pyobj is not None:
        t.pyobj = pyobj
    else:
        from traits.ctrait import CTrait
        t.pytype = CTrait
    return t


def new_hasTraits(pyobj, **kw):
    f = dict(ctrait_dict=NULL, itrait_dict=NULL, notifiers=NULL, flags=0, obj_dict=NULL)
    f.update(kw)
    o = Struct("has_traits_object", **f)
    o.pyobj = pyobj
    return o


def finalize(v):
    """C result -> Python-level value"""
    if isinstance(v, capi.NewTuple):
        return capi.final_tuple(v)
    return v


@contextlib.contextmanager
def shadow(module, **names):
    """module-global shadowing for the duration of a symbolic run"""
    saved = {}
    missing = object()
    for k, v in names.items():
        saved[k] = module.__dict__.get(k, missing)
        setattr(module, k, v)
    try:
        yield
    finally:
        for k, v in saved.items():
            if v is missing:
                delattr(module, k)
            else:
                setattr(module, k, v)


def c_validate_float(value):
    """shadow of traits.ctraits._validate_float: the real C function, interpreted"""
    it = new_interp()
    r = it.call("validate_float", [value])
    if r is NULL:
        raise it.st.err[1]
    return r


def c_validate_complex_number(value):
    it = new_interp()
    r = it.call("validate_complex_number", [value])
    if r is NULL:
        raise it.st.err[1]
    return r


@contextlib.contextmanager
def python_side_env():
    """environment models for running traits' Python validators on proxies"""
    import traits.trait_types as tt
    with shadow(tt, type=pymodel.m_type, isinstance=pymodel.m_isinstance, issubclass=pymodel.m_issubclass,
                int=pymodel.IntShadow, float=pymodel.FloatShadow, complex=pymodel.ComplexShadow,
                str=pymodel.StrShadow, bytes=pymodel.BytesShadow, bool=pymodel.BoolShadow,
                operator=pymodel.OperatorShadow(), _validate_float=c_validate_float,
                RangeTypes=(int, float, pymodel.IntShadow, pymodel.FloatShadow),
                _validate_complex_number=c_validate_complex_number):
        import traits.trait_handlers as th
        with shadow(th, isinstance=pymodel.m_isinstance):
            yield


def refresh_flags(it, pyobj):
    """re-read the notification flags of a bridged object (after natively running code may have changed them)"""
    ent = it.__dict__.get("_ht_cache", {}).get(id(pyobj))
    if ent is None:
        return
    s = ent[1]
    flags = s.flags & ~(HASTRAITS_NO_NOTIFY | HASTRAITS_VETO_NOTIFY)
    if not pyobj._trait_notifications_enabled():
        flags |= HASTRAITS_NO_NOTIFY
    if pyobj._trait_notifications_vetoed():
        flags |= HASTRAITS_VETO_NOTIFY
    s.flags = flags


# ---- bridging real CTrait objects into abstract trait records ---------------------------------------
def static_table(it, name):
    return it.global_value(name).items


def trait_struct_from_ctrait(it, ct):
    """abstract trait_object for a real CTrait: the function-table indices come from the compiled __getstate__,
    the function designators from the *current* source's tables (so table edits are seen)"""
    cache = it.__dict__.setdefault("_trait_cache", {})
    if id(ct) in cache:
        return cache[id(ct)][1]
    import traits.ctraits as ctm
    st = ctm.cTrait.__getstate__(ct)

    def tab(name, i):
        items = static_table(it, name)
        if not (0 <= i < len(items)):
            raise csym.MemSafety("index %d outside table %s while bridging a CTrait" % (i, name))
        return items[i]
    dvt, dv = ct.default_value()
    handler = st[13]
    py_validate = st[5]
    if isinstance(py_validate, int) and not isinstance(py_validate, bool):
        py_validate = getattr(handler, "validate")
    py_post = st[3]
    if isinstance(py_post, int) and not isinstance(py_post, bool):
        py_post = getattr(handler, "post_setattr")
    nul = lambda v: NULL if v is None else v
    t = new_trait(
        handler=nul(handler), pyobj=ct, flags=st[8], getattr=tab("getattr_handlers", st[0]),
        setattr=tab("setattr_handlers", st[1]), post_setattr=tab("setattr_property_handlers", st[2]),
        py_post_setattr=nul(py_post), validate=tab("validate_handlers", st[4]), py_validate=nul(py_validate),
        default_value_type=dvt, default_value=dv if not (dvt == 0 and dv is None and st[7] is None) else NULL,
        delegate_name=nul(st[9]), delegate_prefix=nul(st[10]),
        delegate_attr_name=tab("delegate_attr_name_handlers", st[11]),
        notifiers=nul(ct._notifiers(False)), obj_dict=nul(st[14]))
    if st[7] is not None:
        t.default_value = st[7]
    cache[id(ct)] = (ct, t)
    return t


def install_bridge(it):
    import traits.ctraits as ctm
    base_member = it.api["__member__"]
    base_setmember = it.api["__setmember__"]

    def member(interp, base, field):
        if isinstance(base, ctm.cTrait):
            return getattr(trait_struct_from_ctrait(interp, base), field)
        return base_member(interp, base, field)

    def setmember(interp, base, field, v):
        if isinstance(base, ctm.cTrait):
            return setattr(trait_struct_from_ctrait(interp, base), field, v)
        return base_setmember(interp, base, field, v)
    it.api["__member__"] = member
    it.api["__setmember__"] = setmember


class CTraitModel:
    """stands in for a real CTrait where *Python* code calls the compiled CTrait.validate (Tuple items, Union members):
    the real C code is interpreted instead, so proxies never reach the compiled extension"""

    def __init__(self, ct):
        self.ct = ct
        self.handler = ct.handler

    def validate(self, obj, name, value):
        it = new_interp()
        t = trait_struct_from_ctrait(it, self.ct)
        if t.validate is NULL:
            return value
        o = new_hasTraits(obj)
        r = it.call(t.validate, [t, o, name, value])
        if r is NULL:
            if it.st.err is None:
                raise csym.MemSafety("validator returned NULL without an exception")
            raise it.st.err[1]
        return finalize(r)

    def __getattr__(self, k):
        return getattr(self.ct, k)


# ---- bridging real HasTraits objects -------------------------------------------------------------------
HASTRAITS_INITED, HASTRAITS_NO_NOTIFY, HASTRAITS_VETO_NOTIFY = 1, 2, 4


def hastraits_struct(it, pyobj, itrait_dict=None):
    """abstract has_traits_object sharing the real object's dictionaries (so interpreted C and natively running
    Python see one state).  itrait_dict: pass the real instance-trait dict if the object has one."""
    cache = it.__dict__.setdefault("_ht_cache", {})
    if id(pyobj) in cache:
        return cache[id(pyobj)][1]
    flags = 0
    try:
        if pyobj.traits_inited():
            flags |= HASTRAITS_INITED
        if not pyobj._trait_notifications_enabled():
            flags |= HASTRAITS_NO_NOTIFY
        if pyobj._trait_notifications_vetoed():
            flags |= HASTRAITS_VETO_NOTIFY
    except Exception:
        pass
    nots = pyobj._notifiers(False)
    s = new_hasTraits(pyobj, obj_dict=pyobj.__dict__, ctrait_dict=pyobj._class_traits(),
                      itrait_dict=pyobj._instance_traits() if itrait_dict is None else itrait_dict,
                      notifiers=NULL if nots is None else nots, flags=flags)
    cache[id(pyobj)] = (pyobj, s)
    return s


def install_ht_bridge(it):
    import traits.ctraits as ctm
    base_member = it.api["__member__"]
    base_setmember = it.api["__setmember__"]

    def member(interp, base, field):
        if isinstance(base, ctm.CHasTraits):
            return getattr(hastraits_struct(interp, base), field)
        return base_member(interp, base, field)

    def setmember(interp, base, field, v):
        if isinstance(base, ctm.CHasTraits):
            return setattr(hastraits_struct(interp, base), field, v)
        return base_setmember(interp, base, field, v)
    it.api["__member__"] = member
    it.api["__setmember__"] = setmember
