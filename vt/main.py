"""Entry point: python -m vt.main <property> --tier quick|thorough | --replay <file>"""
import argparse, fnmatch, importlib, json, multiprocessing as mp, os, sys, time, traceback, hashlib

HERE = os.path.dirname(os.path.dirname(os.path.abspath(__file__)))
EXIT_OK, EXIT_VIOLATION, EXIT_INCONCLUSIVE = 0, 1, 3


def load_known():
    p = os.path.join(HERE, "known_findings.json")
    if not os.path.exists(p):
        return []
    with open(p) as f:
        data = json.load(f)
    return [e for e in data.get("findings", []) if isinstance(e, dict)]


KNOWN_HELPERS = {}


def match_known(known, prop, obname, label, values):
    for k in known:
        if k.get("property") != prop:
            continue
        if not fnmatch.fnmatch(obname, k.get("obligation", "*")):
            continue
        if not fnmatch.fnmatch(label, k.get("label", "*")):
            continue
        try:
            env = {"v": values, "ob": obname, "__builtins__": {"abs": abs, "len": len, "str": str, "any": any, "all": all, "isinstance": isinstance, "float": float, "int": int, "range": range, "min": min, "max": max}}
            env.update(KNOWN_HELPERS)
            if eval(k.get("when", "True"), env):
                return k
        except Exception:
            continue
    return None


def _worker(conn, modname, tier, seed, obname, build_root, ast_path):
    try:
        from . import oblig
        out = oblig.run_obligation(_OBS[obname], tier, seed)
    except BaseException as e:
        out = {"name": obname, "harness_errors": ["worker crashed: %r\n%s" % (e, traceback.format_exc(limit=10))],
               "violations": [], "inconclusive": [], "paths": 0, "decisions": 0, "queries": 0, "solver_s": 0,
               "witnesses": 0, "samples": [], "checks": 0, "wall_s": 0, "exhausted": False, "reached": []}
    try:
        conn.send(out)
    finally:
        conn.close()


_BUILD = None
_OBS = {}


def run_pool(modname, tier, seed, names, jobs):
    """fork one process per obligation (at most `jobs` at a time)"""
    ctx = mp.get_context("fork")
    pending = list(names)
    running = {}
    results = {}
    while pending or running:
        while pending and len(running) < jobs:
            n = pending.pop(0)
            pc, cc = ctx.Pipe(duplex=False)
            p = ctx.Process(target=_worker, args=(cc, modname, tier, seed, n, None, None))
            p.start()
            cc.close()
            running[n] = (p, pc, time.time())
        done = []
        for n, (p, pc, t0) in running.items():
            if pc.poll(0.02):
                try:
                    results[n] = pc.recv()
                except EOFError:
                    results[n] = None
                p.join()
                done.append(n)
            elif not p.is_alive():
                p.join()
                results[n] = None
                done.append(n)
        for n in done:
            p, pc, t0 = running.pop(n)
            if results[n] is None and p.exitcode is not None and p.exitcode < 0 and getattr(_OBS.get(n), "crash_is_violation", None):
                results[n] = {"name": n, "harness_errors": [],
                              "violations": [{"label": _OBS[n].crash_is_violation, "values": {"signal": -p.exitcode},
                                              "reproduced": True,
                                              "detail": "the worker process driving the compiled extension was killed by signal %d" % -p.exitcode}],
                              "inconclusive": [], "paths": 0, "decisions": 0, "queries": 0, "solver_s": 0, "witnesses": 0,
                              "samples": [], "checks": 0, "wall_s": 0, "exhausted": True, "reached": []}
            if results[n] is None:
                results[n] = {"name": n, "harness_errors": ["worker process died (exit code %s)" % p.exitcode],
                              "violations": [], "inconclusive": [], "paths": 0, "decisions": 0, "queries": 0,
                              "solver_s": 0, "witnesses": 0, "samples": [], "checks": 0, "wall_s": 0,
                              "exhausted": False, "reached": []}
    return results


def encoded_functions(build, specs):
    """specs: list of (relative file, [qualified names]) -> name, line span and hash from the *current* source"""
    import ast as _ast
    out = []
    for rel, names in specs:
        path = build.src(rel)
        try:
            src = open(path).read()
        except OSError:
            out.append({"file": rel, "error": "missing"})
            continue
        if rel.endswith(".py"):
            tree = _ast.parse(src)
            index = {}

            def walk(node, prefix):
                for ch in _ast.iter_child_nodes(node):
                    if isinstance(ch, (_ast.FunctionDef, _ast.ClassDef)):
                        q = prefix + ch.name
                        index[q] = ch
                        walk(ch, q + ".")
            walk(tree, "")
            lines = src.splitlines()
            for n in names:
                node = index.get(n)
                if node is None:
                    out.append({"file": rel, "name": n, "error": "not found in current source"})
                    continue
                text = "\n".join(lines[node.lineno - 1:node.end_lineno])
                out.append({"file": rel, "name": n, "lines": [node.lineno, node.end_lineno],
                            "sha": hashlib.sha256(text.encode()).hexdigest()[:12]})
        else:
            out.append({"file": rel, "names": names, "sha": hashlib.sha256(src.encode()).hexdigest()[:12]})
    return out


def _merge_xcheck(results):
    out = {}
    for r in results.values():
        for solver, d in ((r or {}).get("xcheck") or {}).items():
            o = out.setdefault(solver, {})
            for verdict, n in d.items():
                o[verdict] = o.get(verdict, 0) + n
    out["rule"] = ("every n-th 'unsat' verdict (a discharged check) is re-decided by the named solver binaries on the SMT-LIB2 dump of the "
                   "same query; 'sat' there makes the path inconclusive (exit 3); unknown / time-out / parse error = not confirmed")
    return out


def main(argv=None):
    global _BUILD
    ap = argparse.ArgumentParser()
    ap.add_argument("prop")
    ap.add_argument("--tier", default=os.environ.get("VERIF_TIER", "quick"), choices=["quick", "thorough"])
    ap.add_argument("--replay")
    ap.add_argument("--only", help="fnmatch pattern on obligation names (debugging)")
    ap.add_argument("--jobs", type=int, default=int(os.environ.get("VERIF_JOBS", "16")))
    ap.add_argument("--list", action="store_true")
    ap.add_argument("-v", action="store_true")
    args = ap.parse_args(argv)
    prop = args.prop.upper()
    seed = int(os.environ.get("VERIF_SEED", "0") or 0)
    t0 = time.time()
    modname = "props." + prop.lower()
    sys.path.insert(0, HERE)
    from . import build
    with open(os.path.join(HERE, "props", prop.lower() + ".py")) as f:
        need_ast = "NEED_AST = True" in f.read()
    _BUILD = build.prepare(need_ext=True, need_ast=need_ast)
    build.activate(_BUILD)
    mod = importlib.import_module(modname)
    if hasattr(mod, "prepare"):
        mod.prepare(_BUILD, args.tier)
    KNOWN_HELPERS.update(getattr(mod, "KNOWN_HELPERS", {}))

    if args.replay:
        with open(args.replay) as f:
            rec = json.load(f)
        obs = {o.name: o for o in mod.obligations("thorough", _BUILD)}
        ob = obs.get(rec["obligation"])
        if ob is None:
            print("HARNESS-ERROR: unknown obligation", rec["obligation"])
            return EXIT_INCONCLUSIVE
        from . import oblig
        values = mod.decode_values(rec["values"]) if hasattr(mod, "decode_values") else rec["values"]
        if ob.replay:
            reproduced, failed, detail = ob.replay(values, rec["label"])
        else:
            failed, reached, cobs, err = oblig.concrete_run(ob, values)
            reproduced = rec["label"] in failed
            detail = err or "failed labels: %r; observation: %r" % (failed, oblig.jsonable(cobs))
        print("replay of %s / %s: %s" % (rec["obligation"], rec["label"], "REPRODUCED" if reproduced else "not reproduced"))
        print(detail)
        if reproduced:
            print("VIOLATION property=%s replay=%s" % (prop, args.replay))
            return EXIT_VIOLATION
        return EXIT_OK

    obligations = mod.obligations(args.tier, _BUILD)
    if args.only:
        obligations = [o for o in obligations if fnmatch.fnmatch(o.name, args.only)]
    if args.list:
        for o in obligations:
            print(o.name)
        return 0
    if hasattr(mod, "selftest"):
        try:
            st = mod.selftest(args.tier)
        except AssertionError as e:
            print("HARNESS-ERROR: environment-model self-test failed: %r" % (e,))
            return EXIT_INCONCLUSIVE
    else:
        st = None
    names = [o.name for o in obligations]
    _OBS.update({o.name: o for o in obligations})
    if "VT_XCHECK" not in os.environ:
        # second-solver cross-checks of sampled 'unsat' verdicts (forked workers inherit the setting)
        from vt import symx as _symx
        _symx.XCHECK_EVERY = 200 if args.tier == "quick" else 40
    results = run_pool(modname, args.tier, seed, names, args.jobs)

    known = load_known()
    viol_lines, known_lines, problems = [], {}, []
    os.makedirs(os.path.join(HERE, "replays", prop), exist_ok=True)
    tot = dict(paths=0, decisions=0, queries=0, solver_s=0.0, witnesses=0, checks=0, aborted=0, paths_with_checks=0, replayed=0)
    samples, per_ob = [], []
    nviol = 0
    for o in obligations:
        r = results[o.name]
        for k in tot:
            tot[k] += r.get(k, 0) or 0
        per_ob.append({"name": o.name, "paths": r.get("paths", 0), "decisions": r.get("decisions", 0),
                       "queries": r.get("queries", 0), "solver_s": r.get("solver_s", 0), "wall_s": r.get("wall_s", 0),
                       "exhausted": r.get("exhausted", False), "bounds": o.bounds, "solver_leverage": o.leverage,
                       "violations": len(r.get("violations", []))})
        samples.extend(r.get("samples", [])[:2])
        for he in r.get("harness_errors", []):
            problems.append("HARNESS-ERROR obligation=%s %s" % (o.name, he))
        for inc in r.get("inconclusive", []):
            problems.append("INCONCLUSIVE property=%s obligation=%s reason=%s" % (prop, o.name, inc))
        if not r.get("exhausted", False) and not r.get("harness_errors") and not r.get("inconclusive"):
            problems.append("INCONCLUSIVE property=%s obligation=%s reason=path tree not exhausted" % (prop, o.name))
        for v in r.get("violations", []):
            if not v["reproduced"]:
                problems.append("HARNESS-ERROR obligation=%s counterexample for %r did not reproduce on the real build: values=%r (%s)"
                                % (o.name, v["label"], v["values"], v["detail"]))
                continue
            k = match_known(known, prop, o.name, v["label"], v["values"])
            if k is not None:
                known_lines.setdefault(k["id"], "KNOWN-FINDING: property=%s %s [%s]" % (prop, k["what"], k["id"]))
                continue
            nviol += 1
            h = hashlib.sha256(json.dumps([o.name, v["label"], v["values"]], sort_keys=True).encode()).hexdigest()[:10]
            path = os.path.join(HERE, "replays", prop, "%s-%s.json" % (o.name.replace("/", "_"), h))
            with open(path, "w") as f:
                json.dump({"property": prop, "obligation": o.name, "label": v["label"], "values": v["values"],
                           "detail": v["detail"]}, f, indent=1)
            if len(viol_lines) < 25:
                viol_lines.append("VIOLATION property=%s replay=%s   # %s: %s values=%s"
                                  % (prop, path, o.name, v["label"], json.dumps(v["values"])[:300]))

    wall = time.time() - t0
    spec = getattr(mod, "ENCODED", [])
    ev = {
        "property_id": prop, "tier": args.tier, "seed": seed, "level": getattr(mod, "LEVEL", "model_checking"),
        "coverage": {
            "evaluations": tot["paths"], "distinct_nontrivial": tot["paths_with_checks"],
            "rule": "one case = one explored control path of one obligation (a distinct feasible decision prefix, hence distinct "
                    "by construction; each stands for every input satisfying its path condition); non-trivial = at least one "
                    "assertion was discharged by the solver on that path",
            "programs": len(obligations), "disagreements_checked": tot["replayed"],
            "states": max(tot["paths"], 0), "transitions": max(tot["decisions"], tot["paths"], 0),
            "traces_validated_against_impl": tot["witnesses"],
            "samples": samples[:12] or [{"note": "no path explored"}],
            "exhaustive": all(r.get("exhausted") for r in results.values()) and not problems,
            "obligations": len(obligations),
            "obligation_detail": per_ob,
            "checks_discharged": tot["checks"], "solver_queries": tot["queries"],
            "solver_seconds": round(tot["solver_s"], 2), "paths_aborted": tot["aborted"],
            "second_solver_cross_checks": _merge_xcheck(results),
            "functions_encoded": encoded_functions(_BUILD, spec),
            "c_functions_interpreted": sorted({f for r in results.values() if r for f in r.get("c_functions", [])}),
            "solver": "z3 %s (python wheel)" % __import__("z3").get_version_string(),
            "env_model_selftest_comparisons": st,
            "build": {"times_s": {k: round(v, 2) for k, v in _BUILD.times.items()}, "source": build.REPO},
            "stubs": sorted({s for o in obligations for s in o.stubs}),
            "known_findings_matched": sorted(known_lines),
            "inconclusive": problems[:20],
            "explanation": getattr(mod, "EXPLANATION", ""),
        },
        "assumptions": sorted({a for o in obligations for a in o.assumes}) + list(getattr(mod, "ASSUMPTIONS", [])),
        "wall_s": round(wall, 2), "violations": nviol,
    }
    os.makedirs(os.path.join(HERE, "evidence"), exist_ok=True)
    evpath = os.path.join(HERE, "evidence", prop + ".json")
    with open(evpath, "w") as f:
        json.dump(ev, f, indent=1, sort_keys=False)
    try:
        import jsonschema
        with open("/root/.vp/EVIDENCE.schema.json") as f:
            jsonschema.validate(ev, json.load(f))
    except FileNotFoundError:
        pass
    except Exception as e:
        problems.append("HARNESS-ERROR evidence file does not validate: %s" % (str(e)[:300],))

    print("%s tier=%s obligations=%d paths=%d decisions=%d queries=%d solver=%.1fs witnesses=%d wall=%.1fs"
          % (prop, args.tier, len(obligations), tot["paths"], tot["decisions"], tot["queries"], tot["solver_s"],
             tot["witnesses"], wall))
    if args.v:
        for d in per_ob:
            print("   %-50s paths=%-6d queries=%-7d wall=%.1fs" % (d["name"], d["paths"], d["queries"], d["wall_s"]))
    for l in known_lines.values():
        print(l)
    for l in viol_lines:
        print(l)
    if nviol:
        if nviol > len(viol_lines):
            print("... %d violations in total" % nviol)
        return EXIT_VIOLATION
    if problems:
        for p in problems[:30]:
            print(p)
        return EXIT_INCONCLUSIVE
    print("OK property=%s held on everything explored (bounded; see evidence/%s.json)" % (prop, prop))
    return EXIT_OK


if __name__ == "__main__":
    sys.exit(main())
