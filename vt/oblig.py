"""Obligation = harness + bound + stubs + assumptions; run_obligation() explores it and replays what it finds."""
import json, math, os, random, time, traceback, hashlib, zlib

from . import symx


class Obligation:
    def __init__(self, name, harness, env=None, bounds=None, stubs=(), assumes=(), leverage="inputs",
                 max_paths=20000, path_wall_s=60.0, total_wall_s=None, query_timeout_ms=20000,
                 witness_every=1, replay=None, expect_labels=None, conc_env=None, kind="symx", fast_fp=False,
                 witness_violations=False, crash_is_violation=None):
        self.fast_fp = fast_fp
        # label to report when the worker is killed by a signal while driving the compiled extension for this obligation
        self.crash_is_violation = crash_is_violation
        # a witness replay that fails an assertion the symbolic run passed is, by construction, a reproduced violation of the
        # oracle on the real build (used where part of the code is only reachable concretely, e.g. the DSL's character lexer)
        self.witness_violations = witness_violations
        self.name = name
        self.harness = harness          # harness(ex) -> observation
        self.env = env                  # context-manager factory for symbolic runs (environment models on)
        self.conc_env = conc_env        # optional context-manager factory for concrete runs
        self.bounds = bounds or {}
        self.stubs = list(stubs)
        self.assumes = list(assumes)
        self.leverage = leverage        # what the solver decides here
        self.max_paths = max_paths
        self.path_wall_s = path_wall_s
        self.total_wall_s = total_wall_s
        self.query_timeout_ms = query_timeout_ms
        self.witness_every = witness_every
        self.replay = replay            # optional custom replay(values) -> (reproduced, failed_labels, detail)
        self.expect_labels = expect_labels  # labels that must be reached on some path (vacuity guard)
        self.kind = kind


def jsonable(x):
    if hasattr(x, "__conc__"):
        return jsonable(x.__conc__())
    if isinstance(x, float):
        if math.isnan(x) or math.isinf(x):
            return repr(x)
        return x
    if isinstance(x, (str, int, bool)) or x is None:
        return x
    if isinstance(x, (list, tuple)):
        return [jsonable(i) for i in x]
    if isinstance(x, dict):
        return {str(k): jsonable(v) for k, v in x.items()}
    if isinstance(x, slice):
        return "slice(%r,%r,%r)" % (x.start, x.stop, x.step)
    return repr(x)


def concrete_run(ob, values, index_objects=False):
    """Run the harness concretely on the real environment. Returns (failed_labels, reached, obs, exc).
    index_objects: harnesses that ask (`ex.index_objects`) present integer INDICES as objects with __index__ instead of ints -
    an integer proxy stands for either, and code may tell them apart."""
    cx = symx.Concrete(values)
    cx.index_objects = index_objects
    cm = ob.conc_env() if ob.conc_env else None
    obs = None
    err = None
    try:
        if cm:
            cm.__enter__()
        try:
            obs = ob.harness(cx)
        finally:
            if cm:
                cm.__exit__(None, None, None)
    except symx.PathAbort as e:
        err = "abort: %s\n%s" % (e, traceback.format_exc(limit=4))
    except Exception as e:
        err = "exception: %r\n%s" % (e, traceback.format_exc(limit=6))
    return cx.failed, cx.reached, obs, err


def run_obligation(ob, tier, seed):
    """Executed in a worker process. Returns a JSON-able dict."""
    ex = symx.Explorer(ob.name, query_timeout_ms=ob.query_timeout_ms, max_paths=ob.max_paths,
                       path_wall_s=ob.path_wall_s, total_wall_s=ob.total_wall_s, fast_fp=ob.fast_fp)
    rng = random.Random((seed << 16) ^ zlib.crc32(ob.name.encode()))
    out = {"name": ob.name, "violations": [], "harness_errors": [], "samples": [], "witnesses": 0,
           "witness_skipped": 0}
    seen_viol = set()

    def on_path_end(ex, obs):
        res = ex.res
        # 1. counterexamples found on this path: replay on the real environment
        for v in ex.path_violations:
            key = (v["label"], json.dumps(jsonable(v["values"]), sort_keys=True))
            if key in seen_viol:
                continue
            seen_viol.add(key)
            if ob.replay:
                reproduced, failed, detail = ob.replay(v["values"], v["label"])
            else:
                failed, reached, cobs, err = concrete_run(ob, v["values"])
                reproduced = v["label"] in failed
                detail = err or ("failed labels on replay: %r" % (failed,))
                if not reproduced:
                    failed2, _r, _o, err2 = concrete_run(ob, v["values"], index_objects=True)
                    if v["label"] in failed2:
                        reproduced = True
                        detail = "reproduces when the indices are objects with __index__ (not with plain ints)"
                        v = dict(v, values=dict(v["values"], __index_objects__=True))
            rec = {"label": v["label"], "values": jsonable(v["values"]), "reproduced": bool(reproduced),
                   "detail": detail}
            out["violations"].append(rec)
        # 2. witness validation: the model of the path condition, run concretely, must behave as predicted
        if ob.witness_every and (res.paths % ob.witness_every == 0 or res.paths <= 3) and not ob.replay:
            model = ex.path_model()
            if model is None:
                return
            values = ex.model_values(model)
            try:
                predicted = jsonable(symx.evaluate(obs, model))
            except Exception as e:
                out["harness_errors"].append("cannot evaluate observation: %r" % (e,))
                return
            failed, reached, cobs, err = concrete_run(ob, values)
            if err:
                out["harness_errors"].append("witness replay of %s raised: %s (values %r)" % (ob.name, err, values))
                return
            got = jsonable(cobs)
            sym_failed = sorted({v["label"] for v in ex.path_violations})
            # a path whose checks all passed symbolically must pass concretely too
            extra = [l for l in failed if l not in sym_failed]
            if extra and ob.witness_violations:
                for l in extra:
                    key = (l, json.dumps(jsonable(values), sort_keys=True))
                    if key not in seen_viol:
                        seen_viol.add(key)
                        out["violations"].append({"label": l, "values": jsonable(values), "reproduced": True,
                                                  "detail": "found by the concrete replay of a path witness on the real build"})
                out["witnesses"] += 1
            elif predicted != got or extra:
                out["harness_errors"].append(
                    "witness mismatch in %s: values=%r predicted=%r concrete=%r unexpected-failed=%r"
                    % (ob.name, values, predicted, got, extra))
            else:
                out["witnesses"] += 1
                if len(out["samples"]) < 3 or rng.random() < 0.02 and len(out["samples"]) < 6:
                    out["samples"].append({"obligation": ob.name, "inputs": jsonable(values), "observation": got})
        else:
            out["witness_skipped"] += 1

    ex.on_path_end = on_path_end
    try:
        res = ex.run(ob.harness, env=ob.env)
    except symx.HarnessError as e:
        out["harness_errors"].append("%s\n%s" % (e, traceback.format_exc(limit=8)))
        res = ex.res
    out.update(paths_with_checks=res.paths_with_checks, replayed=len(out["violations"]), paths=res.paths, aborted=res.aborted_paths, decisions=res.decisions, queries=res.queries,
               solver_s=round(res.solver_s, 3), checks=res.checks, wall_s=round(res.wall_s, 3),
               exhausted=res.exhausted, inconclusive=sorted(set(res.inconclusive))[:10], xcheck=res.xcheck,
               reached=sorted(res.reached))
    if ob.expect_labels:
        missing = [l for l in ob.expect_labels if l not in res.reached]
        if missing:
            out["inconclusive"].append("vacuity: assertion(s) never reached: %r" % (missing,))
    if res.paths == 0 and not out["harness_errors"]:
        out["inconclusive"].append("vacuity: no feasible path")
    try:
        import sys as _sys
        cenv_ = _sys.modules.get("vt.cenv")
        if cenv_ is not None:
            out["c_functions"] = cenv_.c_functions_interpreted()
    except Exception:
        pass
    return out
